"""C12 helper -- evaluation of a function body on abstract values (c12_str) with the float parameter confined to an interval.

`Engine.run()` walks the statements; every comparison of the float parameter (or -x, abs(x)) with a constant *splits the interval*, so
an if/elif ladder, its inverted form, a chain of early returns or a loop over a literal (bound, spec) table all produce the same set
of leaves  (interval of the parameter, value returned).  Tests the model cannot decide fork into both arms (recorded as facts).
Nothing is matched as text: names are looked up in the environment, module-level literals are folded, calls are evaluated.

`inline=<predicate on function names>` makes the engine *follow* calls to plain module-level functions (and to nested functions / lambdas
of the frame under evaluation): before a statement is executed, the followed calls its expressions certainly evaluate are run on their
argument values (`prefork`); every path through the callee continues the caller's path (interval, facts, effects; a `raise` in the
callee ends the statement, an exception of a modelled builtin reaches the caller's `try`), the value is remembered under the call node.
Lists handed to a helper that appends to them are written back to the caller's local; a helper that treats such a list in a way that is
not followed makes it unknown.  Calls in conditionally evaluated positions (arms of conditional expressions, comprehension elements)
are followed when the callee has one outcome.  Boolean expressions in value position (`neg = value < 0`, `return a <= w and b == c`)
part the paths exactly as the same test in an `if` would.
"""
from __future__ import annotations

import ast
from fractions import Fraction

from .core import Unsupported
from .e1_srcmodel import dotted
from .c12_str import (V, Unk, Const, Param, Neg, Abs, Round, IntOf, FloatOf, Len, Opaque, Lit, Spec, Fmt, Cat, Strip, Replace, Slice, Rep,
                      Piece, StrOf, CaseOf, CallS, Choice, Tup, DictV, is_num, is_str, cat, as_int, parse_spec, make_fmt,
                      template_format, percent_format)


class FuncV(V):
    """a function defined inside the function under evaluation (nested def / lambda); it is followed when called from that very frame,
    where its free variables are the caller's locals"""
    __slots__ = ("node", "owner", "closure", "defaults")

    def __init__(self, node, owner, closure=None, defaults=None):
        self.node, self.owner = node, owner
        self.closure = closure               # locals of the frame that defined it, once that frame has returned (a function made by a factory)
        self.defaults = defaults             # {parameter: value} of the defaults, evaluated where the function was defined

    def __eq__(self, o):
        return isinstance(o, FuncV) and o.node is self.node

    def __hash__(self):
        return id(self.node)

    def __repr__(self):
        return f"FuncV({getattr(self.node, 'name', 'lambda')})"


class BufV(V):
    """an io.StringIO made by the code under evaluation: the pieces written to it so far (held in a local, replaced on every write)"""
    __slots__ = ("parts",)

    def __init__(self, parts=()):
        self.parts = tuple(parts)

    def __eq__(self, o):
        return isinstance(o, BufV) and o.parts == self.parts

    def __hash__(self):
        return hash(("BufV", self.parts))

    def __repr__(self):
        return f"BufV({len(self.parts)} pieces)"


class Interval:
    """lo (<|<=) x (<|<=) hi ; None = unbounded"""
    __slots__ = ("lo", "lc", "hi", "hc")

    def __init__(self, lo=None, lc=False, hi=None, hc=False):
        self.lo, self.lc, self.hi, self.hc = lo, lc, hi, hc

    def empty(self):
        if self.lo is None or self.hi is None:
            return False
        return self.lo > self.hi or (self.lo == self.hi and not (self.lc and self.hc))

    def below(self, c, closed):
        """intersection with x < c (closed: x <= c)"""
        r = Interval(self.lo, self.lc, self.hi, self.hc)
        if r.hi is None or c < r.hi or (c == r.hi and r.hc and not closed):
            r.hi, r.hc = c, closed
        return r

    def above(self, c, closed):
        r = Interval(self.lo, self.lc, self.hi, self.hc)
        if r.lo is None or c > r.lo or (c == r.lo and r.lc and not closed):
            r.lo, r.lc = c, closed
        return r

    def contains(self, o):
        """self is a superset of o"""
        if self.lo is not None:
            if o.lo is None or o.lo < self.lo or (o.lo == self.lo and o.lc and not self.lc):
                return False
        if self.hi is not None:
            if o.hi is None or o.hi > self.hi or (o.hi == self.hi and o.hc and not self.hc):
                return False
        return True

    def meet(self, o):
        r = self
        if o.lo is not None:
            r = r.above(o.lo, o.lc)
        if o.hi is not None:
            r = r.below(o.hi, o.hc)
        return r

    def __repr__(self):
        return f"{'[' if self.lc else '('}{'-inf' if self.lo is None else _ftxt(self.lo)}, {'inf' if self.hi is None else _ftxt(self.hi)}{']' if self.hc else ')'}"


def _ftxt(fr):
    f = float(fr)
    return repr(int(f)) if f == int(f) and abs(f) < 1e16 else repr(f)


class State:
    __slots__ = ("env", "iv", "facts", "effects")

    def __init__(self, env, iv, facts=(), effects=()):
        self.env, self.iv, self.facts, self.effects = env, iv, facts, effects

    def fork(self, iv=None, fact=None):
        return State(dict(self.env), self.iv if iv is None else iv, self.facts + ((fact,) if fact else ()), self.effects)


class Leaf:
    __slots__ = ("state", "kind", "value", "node")

    def __init__(self, state, kind, value, node):
        self.state, self.kind, self.value, self.node = state, kind, value, node

    @property
    def iv(self):
        return self.state.iv


def const_fraction(node, src=None):
    v = node.value
    if isinstance(v, bool):
        return None
    if isinstance(v, int):
        return Fraction(v)
    if isinstance(v, float):
        if v != v or v in (float("inf"), float("-inf")):
            return None
        return Fraction(repr(v))
    return None


class Raised(Exception):
    """a Python exception raised by a modelled builtin on concrete text (int('1.5') ...)"""

    def __init__(self, name):
        super().__init__(name)
        self.name = name


MAX_INLINE_DEPTH = 6


def _memo_key(node):
    return "<call:%d>" % id(node)


def _boolean_expr(e):
    """an expression whose value is True / False: comparisons, `not`, and / or of such, isinstance(...)"""
    if isinstance(e, ast.Compare) or (isinstance(e, ast.UnaryOp) and isinstance(e.op, ast.Not)):
        return True
    if isinstance(e, ast.BoolOp):
        return all(_boolean_expr(v) for v in e.values)
    if isinstance(e, ast.Constant):
        return isinstance(e.value, bool)
    return isinstance(e, ast.Call) and isinstance(e.func, ast.Name) and e.func.id == "isinstance"


def _plain_function(fn):
    """a function whose call is an ordinary evaluation of its body: no decorator, not a generator / coroutine"""
    ok = getattr(fn, "_c12_plain", None)
    if ok is None:
        ok = isinstance(fn, ast.Lambda) or (isinstance(fn, ast.FunctionDef) and not fn.decorator_list)
        gen = False
        if ok:
            par = {}
            stack = list(fn.body) if isinstance(fn.body, list) else [fn.body]
            while stack:
                n = stack.pop()
                if isinstance(n, (ast.Await, ast.Nonlocal, ast.Global)):
                    ok = False
                    break
                if isinstance(n, (ast.Yield, ast.YieldFrom)):
                    # a generator that only produces values (`yield x` / `yield from xs` as statements): its items are collected
                    gen = True
                    if not isinstance(par.get(id(n)), ast.Expr):
                        ok = False
                        break
                if isinstance(n, (ast.FunctionDef, ast.AsyncFunctionDef, ast.Lambda, ast.ClassDef)):
                    continue
                for c in ast.iter_child_nodes(n):
                    par[id(c)] = n
                    stack.append(c)
        if ok and gen:
            # a `return value` in a generator is not a value any caller here reads
            ok = not any(isinstance(n, ast.Return) and n.value is not None for n in ast.walk(fn))
        fn._c12_plain = ok
        fn._c12_gen = ok and gen
    return ok


_PURE_BUILTINS = {"len", "min", "max", "sum", "sorted", "list", "tuple", "enumerate", "zip", "reversed", "str", "repr", "isinstance", "any",
                  "all", "bool", "iter", "set", "frozenset", "type", "id", "print", "dict", "map", "filter", "range", "float", "int", "abs", "round",
                  "format", "next", "divmod", "ord", "chr"}
_PURE_METHODS = {"index", "count", "copy", "__len__", "__contains__"}


def _list_param_use(fn, eng):
    """how a function treats a list it receives as parameter: {parameter: 'pure' | 'mutates' | 'escapes'}.
    'mutates': altered only through append / extend / += / item stores (all followed by the engine, so the parameter's final value is the
    caller's list after the call); 'escapes': bound to another name, handed on to code that is not followed, altered in another way"""
    cache = fn.__dict__.setdefault("_c12_lpu", {})
    use = cache.get(id(eng.inline))
    if use is not None:
        return use
    params = {a.arg for a in fn.args.posonlyargs + fn.args.args + fn.args.kwonlyargs}
    seen = {p: set() for p in params}
    par = {}
    for n in ast.walk(fn):
        for c in ast.iter_child_nodes(n):
            par[id(c)] = n
    for n in ast.walk(fn):
        if not (isinstance(n, ast.Name) and n.id in params):
            continue
        up = par.get(id(n))
        kinds = seen[n.id]
        if isinstance(n.ctx, (ast.Store, ast.Del)):
            kinds.add("mutates" if isinstance(up, ast.AugAssign) and up.target is n else "rebound")
            continue
        if isinstance(up, ast.Attribute):
            call = par.get(id(up))
            if isinstance(call, ast.Call) and call.func is up:
                kinds.add("mutates" if up.attr in ("append", "extend") else ("pure" if up.attr in _PURE_METHODS else "escapes"))
            else:
                kinds.add("escapes")
        elif isinstance(up, ast.Subscript) and up.value is n:
            kinds.add("mutates" if isinstance(up.ctx, (ast.Store, ast.Del)) else "pure")
        elif isinstance(up, ast.Call) and n in up.args:
            d = dotted(up.func)
            if d in _PURE_BUILTINS:
                kinds.add("pure")
            elif d is not None and "." not in d and d in eng.mod.funcs and d not in params and eng.inline is not None and eng.inline(d) \
                    and _plain_function(eng.mod.funcs[d]):
                kinds.add("mutates")         # followed in turn: its effect on the list arrives in this function's local
            else:
                kinds.add("escapes")
        elif isinstance(up, (ast.For, ast.comprehension)) and up.iter is n:
            kinds.add("pure")
        elif isinstance(up, (ast.Compare, ast.BoolOp, ast.UnaryOp, ast.If, ast.IfExp, ast.While, ast.FormattedValue, ast.Return, ast.BinOp,
                             ast.Assert)):
            kinds.add("pure" if not (isinstance(up, ast.IfExp) and up.test is not n) else "escapes")
        elif isinstance(up, ast.AugAssign):
            kinds.add("pure")
        else:
            kinds.add("escapes")
    use = {}
    for p, kinds in seen.items():
        if "escapes" in kinds or ("rebound" in kinds and "mutates" in kinds):
            use[p] = "escapes"
        elif "mutates" in kinds:
            use[p] = "mutates"
        else:
            use[p] = "pure"
    cache[id(eng.inline)] = use
    return use


_FLIP = {ast.Lt: ast.Gt, ast.Gt: ast.Lt, ast.LtE: ast.GtE, ast.GtE: ast.LtE, ast.Eq: ast.Eq, ast.NotEq: ast.NotEq}
MAX_STATES = 4000


class Engine:
    def __init__(self, ctx, rel, fn, param=None, cond=None, call=None, cmp=None, length=None, env=None, follow=True, post=None, lenient=False, exceptions=False, strict_locals=False,
                 inline=None, _stack=()):
        self.ctx, self.rel, self.fn = ctx, rel, fn
        self.inline = inline                 # predicate on names of module-level functions: calls to them are evaluated in place
        self._stack = _stack                 # names of the functions being evaluated (no recursion)
        self._term = []                      # paths ended by a raise inside a followed call of the current statement
        self._strict_flag = strict_locals
        self.max_states = MAX_STATES
        self.mod = ctx.src.mod(rel)
        self.param = param
        self.cond_hook, self.call_hook, self.cmp_hook, self.len_hook = cond, call, cmp, length
        self.post_hook = post
        self.lenient = lenient
        self.exceptions = exceptions
        self.index_errors = exceptions       # a concrete index / key that a concrete tuple / dict does not hold raises (IndexError / KeyError)
        self.strict_locals = strict_locals and fn is not None
        self.env0 = dict(env or {})
        self.follow = follow
        self._modconst = {}
        self.nstates = 0

    # ------------------------------------------------------------ entry points
    def start_state(self, iv=None):
        env = dict(self.env0)
        if self.fn is not None:
            for a in self.fn.args.args + self.fn.args.kwonlyargs:
                env.setdefault(a.arg, Param(a.arg))
        return State(env, iv or Interval())

    def run(self, iv=None, body=None, state=None):
        st = state or self.start_state(iv)
        res = self.block(self.fn.body if body is None else body, st)
        leaves = []
        for s, out, pay in res:
            if out == "return":
                leaves.append(Leaf(s, "return", pay[0], pay[1]))
            elif out == "raise":
                leaves.append(Leaf(s, "raise", None, pay))
            elif out == "exc":
                leaves.append(Leaf(s, "raise", Lit(pay), self.fn))
            else:
                leaves.append(Leaf(s, "fall" if out == "next" else out, Const(None), self.fn))
        return leaves

    # ------------------------------------------------------------ statements
    def block(self, stmts, st):
        cur = [st]
        done = []
        for s in stmts:
            nxt = []
            for c in cur:
                try:
                    res = self.stmt(s, c)
                except Raised as r:
                    done.append((c, "exc", r.name))
                    continue
                for st2, out, pay in res:
                    if out == "next":
                        nxt.append(st2)
                    else:
                        done.append((st2, out, pay))
            cur = nxt
            self.nstates += len(cur)
            if self.nstates > self.max_states:
                raise Unsupported("too many paths")
            if not cur:
                break
        return [(c, "next", None) for c in cur] + done

    def stmt(self, s, st):
        """-> [(state, outcome, payload)]; paths that end inside a followed helper call (its raise) are outcomes of the statement"""
        saved, self._term = self._term, []
        try:
            res = self._stmt(s, st)
            return res + self._term
        finally:
            self._term = saved

    def forking_eval(self, expr, st):
        """value of an expression whose evaluation may fork (conditional expressions, followed helper calls) -> [(state, value)]"""
        if isinstance(expr, ast.IfExp):
            out = []
            forks = self.decide(expr.test, st)
            for truth, st2 in forks:
                try:
                    out.extend(self.forking_eval(expr.body if truth else expr.orelse, st2))
                except Raised as r:
                    if len(forks) == 1:
                        raise
                    self._term.append((st2, "exc", r.name))      # the arm raises: that path ends here, the other arm goes on
            return out
        if _boolean_expr(expr) and not isinstance(expr, ast.Constant):
            # a test kept in a temporary / returned by a predicate helper: the paths part here (the interval is split, the outcome recorded),
            # exactly as if the test stood in the `if` that later reads the flag
            return [(st2, Const(truth)) for truth, st2 in self.decide(expr, st)]
        sites = self._inline_sites(expr, st)
        if not sites:
            return [(st, self.ev(expr, st))]
        forks = self.prefork(sites, st)
        out = []
        for st2 in forks:
            try:
                out.append((st2, self.ev(expr, st2)))
            except Raised as r:
                if len(forks) == 1:
                    raise
                # the expression raises on one of the paths its tests / look-ups part (`table[position]` past the end): that path alone
                self._term.append((st2, "exc", r.name))
        return out

    def _stmt(self, s, st):
        if isinstance(s, ast.Expr) and isinstance(s.value, (ast.Yield, ast.YieldFrom)):
            out = []
            if s.value.value is None:
                forks = [(st, Const(None))]
            else:
                forks = self.forking_eval(s.value.value, st)
            for st2, v in forks:
                cur = st2.env.get("<yield>")
                if isinstance(s.value, ast.YieldFrom):
                    v = _as_sequence(v)
                    add = v.items if isinstance(v, Tup) else None
                else:
                    add = (v,)
                st2.env["<yield>"] = Tup(cur.items + add) if isinstance(cur, Tup) and add is not None else Unk("yield outside a followed generator")
                out.append((st2, "next", None))
            return out
        if isinstance(s, ast.Expr):
            if isinstance(s.value, ast.Constant):
                return [(st, "next", None)]
            return [(st2, "next", None) for st2, _ in self.forking_eval(s.value, st)]
        if isinstance(s, (ast.Assign, ast.AnnAssign)):
            value = s.value
            targets = s.targets if isinstance(s, ast.Assign) else [s.target]
            if value is None:
                return [(st, "next", None)]
            out = []
            for st2, v in self.forking_eval(value, st):
                for t in targets:
                    self.assign(t, v, st2)
                out.append((st2, "next", None))
            return out
        if isinstance(s, ast.AugAssign):
            out = []
            for st2, rhs in self.forking_eval(s.value, st):
                cur = self.ev(_load(s.target), st2)
                v = self.binop(s.op, cur, rhs, st2)
                self.assign(s.target, v, st2)
                out.append((st2, "next", None))
            return out
        if isinstance(s, ast.If):
            out = []
            for truth, st2 in self.decide(s.test, st):
                out.extend(self.block(s.body if truth else s.orelse, st2))
            return out
        if isinstance(s, ast.Return):
            if s.value is None:
                return [(st, "return", (Const(None), s))]
            return [(st2, "return", (v, s)) for st2, v in self.forking_eval(s.value, st)]
        if isinstance(s, ast.Raise):
            return [(st, "raise", s)]
        if isinstance(s, ast.Break):
            return [(st, "break", None)]
        if isinstance(s, ast.Continue):
            return [(st, "continue", None)]
        if isinstance(s, ast.FunctionDef):
            st.env[s.name] = FuncV(s, id(self), defaults=self._defaults_of(s, st))
            return [(st, "next", None)]
        if isinstance(s, ast.Delete):
            for t in s.targets:
                if isinstance(t, ast.Subscript) and isinstance(t.value, ast.Name) and isinstance(st.env.get(t.value.id), Tup):
                    st.env[t.value.id] = Unk("item deleted")
                elif isinstance(t, ast.Name) and self.fn is None:
                    st.env.pop(t.id, None)
            return [(st, "next", None)]
        if isinstance(s, (ast.Pass, ast.Assert, ast.Import, ast.ImportFrom, ast.Global, ast.Nonlocal)):
            return [(st, "next", None)]
        if isinstance(s, ast.Try):
            out = []
            for st2, o, pay in self.block(s.body, st):
                if o == "exc":
                    h = None
                    for hd in s.handlers:
                        names = [] if hd.type is None else [dotted(t) for t in (hd.type.elts if isinstance(hd.type, ast.Tuple) else [hd.type])]
                        if hd.type is None or pay in names or "Exception" in names:
                            h = hd
                            break
                    if h is None:
                        out.append((st2, o, pay))
                    else:
                        for st3, o3, p3 in self.block(h.body, st2):
                            if o3 == "next":
                                out.extend(self.block(s.finalbody, st3))
                            else:
                                out.append((st3, o3, p3))
                    continue
                if o == "next":
                    for st3, o3, p3 in self.block(s.orelse, st2):
                        if o3 == "next":
                            out.extend(self.block(s.finalbody, st3))
                        else:
                            out.append((st3, o3, p3))
                else:
                    out.append((st2, o, pay))
            return out
        if isinstance(s, ast.With):
            return self.with_stmt(s, st)
        if isinstance(s, ast.For):
            return self.for_loop(s, st)
        if isinstance(s, ast.While):
            return self.while_loop(s, st)
        raise Unsupported(f"statement {type(s).__name__} at line {getattr(s, 'lineno', '?')}")

    def with_stmt(self, s, st):
        """`with contextlib.suppress(E, ...):` is `try: ... except (E, ...): pass`; any other context manager is not modelled"""
        names = []
        for item in s.items:
            e = item.context_expr
            if not (isinstance(e, ast.Call) and self.lib_name(e.func) == "contextlib.suppress" and not e.keywords
                    and item.optional_vars is None and all(dotted(a) for a in e.args)):
                if self.lenient:
                    for n in ast.walk(s):
                        if isinstance(n, ast.Name) and isinstance(n.ctx, ast.Store):
                            st.env[n.id] = Unk("assigned under a context manager")
                    return [(st, "next", None)]
                raise Unsupported(f"with statement at line {s.lineno}: {ast.unparse(e)}")
            names.extend(dotted(a) for a in e.args)
        out = []
        for st2, o, pay in self.block(s.body, st):
            if o == "exc" and (pay in names or "Exception" in names or "BaseException" in names):
                out.append((st2, "next", None))
            else:
                out.append((st2, o, pay))
        return out

    def lib_name(self, func):
        """canonical dotted name of a standard-library callable reached through the imports of the module / the function
        (`from itertools import islice as take` -> 'itertools.islice'), else None"""
        d = dotted(func)
        if d is None:
            return None
        imp = getattr(self, "_imports", None)
        if imp is None:
            imp = {}
            for tree in (self.mod.tree, self.fn):
                if tree is None:
                    continue
                part = getattr(tree, "_c12_imports", None)
                if part is None:
                    part = {}
                    nodes = tree.body if isinstance(tree, ast.Module) else list(ast.walk(tree))
                    for n in nodes:
                        if isinstance(n, ast.Import):
                            for a in n.names:
                                part[(a.asname or a.name).split(".")[0]] = a.name if a.asname else a.name.split(".")[0]
                        elif isinstance(n, ast.ImportFrom) and n.module and not n.level:
                            for a in n.names:
                                part[a.asname or a.name] = n.module + "." + a.name
                    tree._c12_imports = part
                imp.update(part)
            self._imports = imp
        head, _, rest = d.partition(".")
        if head not in imp:
            return None
        return imp[head] + ("." + rest if rest else "")

    def for_loop(self, s, st):
        forks = self.forking_eval(s.iter, st)
        if len(forks) != 1:
            out = []
            for st2, it in forks:
                out.extend(self._for_loop(s, st2, it))
            return out
        return self._for_loop(s, forks[0][0], forks[0][1])

    def _for_loop(self, s, st, it):
        it = _as_sequence(it)
        if not isinstance(it, Tup):
            if self.lenient:
                # a loop that is not the rule's business: what it assigns is unknown afterwards
                for n in ast.walk(s):
                    if isinstance(n, ast.Name) and isinstance(n.ctx, ast.Store):
                        st.env[n.id] = Unk("assigned in a loop")
                return [(st, "next", None)]
            raise Unsupported(f"loop over a non-literal sequence: {ast.unparse(s.iter)}")
        live = [st]
        done = []
        broke = []
        for item in it.items:
            nxt = []
            for c in live:
                self.assign(s.target, item, c)
                for st2, o, pay in self.block(s.body, c):
                    if o in ("next", "continue"):
                        nxt.append(st2)
                    elif o == "break":
                        broke.append(st2)
                    else:
                        done.append((st2, o, pay))
            live = nxt
            if not live:
                break
        out = list(done)
        for c in live:
            out.extend(self.block(s.orelse, c))
        out.extend((c, "next", None) for c in broke)
        return out

    def while_loop(self, s, st, bound=400):
        """a loop whose test is decided at every iteration (concrete counters, scripted iterators)"""
        live = [st]
        out = []
        for _ in range(bound):
            nxt = []
            for c in live:
                for truth, c2 in self.decide(s.test, c):
                    if c2.facts != c.facts:
                        raise Unsupported(f"loop test not decided: {ast.unparse(s.test)}")
                    if not truth:
                        out.extend(self.block(s.orelse, c2))
                        continue
                    for st2, o, pay in self.block(s.body, c2):
                        if o in ("next", "continue"):
                            nxt.append(st2)
                        elif o == "break":
                            out.append((st2, "next", None))
                        else:
                            out.append((st2, o, pay))
            live = nxt
            if not live:
                return out
        raise Unsupported("loop does not terminate within the bound")

    def assign(self, t, v, st):
        if isinstance(t, ast.Name):
            st.env[t.id] = v
        elif isinstance(t, (ast.Tuple, ast.List)):
            if isinstance(v, Tup) and len(v.items) == len(t.elts):
                for e, x in zip(t.elts, v.items):
                    self.assign(e, x, st)
            else:
                for e in t.elts:
                    self.assign(e, Unk("unpacking"), st)
        elif isinstance(t, ast.Subscript) and isinstance(t.value, ast.Name) and isinstance(st.env.get(t.value.id), Tup):
            # store into a list held in a local: a constant index replaces that item, anything else makes the list unknown
            cur = st.env[t.value.id]
            i = None if isinstance(t.slice, ast.Slice) else as_int(self.ev(t.slice, st))
            if i is not None and -len(cur.items) <= i < len(cur.items):
                items = list(cur.items)
                items[i] = v
                st.env[t.value.id] = Tup(tuple(items))
            else:
                st.env[t.value.id] = Unk("subscript store")
        elif isinstance(t, ast.Subscript) and isinstance(t.value, ast.Name) and isinstance(st.env.get(t.value.id), DictV):
            cur = st.env[t.value.id]
            k = None if isinstance(t.slice, ast.Slice) else self.ev(t.slice, st)
            if k is not None and (is_num(k) or isinstance(k, (Lit, Const))) and all(is_num(q) or isinstance(q, (Lit, Const)) for q, _ in cur.items):
                items = [(q, (v if q == k else x)) for q, x in cur.items]
                if all(q != k for q, _ in cur.items):
                    items.append((k, v))
                st.env[t.value.id] = DictV(tuple(items))
            else:
                st.env[t.value.id] = Unk("subscript store")
        # attribute stores and stores into other objects are not modelled

    # ------------------------------------------------------------ tests
    def decide(self, test, st):
        """-> [(truth, state)]"""
        structural = isinstance(test, ast.BoolOp) or (isinstance(test, ast.UnaryOp) and isinstance(test.op, ast.Not)) \
            or (isinstance(test, ast.Compare) and len(test.ops) > 1)
        if not structural:
            sites = self._inline_sites(test, st)
            if sites:
                out = []
                for st2 in self.prefork(sites, st):
                    out.extend(self._decide(test, st2))
                return out
        return self._decide(test, st)

    def _decide(self, test, st):
        if self.cond_hook is not None:
            r = self.cond_hook(test, st, self)
            if r is not None:
                return [(bool(r), st)]
        if isinstance(test, ast.UnaryOp) and isinstance(test.op, ast.Not):
            return [(not t, s) for t, s in self.decide(test.operand, st)]
        if isinstance(test, ast.BoolOp):
            is_and = isinstance(test.op, ast.And)
            res = [(is_and, st)]
            for v in test.values:
                new = []
                for t, s in res:
                    if t != is_and:          # short-circuited
                        new.append((t, s))
                    else:
                        new.extend(self.decide(v, s))
                res = new
            return res
        if isinstance(test, ast.Compare):
            if len(test.ops) > 1:
                parts = []
                left = test.left
                for op, right in zip(test.ops, test.comparators):
                    parts.append(ast.Compare(left=left, ops=[op], comparators=[right]))
                    left = right
                return self.decide(ast.BoolOp(op=ast.And(), values=parts), st)
            return self.compare(test, st)
        if isinstance(test, ast.Constant):
            return [(bool(test.value), st)]
        if isinstance(test, ast.Call) and isinstance(test.func, ast.Name) and test.func.id in ("any", "all") and test.func.id not in st.env \
                and len(test.args) == 1 and not test.keywords:
            r = self._decide_quantifier(test.func.id == "any", test.args[0], st)
            if r is not None:
                return r
        if isinstance(test, ast.NamedExpr) and isinstance(test.target, ast.Name):
            out = []
            for st2, v in self.forking_eval(test.value, st):
                st2.env[test.target.id] = v
                # the truth of the name just bound (so that the rule's oracle sees the same test as `x = ...; if x:`)
                out.extend(self._decide(ast.copy_location(ast.Name(id=test.target.id, ctx=ast.Load()), test), st2))
            return out
        return self._truth(test, self.ev(test, st), st)

    def _decide_quantifier(self, is_any, arg, st):
        """any(test for x in seq) / all(...) over a literal sequence: the chain of tests joined by or / and, item by item"""
        if isinstance(arg, (ast.GeneratorExp, ast.ListComp)) and len(arg.generators) == 1 and not arg.generators[0].is_async:
            g = arg.generators[0]
            it = _as_sequence(self.ev(g.iter, st))
            if not isinstance(it, Tup):
                return None
            saved = {n.id: st.env.get(n.id) for n in ast.walk(g.target) if isinstance(n, ast.Name)}
            res = [(not is_any, st)]
            for item in it.items:
                new = []
                for t, c in res:
                    if t == is_any:                  # decided by an earlier item
                        new.append((t, c))
                        continue
                    self.assign(g.target, item, c)
                    alive = [(True, c)]
                    for f in g.ifs:
                        step = []
                        for t2, c2 in alive:
                            step.extend(self.decide(f, c2) if t2 else [(t2, c2)])
                        alive = step
                    for t2, c2 in alive:
                        if not t2:
                            new.append((t, c2))      # filtered out: contributes nothing
                        else:
                            new.extend(self.decide(arg.elt, c2))
                res = new
            for _, c in res:
                for nm, old in saved.items():
                    if old is None:
                        c.env.pop(nm, None)
                    else:
                        c.env[nm] = old
            return res
        v = self.ev(arg, st)
        if isinstance(v, Tup):
            truths = []
            for x in v.items:
                if is_num(x):
                    truths.append(x != 0)
                elif isinstance(x, Lit):
                    truths.append(bool(x.s))
                elif isinstance(x, Const):
                    truths.append(bool(x.value))
                elif isinstance(x, Tup):
                    truths.append(bool(x.items))
                else:
                    return None
            return [((any if is_any else all)(truths), st)]
        return None

    def _truth(self, test, v, st):
        if is_num(v):
            return [(v != 0, st)]
        if isinstance(v, Lit):
            return [(bool(v.s), st)]
        if isinstance(v, Const):
            return [(bool(v.value), st)]
        if isinstance(v, Tup):
            return [(bool(v.items), st)]
        if isinstance(v, Opaque) and v.name in ("falsy", "truthy"):
            return [(v.name == "truthy", st)]       # an and / or chain whose value is open but whose truth is not
        shape = self._param_shape(v)
        if shape is not None:
            return self.split(shape, ast.NotEq(), Fraction(0), st)      # `if value:` / `if not value:` is `value != 0`
        if is_str(v):
            from .c12_model import width_bounds
            lo, hi = width_bounds(v, lambda name: None)
            if lo > 0:
                return [(True, st)]                  # text that holds at least one character
            if hi == 0:
                return [(False, st)]
        return self.undecided(test, st, ("truth", v, None))

    def undecided(self, test, st, vals=None):
        if vals is not None and all(x is None or is_num(x) or isinstance(x, (Param, Lit, Const)) for x in vals[1:]):
            # the same question about the same parameter asked again on this path (`if tolist:` ... `if tolist:`): the answer taken then
            for f in st.facts:
                old = f[3] if len(f) > 3 else None
                if old is not None and old[1:] == vals[1:] and (old[0] == vals[0] if isinstance(vals[0], str) or isinstance(old[0], str)
                                                                else type(old[0]) is type(vals[0])):
                    return [(f[1], st)]
        txt = ast.unparse(test)
        return [(True, st.fork(fact=(txt, True, test, vals))), (False, st.fork(fact=(txt, False, test, vals)))]

    def compare(self, test, st):
        op = test.ops[0]
        a = self.ev(test.left, st)
        b = self.ev(test.comparators[0], st)
        if self.cmp_hook is not None:
            r = self.cmp_hook(op, a, b, st, self)
            if r is not None:
                return [(bool(r), st)]
        if is_num(a) and is_num(b):
            return [(_num_cmp(op, a, b), st)]
        if isinstance(op, (ast.Is, ast.IsNot, ast.Eq, ast.NotEq)) and (a == Const(None) or b == Const(None)):
            other = b if a == Const(None) else a
            same = None
            if other == Const(None):
                same = True
            elif is_num(other) or is_str(other) or isinstance(other, (Tup, Param)) or (isinstance(other, Opaque) and other.name in ("field", "misread")):
                same = False
            elif isinstance(other, Const):
                same = other.value is None          # True / False / a match object of concrete text: not None
            if same is not None:
                return [(same == isinstance(op, (ast.Is, ast.Eq)), st)]
        if isinstance(a, Lit) and isinstance(b, Lit) and isinstance(op, (ast.Eq, ast.NotEq)):
            return [((a.s == b.s) == isinstance(op, ast.Eq), st)]
        if isinstance(op, (ast.Eq, ast.NotEq)) and (isinstance(a, Lit) != isinstance(b, Lit)) and is_str(a) and is_str(b):
            # text against a literal of a length the text cannot have (`s == ""` for a line that holds characters): not equal
            from .c12_model import width_bounds
            lit, other = (a, b) if isinstance(a, Lit) else (b, a)
            lo, hi = width_bounds(other, lambda name: None)
            if len(lit.s) < lo or (hi is not None and len(lit.s) > hi):
                return [(isinstance(op, ast.NotEq), st)]
        if isinstance(a, Lit) and isinstance(b, Lit) and isinstance(op, (ast.In, ast.NotIn)):
            return [((a.s in b.s) == isinstance(op, ast.In), st)]
        if isinstance(op, (ast.In, ast.NotIn)) and _concrete_item(a) and isinstance(b, (Tup, DictV)):
            # a concrete number / text looked up in a collection of concrete numbers / texts (`position in TABLE`, `k in {0: 7, ...}`)
            keys = [k for k, _ in b.items] if isinstance(b, DictV) else list(b.items)
            if all(_concrete_item(k) for k in keys):
                return [(any(_item_key(k) == _item_key(a) for k in keys) == isinstance(op, ast.In), st)]
        if is_num(a) and not is_num(b) and type(op) in _FLIP:
            a, b, op = b, a, _FLIP[type(op)]()
        if is_num(b) and type(op) in _FLIP:
            shape = self._param_shape(a)
            if shape is not None:
                return self.split(shape, op, b, st)
        return self.undecided(test, st, (op, a, b))

    def _param_shape(self, v):
        if self.param is None:
            return None
        if v == Param(self.param):
            return "x"
        if v == Neg(Param(self.param)):
            return "-x"
        if v == Abs(Param(self.param)) or v == Abs(Neg(Param(self.param))):
            return "|x|"
        return None

    def split(self, shape, op, c, st):
        iv = st.iv
        if shape == "-x":
            op = _FLIP[type(op)]()
            c = -c
            shape = "x"
        out = []

        def add(truth, piece):
            if not piece.empty():
                out.append((truth, st.fork(iv=piece)))
        if shape == "x":
            if isinstance(op, ast.Lt):
                add(True, iv.below(c, False)); add(False, iv.above(c, True))
            elif isinstance(op, ast.LtE):
                add(True, iv.below(c, True)); add(False, iv.above(c, False))
            elif isinstance(op, ast.Gt):
                add(True, iv.above(c, False)); add(False, iv.below(c, True))
            elif isinstance(op, ast.GtE):
                add(True, iv.above(c, True)); add(False, iv.below(c, False))
            else:
                eq = isinstance(op, ast.Eq)
                add(eq, iv.below(c, True).above(c, True))
                add(not eq, iv.below(c, False)); add(not eq, iv.above(c, False))
            return out
        # |x| op c
        if isinstance(op, (ast.Lt, ast.LtE)):
            cl = isinstance(op, ast.LtE)
            if c < 0 or (c == 0 and not cl):
                return [(False, st)]
            add(True, iv.above(-c, cl).below(c, cl))
            add(False, iv.below(-c, not cl)); add(False, iv.above(c, not cl))
        elif isinstance(op, (ast.Gt, ast.GtE)):
            cl = isinstance(op, ast.GtE)
            if c < 0 or (c == 0 and cl):
                return [(True, st)]
            add(False, iv.above(-c, not cl).below(c, not cl))
            add(True, iv.below(-c, cl)); add(True, iv.above(c, cl))
        else:
            eq = isinstance(op, ast.Eq)
            if c < 0:
                return [(not eq, st)]
            add(eq, iv.below(c, True).above(c, True))
            if c != 0:
                add(eq, iv.below(-c, True).above(-c, True))
            add(not eq, iv.below(-c, False)); add(not eq, iv.above(-c, False).below(c, False)); add(not eq, iv.above(c, False))
        return out

    # ------------------------------------------------------------ followed calls
    def resolve_callee(self, node, st):
        """(name, function node) of the function a call node invokes and that is to be followed - a plain module-level function, or a
        function defined in the frame under evaluation - else None"""
        if self.inline is None or not isinstance(node.func, ast.Name):
            return None
        if any(isinstance(a, ast.Starred) for a in node.args) or any(k.arg is None for k in node.keywords):
            return None
        nm = node.func.id
        if nm in st.env:
            v = st.env[nm]
            if isinstance(v, FuncV):
                if v.owner != id(self) or len(self._stack) >= MAX_INLINE_DEPTH or ("<local>" + nm) in self._stack or not _plain_function(v.node):
                    return None
                node._c12_closure = v.closure
                node._c12_defaults = v.defaults
                return "<local>" + nm, v.node
            if not (isinstance(v, Opaque) and v.name.startswith("name:") and not v.args):
                return None
            nm = v.name[5:]                  # a local bound to a function of the module (a formatter handed down as an argument)
        fn = self.mod.funcs.get(nm)
        if fn is None or "." in nm or (nm + "#2") in self.mod.funcs or nm in self._stack or len(self._stack) >= MAX_INLINE_DEPTH:
            return None
        if not self.inline(nm) or not _plain_function(fn):
            return None
        return nm, fn

    def _inline_sites(self, expr, st):
        """calls to followed functions that are evaluated whenever `expr` is (not the right operands of and / or, the arms of a
        conditional expression, the element of a comprehension), innermost and leftmost first"""
        cand = getattr(expr, "_c12_sites", None)
        if cand is None:
            cand = []

            def visit(n):
                if isinstance(n, (ast.Lambda, ast.Constant, ast.Name)):
                    return
                if isinstance(n, (ast.ListComp, ast.SetComp, ast.DictComp, ast.GeneratorExp)):
                    visit(n.generators[0].iter)
                    if isinstance(n, (ast.ListComp, ast.GeneratorExp)) and len(n.generators) == 1 and not n.generators[0].is_async \
                            and (n.generators[0].ifs or _boolean_expr(n.elt)):
                        cand.append(n)               # a filtered comprehension / a comprehension of tests: they may part the paths
                    return
                if n is not expr and _boolean_expr(n) and not isinstance(n, (ast.Constant, ast.Call)):
                    cand.append(n)                   # a test in value position (an index, an operand, an argument): it parts the paths
                    return
                if isinstance(n, ast.BoolOp):
                    visit(n.values[0])
                    return
                if isinstance(n, ast.IfExp):
                    if n is not expr:
                        cand.append(n)               # a conditional expression inside a larger one: its test parts the paths
                        return
                    visit(n.test)
                    return
                if isinstance(n, ast.Compare) and len(n.ops) > 1:
                    visit(n.left)
                    visit(n.comparators[0])
                    return
                for c in ast.iter_child_nodes(n):
                    visit(c)
                if isinstance(n, ast.Call) and isinstance(n.func, (ast.Name, ast.Attribute)):
                    cand.append(n)
            visit(expr)
            expr._c12_sites = cand = tuple(cand)
        if not cand:
            return cand
        return [n for n in cand if self._is_site(n, st)]

    def _int_digits_site(self, n):
        """len(str(int(value))) - also spelled len("%d" % value), len(f"{int(value)}"): syntactically a `len` of one argument in which
        the float parameter occurs"""
        return self.param is not None and isinstance(n.func, ast.Name) and n.func.id == "len" and len(n.args) == 1 and not n.keywords \
            and not isinstance(n.args[0], ast.Starred) and any(isinstance(x, ast.Name) and x.id == self.param for x in ast.walk(n.args[0]))

    def _prefork_int_digits(self, node, st):
        """the number of characters of the integer part of the float parameter: one path per sign and decade of the interval
        (int() cuts towards zero: |x| < 10 has one digit, a value <= -1 carries its sign)"""
        from .c12_str import _int_piece
        key = _memo_key(node)
        st.env.pop(key, None)
        ip = _int_piece(self._ev_u(node.args[0], st))
        if not isinstance(ip, IntOf):
            return [st]
        shape = self._param_shape(ip.x)
        iv = st.iv
        big = Fraction(10) ** 40
        if shape is None or iv.lo is None or iv.hi is None or iv.lo < -big or iv.hi > big:
            return [st]
        out = []
        for negative, part in self.split("x", ast.Lt(), Fraction(0), st):
            signed = negative if shape == "x" else ((not negative) if shape == "-x" else False)
            cur, k = [part], 1
            while cur and k <= 41:
                nxt = []
                for c in cur:
                    for truth, c2 in self.split("|x|", ast.Lt(), Fraction(10) ** k, c):
                        if truth:
                            if k == 1 and signed:
                                # -1 < x < 0 is cut to 0: no sign
                                for t1, c3 in self.split("|x|", ast.Lt(), Fraction(1), c2):
                                    c3.env[key] = Fraction(1 if t1 else 2)
                                    out.append(c3)
                            else:
                                c2.env[key] = Fraction(k + (1 if signed else 0))
                                out.append(c2)
                        else:
                            nxt.append(c2)
                cur, k = nxt, k + 1
            if cur:
                return [st]
        return out

    def _is_site(self, n, st):
        if isinstance(n, ast.Call) and self._int_digits_site(n) and self.resolve_callee(n, st) is None:
            return True
        if isinstance(n, (ast.ListComp, ast.GeneratorExp)) and not n.generators[0].ifs:
            # [value >= lim for lim in table]: tests on the float parameter, one per item (`sum(...)` of them counts the limits passed)
            return self.param is not None and any(isinstance(x, ast.Name) and x.id == self.param for x in ast.walk(n.elt))
        if isinstance(n, ast.Call):
            if isinstance(n.func, ast.Name) and self.inline is not None and self.resolve_callee(n, st) is not None:
                return True
            return self.param is not None and self.lib_name(n.func) in _BISECT and not any(isinstance(a, ast.Starred) for a in n.args) \
                and not any(k.arg is None for k in n.keywords)
        return True

    def prefork(self, sites, st):
        """evaluate the followed calls of an expression ahead of it: every path through a callee gives one state, in which the value
        of the call is remembered under the call node; paths on which the callee raises end the statement"""
        cur = [st]
        for node in sites:
            nxt = []
            for c in cur:
                nxt.extend(self._prefork_one(node, c))
            cur = nxt
        return cur

    def _prefork_one(self, node, st):
        if isinstance(node, (ast.Compare, ast.BoolOp, ast.UnaryOp)):
            key = _comp_key(node)
            st.env.pop(key, None)
            out = []
            for truth, st2 in self.decide(node, st):
                st2.env[key] = Const(truth)
                out.append(st2)
            return out
        if isinstance(node, ast.IfExp):
            key = _comp_key(node)
            st.env.pop(key, None)
            out = []
            for st2, v in self.forking_eval(node, st):
                st2.env[key] = v
                out.append(st2)
            return out
        if not isinstance(node, ast.Call):
            return self._prefork_comp(node, st)
        if self.lib_name(node.func) in _BISECT and self.resolve_callee(node, st) is None:
            return self._prefork_bisect(node, st)
        if self._int_digits_site(node) and self.resolve_callee(node, st) is None:
            return self._prefork_int_digits(node, st)
        key = _memo_key(node)
        st.env.pop(key, None)
        rc = self.resolve_callee(node, st)
        if rc is None:
            return [st]
        name, fn = rc
        try:
            args = [self._ev_u(a, st) for a in node.args]
            kw = {k.arg: self._ev_u(k.value, st) for k in node.keywords}
        except Raised as r:
            self._term.append((st, "exc", r.name))
            return []
        if self.call_hook is not None:
            r = self.call_hook(name, args, kw, node, st, self)
            if r is not NotImplemented:
                st.env[key] = r
                return [st]
        res = self.inline_call(name, fn, args, kw, st, node)
        if res is None:
            return [st]
        out = []
        for ns, o, pay in res:
            if o == "value":
                ns.env[key] = pay
                out.append(ns)
            else:
                self._term.append((ns, o, pay))
        return out

    def _prefork_comp(self, node, st):
        """a comprehension with filters, evaluated item by item: a filter the interval does not decide parts the path (as the same test
        in a loop body would); the list is remembered under the node"""
        key = _comp_key(node)
        st.env.pop(key, None)
        g = node.generators[0]
        try:
            it = _as_sequence(self._ev(g.iter, st))
        except (Unsupported, Raised):
            return [st]
        if not isinstance(it, Tup):
            return [st]
        saved = {n.id: st.env.get(n.id) for n in ast.walk(g.target) if isinstance(n, ast.Name)}
        cur = [(st, ())]
        for item in it.items:
            nxt = []
            for c, acc in cur:
                self.assign(g.target, item, c)
                alive = [(True, c)]
                for f in g.ifs:
                    step = []
                    for t, c2 in alive:
                        if not t:
                            step.append((t, c2))
                        else:
                            step.extend(self.decide(f, c2))
                    alive = step
                for t, c2 in alive:
                    if t and _boolean_expr(node.elt):
                        nxt.extend((c3, acc + (Const(tv),)) for tv, c3 in self.decide(node.elt, c2))
                    else:
                        nxt.append((c2, acc + ((self.ev(node.elt, c2),) if t else ())))
            cur = nxt
            self.nstates += len(cur)
            if self.nstates > self.max_states:
                raise Unsupported("too many paths")
        out = []
        for c, acc in cur:
            for nm, old in saved.items():             # the comprehension's own variable does not outlive it
                if old is None:
                    c.env.pop(nm, None)
                else:
                    c.env[nm] = old
            c.env[key] = Tup(acc)
            out.append(c)
        return out

    def _prefork_bisect(self, node, st):
        """bisect.bisect_right / bisect_left of the float parameter in an ascending literal table: one path per position"""
        key = _memo_key(node)
        st.env.pop(key, None)
        lib = self.lib_name(node.func)
        got = _bisect_call(lib, [self._ev_u(a, st) for a in node.args], {k.arg: self._ev_u(k.value, st) for k in node.keywords})
        if got is None:
            return [st]
        table, x, left, lo, hi = got
        if is_num(x):
            import bisect as _b
            st.env[key] = Fraction((_b.bisect_left if left else _b.bisect_right)(list(table.items), x, lo, hi))
            return [st]
        shape = self._param_shape(x)
        if shape is None:
            return [st]
        out = []
        cur = [st]
        for k, t in enumerate(table.items):
            if not lo <= k < hi:
                continue                           # bisect(a, x, lo, hi) looks at a[lo:hi] only: the answer lies in lo..hi
            nxt = []
            for c in cur:
                for truth, c2 in self.split(shape, ast.LtE() if left else ast.Lt(), t, c):
                    if truth:
                        c2.env[key] = Fraction(k)
                        out.append(c2)
                    else:
                        nxt.append(c2)
            cur = nxt
        for c in cur:
            c.env[key] = Fraction(hi)
            out.append(c)
        return out

    def _ev_u(self, node, st):
        try:
            return self._ev(node, st)
        except Unsupported as e:
            return Unk(str(e))

    def _defaults_of(self, fn, st):
        """defaults of a nested function / lambda, evaluated in the state that defines it (`lambda flag=<test on a local>: ...`)"""
        a = fn.args
        pos = [x.arg for x in a.posonlyargs + a.args]
        pairs = list(zip(pos[len(pos) - len(a.defaults):], a.defaults)) + [(k.arg, d) for k, d in zip(a.kwonlyargs, a.kw_defaults) if d is not None]
        out = {}
        for nm, d in pairs:
            if isinstance(d, ast.Constant):
                continue                         # bind_args evaluates constants itself
            try:
                v = self._ev(d, st.fork())
            except (Raised, Unsupported):
                continue
            if not (_has_unknown(v) or isinstance(v, Opaque)):
                out[nm] = v
        return out or None

    def bind_args(self, fn, args, kw, given=None):
        a = fn.args
        if a.vararg or a.kwarg:
            return None
        pos = [x.arg for x in a.posonlyargs + a.args]
        kwo = [x.arg for x in a.kwonlyargs]
        if len(args) > len(pos):
            return None
        env = dict(zip(pos, args))
        for k, v in kw.items():
            if k in env or k not in pos + kwo or k in [x.arg for x in a.posonlyargs]:
                return None
            env[k] = v
        dflt = dict(zip(pos[len(pos) - len(a.defaults):], a.defaults))
        dflt.update({k: d for k, d in zip(kwo, a.kw_defaults) if d is not None})
        for nm in pos + kwo:
            if nm in env:
                continue
            if nm not in dflt:
                return None
            if given and nm in given:
                env[nm] = given[nm]
                continue
            try:
                v = Engine(self.ctx, self.rel, None)._ev(dflt[nm], State({}, Interval()))
            except (Raised, Unsupported):
                v = Unk("default")
            env[nm] = Opaque("default:" + nm, ()) if _has_unknown(v) or isinstance(v, Opaque) else v
        return env

    def inline_call(self, name, fn, args, kw, st, node):
        """evaluate a function of the module on the argument values, continuing the caller's path (interval, recorded tests, effects)
        -> [(caller state after the call, 'value' | 'raise' | 'exc', payload)] or None when the call cannot be bound"""
        env = self.bind_args(fn, args, kw, getattr(node, "_c12_defaults", None) if name.startswith("<local>") else None)
        if env is None:
            return None
        closure = name.startswith("<local>")
        captured = getattr(node, "_c12_closure", None)
        own = set()
        if closure and captured is not None:
            env = {**{k: v for k, v in captured.items() if not k.startswith("<")}, **env}     # free variables: the locals of the frame that made it
            closure = False
        elif closure:
            own = set(env) | {n.id for n in ast.walk(fn) if isinstance(n, ast.Name) and isinstance(n.ctx, (ast.Store, ast.Del))}
            env = {**{k: v for k, v in st.env.items() if not k.startswith("<")}, **env}      # free variables: the caller's locals
        else:
            self.ctx.src.funcs_consulted.add(f"{self.rel}:{name}")
        is_gen = getattr(fn, "_c12_gen", False)
        if is_gen:
            env["<yield>"] = Tup(())
        sub = type(self)(self.ctx, self.rel, fn, param=self.param, cond=self.cond_hook, call=self.call_hook, cmp=self.cmp_hook, length=self.len_hook,
                     follow=self.follow, post=self.post_hook, lenient=self.lenient, exceptions=self.exceptions, strict_locals=self._strict_flag,
                     inline=self.inline, _stack=self._stack + (name,))
        sub._modconst = self._modconst
        sub.index_errors = self.index_errors
        sub.nstates, sub.max_states = self.nstates, self.max_states
        effects = st.effects + ((name, tuple(args), tuple(sorted(kw.items())), node),)
        cst = State(env, st.iv, st.facts, effects)
        body = fn.body if isinstance(fn.body, list) else [ast.copy_location(ast.Return(value=fn.body), fn.body)]
        try:
            res = sub.block(body, cst)
        finally:
            self.nstates = sub.nstates
        use = _list_param_use(fn, self)
        names = [x.arg for x in fn.args.posonlyargs + fn.args.args]
        shared = []                          # (caller local, callee parameter): a list handed to the helper under a plain name
        for i, a in enumerate(node.args):
            if i < len(names) and isinstance(a, ast.Name) and isinstance(st.env.get(a.id), Tup):
                shared.append((a.id, names[i]))
        for k in node.keywords:
            if isinstance(k.value, ast.Name) and isinstance(st.env.get(k.value.id), Tup):
                shared.append((k.value.id, k.arg))
        out = []
        for s2, o, pay in res:
            ns = State(dict(st.env), s2.iv, s2.facts, s2.effects)
            if closure:
                # a list of the enclosing frame the nested function appended to (a free variable it does not rebind)
                for k, v in s2.env.items():
                    if k not in own and k in st.env and st.env[k] is not v and isinstance(st.env[k], Tup):
                        ns.env[k] = v
            for mine, theirs in shared:
                how = use.get(theirs, "pure")
                if how == "mutates":
                    v = s2.env.get(theirs)
                    ns.env[mine] = v if isinstance(v, Tup) else Unk("list altered by a helper")
                elif how == "escapes":
                    ns.env[mine] = Unk("list handed to a helper that may alter it")
            if is_gen and o in ("return", "next"):
                # the generator's items, as if collected into a list where it is consumed.  Its own effects would happen *while* it is
                # consumed: only generators that just compute are followed
                if any(not e[0].startswith("<local>") and e[0] not in self.mod.funcs for e in s2.effects[len(effects):]):
                    raise Unsupported(f"{name}: a generator with effects of its own")
                out.append((ns, "value", s2.env.get("<yield>", Unk("generator"))))
            elif o == "return":
                v = pay[0]
                if any(isinstance(x, FuncV) and x.owner == id(sub) for x in walk_value(v)):
                    v = _reown(v, id(sub), id(self), s2.env)
                out.append((ns, "value", v))
            elif o == "next":
                out.append((ns, "value", Const(None)))
            elif o in ("raise", "exc"):
                out.append((ns, o, pay))
            else:
                raise Unsupported(f"{name}: {o} outside a loop")
        return out

    # ------------------------------------------------------------ expressions
    def ev(self, node, st):
        try:
            return self._ev(node, st)
        except Unsupported as e:
            return Unk(str(e))

    def tracked_locals(self):
        """locals of the function that are bound only by statements the engine follows (assignments, augmented assignments, for targets):
        such a name missing from the environment on a path whose tests were all decided has not been assigned on that path"""
        tl = getattr(self, "_tracked", None)
        if tl is None:
            plain, other = set(), set()
            params = {a.arg for a in ast.walk(self.fn.args) if isinstance(a, ast.arg)}
            for n in ast.walk(self.fn):
                if isinstance(n, (ast.Assign, ast.AugAssign, ast.AnnAssign, ast.For)):
                    tg = n.targets if isinstance(n, ast.Assign) else [n.target]
                    for t in tg:
                        for x in ast.walk(t):
                            if isinstance(x, ast.Name) and isinstance(x.ctx, ast.Store):
                                plain.add(x.id)
            for n in ast.walk(self.fn):
                if isinstance(n, (ast.With, ast.AsyncWith, ast.ListComp, ast.SetComp, ast.DictComp, ast.GeneratorExp, ast.NamedExpr, ast.Import,
                                  ast.ImportFrom, ast.Global, ast.Nonlocal, ast.Delete, ast.Try, ast.Match if hasattr(ast, "Match") else ast.Try)) \
                        or (isinstance(n, (ast.FunctionDef, ast.ClassDef, ast.Lambda)) and n is not self.fn):
                    for x in ast.walk(n):
                        if isinstance(x, ast.Name) and isinstance(x.ctx, (ast.Store, ast.Del)) and not isinstance(n, ast.Try):
                            other.add(x.id)
                        elif isinstance(x, ast.ExceptHandler) and x.name:
                            other.add(x.name)
                        elif isinstance(x, ast.alias):
                            other.add((x.asname or x.name).split(".")[0])
                        elif isinstance(x, (ast.Global, ast.Nonlocal)):
                            other.update(x.names)
            tl = self._tracked = plain - other - params
        return tl

    def local_names(self):
        """names the function binds itself (they never mean the module-level name of the same spelling)"""
        ln = getattr(self, "_localnames", None)
        if ln is None:
            ln = set()
            if self.fn is not None:
                glob = set()
                for n in ast.walk(self.fn):
                    if isinstance(n, ast.Global):
                        glob.update(n.names)
                    elif isinstance(n, ast.Name) and isinstance(n.ctx, (ast.Store, ast.Del)):
                        ln.add(n.id)
                    elif isinstance(n, ast.arg):
                        ln.add(n.arg)
                ln -= glob
            self._localnames = ln
        return ln

    def known_names(self):
        """every name that is bound somewhere: builtins, module-level bindings (assignments, defs, classes, imports, anywhere at module
        level), and any name stored anywhere in the function (parameters, locals, loop / with / except / comprehension targets)"""
        kn = getattr(self, "_known", None)
        if kn is None:
            kn = set()
            for tree in (self.mod.tree, self.fn):
                cached = getattr(tree, "_c12_names", None)
                if cached is None:
                    cached = tree._c12_names = self._bound_in(tree)
                kn |= cached
            self._known = kn
        return kn

    @staticmethod
    def _bound_in(tree):
            import builtins
            kn = set(dir(builtins)) | {"__name__", "__file__", "__doc__", "__builtins__", "__spec__", "__package__", "__class__", "__debug__"}
            def walk(t, top):
                # module level: do not look into function / class bodies (their locals are not globals)
                stack = [t]
                while stack:
                    n = stack.pop()
                    yield n
                    for c in ast.iter_child_nodes(n):
                        if top and n is not t and isinstance(n, (ast.FunctionDef, ast.AsyncFunctionDef, ast.ClassDef, ast.Lambda)):
                            continue
                        stack.append(c)
            if True:
                for n in walk(tree, isinstance(tree, ast.Module)):
                    if isinstance(n, ast.Name) and isinstance(n.ctx, (ast.Store, ast.Del)):
                        kn.add(n.id)
                    elif isinstance(n, (ast.FunctionDef, ast.AsyncFunctionDef, ast.ClassDef)):
                        kn.add(n.name)
                    elif isinstance(n, ast.alias):
                        kn.add((n.asname or n.name).split(".")[0])
                        if n.name == "*":
                            kn.add("*")
                    elif isinstance(n, ast.arg):
                        kn.add(n.arg)
                    elif isinstance(n, ast.ExceptHandler) and n.name:
                        kn.add(n.name)
                    elif isinstance(n, (ast.Global, ast.Nonlocal)):
                        kn.update(n.names)
            return kn

    def module_const(self, name):
        """value a module-level name has once the module is imported, when the module's own top-level statements determine it (a literal,
        a table built by a comprehension, a loop or a followed function) and no function of the module rebinds or alters it; else None"""
        if name in self._modconst:
            return self._modconst[name]
        self._modconst[name] = None
        env = self._module_env()
        if env is None:
            self._modconst.pop(name, None)           # asked while the module level is being evaluated: not known *yet*
            return None
        r = env.get(name)
        if r is not None and not _has_unknown(r) and not isinstance(r, FuncV) and name not in _altered_in_functions(self.mod.tree):
            self._modconst[name] = r
        return self._modconst[name]

    def _module_env(self):
        """names bound at module level -> value, by executing the module's top-level statements in order (assignments, loops, tests,
        calls of the module's own functions); a name bound by anything that is not followed (import, def, class, try, with) is unknown"""
        tree = self.mod.tree
        done = getattr(tree, "_c12_modenv", None)
        if done is not None:
            return None if done == "busy" else done
        tree._c12_modenv = "busy"
        eng = Engine(self.ctx, self.rel, None, lenient=True, inline=lambda nm: True)
        eng._modconst = {}
        st = State({}, Interval())

        def forget(stmt):
            for n in ast.walk(stmt):
                if isinstance(n, ast.Name) and isinstance(n.ctx, (ast.Store, ast.Del)):
                    st.env[n.id] = Unk("bound by a module-level statement that is not followed")
                elif isinstance(n, (ast.FunctionDef, ast.AsyncFunctionDef, ast.ClassDef)) and n.name in st.env:
                    st.env[n.name] = Unk("rebound")
                elif isinstance(n, ast.alias) and (n.asname or n.name).split(".")[0] in st.env:
                    st.env[(n.asname or n.name).split(".")[0]] = Unk("rebound")
                elif isinstance(n, ast.Call) and isinstance(n.func, ast.Attribute) and isinstance(n.func.value, ast.Name):
                    if n.func.value.id in st.env:
                        st.env[n.func.value.id] = Unk("altered by a module-level statement that is not followed")

        for stmt in tree.body:
            if isinstance(stmt, (ast.FunctionDef, ast.AsyncFunctionDef, ast.ClassDef, ast.Import, ast.ImportFrom)):
                nodes = [stmt] if not isinstance(stmt, (ast.Import, ast.ImportFrom)) else stmt.names
                for n in nodes:
                    nm = n.name if not isinstance(n, ast.alias) else (n.asname or n.name).split(".")[0]
                    if nm in st.env:
                        st.env[nm] = Unk("rebound")
                continue
            if isinstance(stmt, ast.Expr) and isinstance(stmt.value, ast.Constant):
                continue
            if isinstance(stmt, ast.Delete) and all(isinstance(t, ast.Name) for t in stmt.targets):
                for t in stmt.targets:
                    st.env.pop(t.id, None)
                continue
            if not isinstance(stmt, (ast.Assign, ast.AnnAssign, ast.AugAssign, ast.For, ast.While, ast.If, ast.Expr)):
                forget(stmt)
                continue
            trial = State(dict(st.env), Interval())
            try:
                eng.nstates = 0
                res = eng.block([stmt], trial)
            except (Unsupported, Raised, RecursionError):
                res = None
            if res is None or len(res) != 1 or res[0][1] != "next" or res[0][0].facts:
                forget(stmt)
                continue
            st = State({k: v for k, v in res[0][0].env.items() if not k.startswith(("<call:", "<comp:"))}, Interval())
            for n in ast.walk(stmt):
                # a list / dict handed to code that is not followed may be altered by it
                if isinstance(n, ast.Call) and dotted(n.func) not in _PURE_BUILTINS and not (isinstance(n.func, ast.Name) and n.func.id in self.mod.funcs):
                    for a in list(n.args) + [k.value for k in n.keywords]:
                        if isinstance(a, ast.Name) and isinstance(st.env.get(a.id), (Tup, DictV)) \
                                and not (isinstance(n.func, ast.Attribute) and isinstance(n.func.value, ast.Name) and n.func.attr in ("append", "extend", "format", "join")):
                            st.env[a.id] = Unk("handed to code that is not followed")
        tree._c12_modenv = st.env
        return st.env

    def _ev(self, node, st):
        if isinstance(node, ast.Constant):
            v = node.value
            if isinstance(v, str):
                return Lit(v)
            if isinstance(v, (int, float)) and not isinstance(v, bool):
                f = const_fraction(node)
                return f if f is not None else Unk("non-finite constant")
            return Const(v)
        if isinstance(node, ast.Name):
            if node.id in st.env:
                return st.env[node.id]
            mc = None if node.id in self.local_names() else self.module_const(node.id)
            if mc is not None:
                return mc
            if self.fn is not None and node.id not in self.known_names() and "*" not in self.known_names():
                raise Raised("NameError")
            if self.strict_locals and node.id in self.tracked_locals():
                raise Raised("UnboundLocalError")    # a plain local read on a decided path before anything was assigned to it            # bound nowhere: not a local, not a module-level name, not a builtin
            return Opaque("name:" + node.id, ())
        if isinstance(node, ast.JoinedStr):
            return self.fstring(node, st)
        if isinstance(node, (ast.Tuple, ast.List)):
            return Tup(tuple(self._ev(e, st) for e in node.elts))
        if isinstance(node, ast.Dict):
            if any(k is None for k in node.keys):
                return Unk("dict unpacking")
            return DictV(tuple((self._ev(k, st), self._ev(v, st)) for k, v in zip(node.keys, node.values)))
        if isinstance(node, ast.UnaryOp) and isinstance(node.op, ast.Not):
            memo = st.env.get(_comp_key(node))
            if memo is not None:
                return memo
            r = self.decide(node, st.fork())
            truths = {t for t, _ in r}
            if len(truths) == 1:
                return Const(truths.pop())
            return Opaque("test", (Lit(ast.unparse(node)),))
        if isinstance(node, ast.UnaryOp):
            v = self._ev(node.operand, st)
            if isinstance(node.op, ast.USub):
                if is_num(v):
                    return -v
                if isinstance(v, Neg):
                    return v.x
                return Neg(v)
            if isinstance(node.op, ast.UAdd):
                return v
            return Opaque("unary:" + type(node.op).__name__, (v,))
        if isinstance(node, ast.BinOp):
            return self.binop(node.op, self._ev(node.left, st), self._ev(node.right, st), st)
        if isinstance(node, ast.IfExp):
            memo = st.env.get(_comp_key(node))
            if memo is not None:
                return memo
            r = self.decide(node.test, st.fork())
            truths = {t for t, _ in r}
            if truths == {True}:
                return self._ev(node.body, st)
            if truths == {False}:
                return self._ev(node.orelse, st)
            return Choice(ast.unparse(node.test), self._ev(node.body, st), self._ev(node.orelse, st))
        if isinstance(node, ast.Subscript):
            r = self.subscript(node, st)
            return self.post_hook(r, st, self) if self.post_hook is not None else r
        if isinstance(node, ast.Call):
            r = self.call(node, st)
            return self.post_hook(r, st, self) if self.post_hook is not None else r
        if isinstance(node, ast.Attribute):
            if node.attr == "format" and (not isinstance(node.value, ast.Name) or node.value.id in st.env or self.module_const(node.value.id) is not None):
                recv = self._ev(node.value, st)
                if is_str(recv):
                    return Opaque("bound:format", (recv,))          # `render = template.format`
            d = dotted(node)
            return Opaque("name:" + (d or ast.unparse(node)), ())
        if isinstance(node, ast.BoolOp) and not _boolean_expr(node):
            # `a or b` / `a and b` between values that are not tests: the result is one of the operands
            is_and = isinstance(node.op, ast.And)
            for i, e in enumerate(node.values):
                v = self._ev(e, st)
                if i == len(node.values) - 1:
                    return v
                truths = {t for t, _ in self._decide(e, st.fork())} if self.cond_hook is not None and not isinstance(e, ast.NamedExpr) \
                    else {t for t, _ in self._truth(e, v, st.fork())}
                if len(truths) != 1:
                    # the truth of this operand is open, so the value is not known - but its truth is when a later operand certainly
                    # ends the chain: `flag and <false>` is false whatever the flag (it is the flag if that is false, else <false>)
                    for e2 in node.values[i + 1:]:
                        probe = st.fork()
                        try:
                            v2 = self._ev(e2, probe)
                            t2 = {t for t, _ in self._truth(e2, v2, probe.fork())}
                        except (Raised, Unsupported):
                            break
                        if probe.effects != st.effects:
                            break
                        if t2 == {not is_and}:
                            return Opaque("falsy" if is_and else "truthy", (Lit(ast.unparse(node)),))
                    return Opaque("test", (Lit(ast.unparse(node)),))
                if truths.pop() != is_and:
                    return v
        if isinstance(node, (ast.Compare, ast.BoolOp)):
            memo = st.env.get(_comp_key(node))
            if memo is not None:
                return memo
            r = self.decide(node, st.fork())
            truths = {t for t, _ in r}
            if len(truths) == 1:
                return Const(truths.pop())
            return Opaque("test", (Lit(ast.unparse(node)),))
        if isinstance(node, ast.Lambda):
            return FuncV(node, id(self), defaults=self._defaults_of(node, st))
        if isinstance(node, ast.NamedExpr) and isinstance(node.target, ast.Name):
            v = self._ev(node.value, st)
            st.env[node.target.id] = v
            return v
        if isinstance(node, ast.Starred):
            return Unk("starred")
        if isinstance(node, ast.DictComp) and len(node.generators) == 1 and not node.generators[0].is_async:
            # {key: value for x in <literal sequence>}: item by item; a later item replaces an earlier one with the same key
            g = node.generators[0]
            it = _as_sequence(self._ev(g.iter, st))
            if not isinstance(it, Tup):
                return Unk("comprehension over a non-literal sequence")
            items = []
            inner = st.fork()
            for item in it.items:
                self.assign(g.target, item, inner)
                keep = True
                for c in g.ifs:
                    truths = {t for t, _ in self.decide(c, inner.fork())}
                    if len(truths) != 1:
                        return Unk(f"undecided filter {ast.unparse(c)}")
                    if not truths.pop():
                        keep = False
                        break
                if keep:
                    k, v = self._ev(node.key, inner), self._ev(node.value, inner)
                    if not (is_num(k) or isinstance(k, (Lit, Const))):
                        return Unk("dict comprehension with keys that are not constants")
                    items = [(q, x) for q, x in items if q != k] + [(k, v)]
            return DictV(tuple(items))
        if isinstance(node, (ast.ListComp, ast.GeneratorExp)) and len(node.generators) == 1 and not node.generators[0].is_async:
            g = node.generators[0]
            memo = st.env.get(_comp_key(node))
            if memo is not None:
                return memo                          # evaluated ahead of its statement (its filters part the paths)
            it = _as_sequence(self._ev(g.iter, st))
            if not isinstance(it, Tup):
                return Unk("comprehension over a non-literal sequence")
            items = []
            inner = st.fork()
            for item in it.items:
                self.assign(g.target, item, inner)
                keep = True
                for c in g.ifs:
                    r = self.decide(c, inner.fork())
                    truths = {t for t, _ in r}
                    if len(truths) != 1:
                        return Unk(f"undecided filter {ast.unparse(c)}")
                    if not truths.pop():
                        keep = False
                        break
                if keep:
                    items.append(self._ev(node.elt, inner))
            return Tup(tuple(items))
        return Unk(f"expression {type(node).__name__}")

    def fstring(self, node, st):
        out = []
        for p in node.values:
            if isinstance(p, ast.Constant):
                out.append(Lit(p.value))
                continue
            arg = self._ev(p.value, st)
            conv = {-1: None, 115: "s", 114: "r", 97: "a"}.get(p.conversion)
            toks = []
            if p.format_spec is not None:
                for q in p.format_spec.values:
                    if isinstance(q, ast.Constant):
                        toks.append(q.value)
                    else:
                        inner = self._ev(q.value, st)
                        if q.format_spec is not None:
                            isp = "".join(x.value for x in q.format_spec.values if isinstance(x, ast.Constant))
                            if isp not in ("", "d") or len(q.format_spec.values) > 1:
                                return Unk("nested format spec")
                        if isinstance(inner, Lit):
                            toks.append(inner.s)
                        elif is_str(inner) or isinstance(inner, Unk):
                            return Unk("nested format field")
                        else:
                            toks.append(inner)
            sp = parse_spec(toks, conv)
            if sp is None:
                return Unk("format spec " + ast.unparse(p))
            out.append(make_fmt(sp, arg))
        if any(isinstance(o, Unk) for o in out):
            return next(o for o in out if isinstance(o, Unk))
        return cat(*out)

    def binop(self, op, a, b, st):
        if isinstance(a, Unk):
            return a
        if isinstance(b, Unk):
            return b
        # True / False in arithmetic are 1 / 0 (`n + (i > 0)`, `flag * 8`); two booleans under & | ^ stay boolean
        ba, bb = _is_bool(a), _is_bool(b)
        if ba and bb and isinstance(op, (ast.BitAnd, ast.BitOr, ast.BitXor)):
            x, y = a.value, b.value
            return Const(x & y if isinstance(op, ast.BitAnd) else (x | y if isinstance(op, ast.BitOr) else x ^ y))
        if (ba or bb) and (ba or is_num(a)) and (bb or is_num(b)):
            a = Fraction(int(a.value)) if ba else a
            b = Fraction(int(b.value)) if bb else b
        if is_num(a) and is_num(b):
            if isinstance(op, (ast.BitAnd, ast.BitOr, ast.BitXor, ast.LShift, ast.RShift)):
                ia, ib = as_int(a), as_int(b)
                if ia is None or ib is None:
                    raise Raised("TypeError")            # bit operation on a float
                if isinstance(op, ast.BitAnd):
                    return Fraction(ia & ib)
                if isinstance(op, ast.BitOr):
                    return Fraction(ia | ib)
                if isinstance(op, ast.BitXor):
                    return Fraction(ia ^ ib)
                if ib < 0:
                    raise Raised("ValueError")
                if ib > 400:
                    return Unk("shift count")
                return Fraction(ia << ib) if isinstance(op, ast.LShift) else Fraction(ia >> ib)
            try:
                if isinstance(op, ast.Add):
                    return a + b
                if isinstance(op, ast.Sub):
                    return a - b
                if isinstance(op, ast.Mult):
                    return a * b
                if isinstance(op, ast.Div):
                    return a / b
                if isinstance(op, ast.FloorDiv):
                    return Fraction(a // b)
                if isinstance(op, ast.Mod):
                    return a % b
                if isinstance(op, ast.Pow) and b.denominator == 1 and abs(b) < 400:
                    return a ** int(b)
            except ZeroDivisionError:
                return Unk("division by zero")
        if isinstance(op, ast.Add):
            if (is_str(a) or isinstance(a, Choice)) and (is_str(b) or isinstance(b, Choice)):
                # padding written out: `fill * (W - len(t)) + t` is t.rjust(W, fill), `t + fill * (W - len(t))` is t.ljust(W, fill)
                # (a negative count repeats nothing, a text longer than W is left alone - both as the justification does)
                for pad, txt, al in ((a, b, ">"), (b, a, "<")):
                    if isinstance(pad, Rep) and isinstance(pad.s, Lit) and len(pad.s.s) == 1 and is_str(txt) and isinstance(pad.n, Opaque) \
                            and pad.n.name == "binop:Sub" and as_int(pad.n.args[0]) is not None and pad.n.args[1] == Len(txt):
                        return make_fmt(Spec(fill=pad.s.s, align=al, width=pad.n.args[0], typ="s"), txt)
                return cat(a, b)
            if isinstance(a, Tup) and isinstance(b, Tup):
                return Tup(a.items + b.items)
        if isinstance(op, ast.Mult):
            if (is_str(b) or isinstance(b, Tup)) and not (is_str(a) or isinstance(a, Tup)):
                a, b = b, a
            if _is_bool(b):
                b = Fraction(int(b.value))           # "*" * (i % 8 == 0)
            if is_str(a):
                n = as_int(b)
                if isinstance(a, Lit) and n is not None:
                    return Lit(a.s * n)
                return Rep(a, b)
            if isinstance(a, Tup) and as_int(b) is not None:
                return Tup(a.items * as_int(b))
        if isinstance(op, ast.Mod) and is_str(a):
            return percent_format(a, b)
        if (is_str(a) or is_str(b)) and (isinstance(op, (ast.Sub, ast.Div, ast.FloorDiv, ast.Pow)) or
                                         (isinstance(op, ast.Add) and (is_num(a) or is_num(b))) or
                                         (isinstance(op, ast.Mult) and is_str(a) and is_str(b))):
            raise Raised("TypeError")                # text combined with an arithmetic operator
        return Opaque("binop:" + type(op).__name__, (a, b))

    def subscript(self, node, st):
        base = self._ev(node.value, st)
        sl = node.slice
        if isinstance(sl, ast.Slice):
            if sl.step is not None:
                return Unk("slice step")
            lo = self._ev(sl.lower, st) if sl.lower is not None else None
            hi = self._ev(sl.upper, st) if sl.upper is not None else None
            li, hi_i = (None if lo is None else as_int(lo)), (None if hi is None else as_int(hi))
            concrete = (lo is None or li is not None) and (hi is None or hi_i is not None)
            if isinstance(base, Tup) and concrete:
                return Tup(base.items[slice(li, hi_i)])
            if isinstance(base, Lit) and concrete:
                return Lit(base.s[slice(li, hi_i)])
            if is_str(base) or isinstance(base, (Param, Opaque)):
                if lo is not None and li == 0:
                    lo = None
                return Slice(base, lo, hi)
            return Unk("slice of " + type(base).__name__)
        ix = self._ev(sl, st)
        if isinstance(base, DictV) and (_is_bool(ix) or is_num(ix)):
            for k, v in base.items:                  # True == 1 and False == 0 as keys
                if (Fraction(int(k.value)) if _is_bool(k) else k) == (Fraction(int(ix.value)) if _is_bool(ix) else ix):
                    return v
        if _is_bool(ix):
            ix = Fraction(int(ix.value))             # (a, b)[test]: False -> 0, True -> 1
        i = as_int(ix)
        if isinstance(ix, Opaque) and ix.name == "test" and isinstance(base, (Tup, Lit)) and len(base.items if isinstance(base, Tup) else base.s) >= 2:
            # a pair indexed by a test the model cannot decide: either item, as the conditional expression `b if test else a`
            pick = (lambda k: base.items[k]) if isinstance(base, Tup) else (lambda k: Lit(base.s[k]))
            return Choice(ix.args[0].s, pick(1), pick(0))
        if isinstance(base, Tup) and i is not None:
            try:
                return base.items[i]
            except IndexError:
                if self.exceptions or self.index_errors:
                    raise Raised("IndexError")
                return Unk("index out of range")
        if isinstance(base, DictV):
            for k, v in base.items:
                if k == ix:
                    return v
            if self.index_errors and (is_num(ix) or isinstance(ix, Lit)) and all(is_num(k) or isinstance(k, (Lit, Const)) for k, _ in base.items):
                raise Raised("KeyError")             # concrete keys, concrete look-up
            return Unk("dict key")
        if isinstance(base, Lit) and i is not None:
            try:
                return Lit(base.s[i])
            except IndexError:
                if self.exceptions:
                    raise Raised("IndexError")       # concrete text, concrete index: the code under evaluation raises here
                return Unk("index out of range")
        if is_str(base) and i is not None and i >= 0:
            return Slice(base, Fraction(i) if i else None, Fraction(i + 1))
        return Opaque("idx", (base, ix))

    # ------------------------------------------------------------ calls
    def call(self, node, st):
        key = _memo_key(node)
        if key in st.env:
            return st.env[key]               # a followed call evaluated ahead of its statement
        name = dotted(node.func)
        root = node.func
        while isinstance(root, ast.Attribute):
            root = root.value
        if isinstance(root, ast.Name) and root.id not in st.env and self.fn is not None and root.id not in self.known_names() \
                and "*" not in self.known_names():
            raise Raised("NameError")
        if isinstance(root, ast.Name) and root is not node.func and root.id not in st.env and self.strict_locals and root.id in self.tracked_locals():
            raise Raised("UnboundLocalError")        # a method of a plain local that nothing was assigned to on this path
        if any(k.arg is None for k in node.keywords):
            args, kw = None, None
        else:
            args = []
            for a in node.args:
                if isinstance(a, ast.Starred):
                    v = _as_sequence(self._ev(a.value, st))          # f(*layout): the items of a literal sequence
                    if not isinstance(v, Tup):
                        args = None
                        break
                    args.extend(v.items)
                else:
                    args.append(self._ev(a, st))
            kw = {k.arg: self._ev(k.value, st) for k in node.keywords} if args is not None else None
        if args is None:
            st.effects = st.effects + ((name or ast.unparse(node.func), None, None, node),)
            return Unk("star arguments")
        if self.call_hook is not None:
            r = self.call_hook(name, args, kw, node, st, self)
            if r is not NotImplemented:
                return r
        if isinstance(node.func, ast.Attribute) and isinstance(node.func.value, ast.Name) and isinstance(st.env.get(node.func.value.id), Tup) \
                and node.func.attr in ("append", "extend") and len(args) == 1 and not kw:
            cur = st.env[node.func.value.id]
            if node.func.attr == "append":
                st.env[node.func.value.id] = Tup(cur.items + (args[0],))
                return Const(None)
            if isinstance(args[0], Tup):
                st.env[node.func.value.id] = Tup(cur.items + args[0].items)
                return Const(None)
            st.env[node.func.value.id] = Unk("extend by a non-literal")
            return Const(None)
        if isinstance(node.func, ast.Attribute) and isinstance(node.func.value, ast.Name) and isinstance(st.env.get(node.func.value.id), BufV) and not kw:
            nm, buf = node.func.value.id, st.env[node.func.value.id]
            if node.func.attr == "write" and len(args) == 1 and is_str(args[0]):
                st.env[nm] = BufV(buf.parts + (args[0],))
                return Len(args[0])
            if node.func.attr == "writelines" and len(args) == 1 and isinstance(args[0], Tup) and all(is_str(x) for x in args[0].items):
                st.env[nm] = BufV(buf.parts + args[0].items)
                return Const(None)
            if node.func.attr == "getvalue" and not args:
                return cat(*buf.parts)
            if node.func.attr == "close" and not args:
                return Const(None)
            st.env[nm] = Unk(f"text buffer used through .{node.func.attr}()")
            return Unk("text buffer")
        if isinstance(node.func, ast.Attribute) and isinstance(node.func.value, ast.Name) and node.func.attr in _MUTATORS \
                and isinstance(st.env.get(node.func.value.id), (Tup, DictV)):
            # a list / dict held in a local is altered in place: followed for the common forms, otherwise its content is unknown from here on
            nm, cur, how = node.func.value.id, st.env[node.func.value.id], node.func.attr
            idx = [as_int(a) for a in args]
            if isinstance(cur, Tup) and not kw:
                items = list(cur.items)
                try:
                    if how == "insert" and len(args) == 2 and idx[0] is not None:
                        items.insert(idx[0], args[1])
                        st.env[nm] = Tup(tuple(items))
                        return Const(None)
                    if how == "pop" and len(args) <= 1 and (not args or idx[0] is not None):
                        r = items.pop(*idx)
                        st.env[nm] = Tup(tuple(items))
                        return r
                    if how == "reverse" and not args:
                        st.env[nm] = Tup(tuple(reversed(items)))
                        return Const(None)
                    if how == "clear" and not args:
                        st.env[nm] = Tup(())
                        return Const(None)
                    if how == "sort" and not args and all(is_num(x) for x in items):
                        st.env[nm] = Tup(tuple(sorted(items)))
                        return Const(None)
                except IndexError:
                    raise Raised("IndexError")
            if isinstance(cur, DictV) and how == "clear" and not args and not kw:
                st.env[nm] = DictV(())
                return Const(None)
            st.env[nm] = Unk(f"altered in place by .{how}()")
            return Unk(f".{how}()")
        # the callee is a *value*: a local, or an expression such as `(a if test else b)(...)`
        fv = st.env.get(node.func.id) if isinstance(node.func, ast.Name) else (None if isinstance(node.func, ast.Attribute) else self._ev(node.func, st))
        if isinstance(fv, Opaque) and fv.name == "bound:format":
            return template_format(fv.args[0], args, kw)
        if not isinstance(node.func, (ast.Name, ast.Attribute)) and (isinstance(fv, FuncV) or (isinstance(fv, Opaque) and fv.name.startswith("name:") and not fv.args)):
            r = self.apply_value(fv, list(args), st, node, kw)
            if r is not NotImplemented:
                return r
        if isinstance(fv, Opaque) and fv.name == "partial":
            f, pargs, pkw = fv.args
            kw2 = {**{k.s: v for k, v in pkw.items}, **kw}
            r = self.apply_value(f, list(pargs.items) + list(args), st, node, kw2)
            if r is not NotImplemented:
                return r
            if isinstance(f, Opaque) and f.name[5:] in self.mod.funcs:
                # a function of the module that is not followed: the call is recorded under its own name with the full argument list
                full = _by_position(self.mod.funcs[f.name[5:]], list(pargs.items) + list(args), kw2)
                st.effects = st.effects + ((f.name[5:], tuple(full) if full is not None else None, (), node),)
                return CallS(f.name[5:], tuple(full)) if full is not None else Unk("partial call")
            return Unk("call of a partial that is not followed")
        rc = self.resolve_callee(node, st)
        if rc is not None:
            # a followed call in a position that is not evaluated ahead (arm of a conditional expression, comprehension element ...):
            # followed when the callee has one outcome for these arguments
            r = self._inline_single(rc[0], rc[1], args, kw, st, node)
            if r is not NotImplemented:
                return r
        # a local bound to a function of the module (a formatter passed as argument)
        if isinstance(node.func, ast.Name) and isinstance(st.env.get(node.func.id), Opaque) and st.env[node.func.id].name.startswith("name:") \
                and st.env[node.func.id].name[5:] in self.mod.funcs and not kw:
            st.effects = st.effects + ((st.env[node.func.id].name[5:], tuple(args), (), node),)
            return CallS(st.env[node.func.id].name[5:], tuple(args))
        # methods of string values (receiver evaluated, not named)
        if isinstance(node.func, ast.Attribute):
            recv_known = isinstance(node.func.value, ast.Name) and node.func.value.id in st.env or not isinstance(node.func.value, ast.Name) \
                or self.module_const(node.func.value.id) is not None
            if recv_known:
                recv = self._ev(node.func.value, st)
                if is_str(recv) or isinstance(recv, (Choice, Tup)) or (isinstance(recv, Opaque) and recv.name == "field"):
                    r = self.str_method(recv, node.func.attr, args, kw, st)
                    if r is not NotImplemented:
                        return r
        if isinstance(node.func, ast.Name) and isinstance(st.env.get(node.func.id), Opaque) and st.env[node.func.id].name.startswith("name:") \
                and not st.env[node.func.id].args and st.env[node.func.id].name[5:] in _BUILTINS | {"map", "next"}:
            name = st.env[node.func.id].name[5:]     # a local bound to a builtin (`for convert in (int, float): convert(s)`)
        elif isinstance(node.func, ast.Name) and node.func.id in st.env:
            name = None if name in _BUILTINS | {"map", "next"} else name          # a local that shadows a builtin
        if name in ("map", "next") or (name is not None and self.lib_name(node.func) is not None):
            r = self.library_call(name, node, args, kw, st)
            if r is not NotImplemented:
                return r
        if isinstance(node.func, ast.Attribute) and node.func.attr in ("items", "keys", "values", "get") and not kw:
            recv = self._ev(node.func.value, st)
            if isinstance(recv, DictV):
                if node.func.attr == "items" and not args:
                    return Tup(tuple(Tup((k, v)) for k, v in recv.items))
                if node.func.attr == "keys" and not args:
                    return Tup(tuple(k for k, _ in recv.items))
                if node.func.attr == "values" and not args:
                    return Tup(tuple(v for _, v in recv.items))
                if node.func.attr == "get" and len(args) in (1, 2) and (is_num(args[0]) or isinstance(args[0], (Lit, Const))) \
                        and all(is_num(k) or isinstance(k, (Lit, Const)) for k, _ in recv.items):
                    for k, v in recv.items:
                        if k == args[0]:
                            return v
                    return args[1] if len(args) == 2 else Const(None)
        if name in _BUILTINS and (not kw or (name == "enumerate" and set(kw) == {"start"} and len(args) == 1)):
            r = getattr(self, "b_" + name)(args + ([kw["start"]] if kw else []), st)
            if r is not NotImplemented:
                return r
        r = self.regex_call(name, node, args, kw, st)
        if r is not NotImplemented:
            return r
        if isinstance(node.func, ast.Attribute) and node.func.attr == "maketrans" and not kw and (name == "str.maketrans" or
                                                                                                 is_str(self._ev(node.func.value, st))):
            t = _maketrans(args)
            if t is not None:
                return t
        if name == "format" and len(args) == 2:
            toks = _tokens(args[1])
            return make_fmt(parse_spec(toks) if toks is not None else None, args[0])
        st.effects = st.effects + ((name or ast.unparse(node.func), tuple(args), tuple(sorted(kw.items())), node),)
        if not (name in _PURE_BUILTINS or (name or "").startswith(("np.", "numpy.", "math.", "os.path."))):
            # a list / dict / text buffer of this frame handed to code that is not followed may be altered there
            for a in list(node.args) + [k.value for k in node.keywords]:
                if isinstance(a, ast.Name) and isinstance(st.env.get(a.id), (Tup, DictV, BufV)) and a.id in self.local_names():
                    st.env[a.id] = Unk("handed to code that is not followed")
        if name is not None and "." not in name and name in self.mod.funcs and name not in st.env:
            if kw:
                fn = self.mod.funcs[name]
                names = [a.arg for a in fn.args.args]
                full = list(args) + [None] * (len(names) - len(args))
                for k, v in kw.items():
                    if k in names:
                        full[names.index(k)] = v
                if None not in full:
                    args = full
            return CallS(name, tuple(args))
        return Opaque("call:" + (name or ast.unparse(node.func)), tuple(args) + tuple(Opaque("kw:" + k, (v,)) for k, v in sorted(kw.items())))

    def apply_value(self, f, args, st, node, kw=None):
        """call a function *value* (lambda / nested def of this frame, a followed module function, a builtin) on argument values;
        NotImplemented when it is not followed or has more than one outcome"""
        site = ast.copy_location(ast.Call(func=ast.Name(id="<applied>", ctx=ast.Load()), args=[], keywords=[]), node)
        if isinstance(f, FuncV):
            if f.owner != id(self) or not _plain_function(f.node) or len(self._stack) >= MAX_INLINE_DEPTH:
                return NotImplemented
            site._c12_closure = f.closure
            site._c12_defaults = f.defaults
            return self._inline_single("<local>" + getattr(f.node, "name", "lambda"), f.node, list(args), dict(kw or {}), st, site)
        if isinstance(f, Opaque) and f.name.startswith("name:") and not f.args:
            nm = f.name[5:]
            if nm in _BUILTINS and nm not in self.mod.funcs:
                return getattr(self, "b_" + nm)(list(args), st) if not kw else NotImplemented
            fn = self.mod.funcs.get(nm)
            if fn is not None and "." not in nm and (nm + "#2") not in self.mod.funcs and nm not in self._stack and self.inline is not None \
                    and self.inline(nm) and _plain_function(fn) and len(self._stack) < MAX_INLINE_DEPTH:
                if self.call_hook is not None:
                    r = self.call_hook(nm, list(args), dict(kw or {}), site, st, self)
                    if r is not NotImplemented:
                        return r
                return self._inline_single(nm, fn, list(args), dict(kw or {}), st, site)
            if fn is not None and self.call_hook is not None:
                return self.call_hook(nm, list(args), dict(kw or {}), site, st, self)
        return NotImplemented

    def library_call(self, name, node, args, kw, st):
        """map / next and the few standard-library callables that only rearrange literal sequences"""
        lib = self.lib_name(node.func)
        if name == "map" and len(args) >= 2 and not kw and all(isinstance(_as_sequence(a), Tup) for a in args[1:]):
            out = []
            n0 = len(st.effects)
            for tup in zip(*[_as_sequence(a).items for a in args[1:]]):
                r = self.apply_value(args[0], tup, st, node)
                if r is NotImplemented or any(not e[0].startswith("<local>") and e[0] not in self.mod.funcs for e in st.effects[n0:]):
                    return Unk("map of a function that is not followed")      # (map is lazy: effects of the function would interleave)
                out.append(r)
            return Tup(tuple(out))
        if name == "next" and len(args) in (1, 2) and not kw and isinstance(node.args[0], ast.GeneratorExp) and isinstance(args[0], Tup):
            if args[0].items:
                return args[0].items[0]
            if len(args) == 2:
                return args[1]
            raise Raised("StopIteration")
        if lib == "itertools.islice" and not kw and len(args) in (2, 3, 4) and isinstance(_as_sequence(args[0]), Tup):
            idx = [None if a == Const(None) else as_int(a) for a in args[1:]]
            if all(i is not None or a == Const(None) for i, a in zip(idx, args[1:])) and all(i is None or i >= 0 for i in idx):
                sl = slice(None, idx[0]) if len(idx) == 1 else slice(*idx)
                if sl.step is None or sl.step > 0:
                    return Tup(_as_sequence(args[0]).items[sl])
        if lib == "operator.contains" and len(args) == 2 and not kw and isinstance(args[0], Lit) and isinstance(args[1], Lit):
            return Const(args[1].s in args[0].s)             # operator.contains(text, piece) is `piece in text`
        if lib == "io.StringIO" and not args and not kw:
            return BufV(())
        if lib == "functools.partial" and args and (isinstance(args[0], FuncV) or (isinstance(args[0], Opaque) and args[0].name.startswith("name:") and not args[0].args)):
            return Opaque("partial", (args[0], Tup(tuple(args[1:])), DictV(tuple((Lit(k), v) for k, v in sorted(kw.items())))))
        if lib == "itertools.chain" and not kw and all(isinstance(_as_sequence(a), Tup) for a in args):
            return Tup(tuple(x for a in args for x in _as_sequence(a).items))
        if lib in ("math.ceil", "math.floor", "math.trunc") and len(args) == 1 and not kw and is_num(args[0]):
            import math as _m
            return Fraction(getattr(_m, lib[5:])(args[0]))
        if lib in ("math.fabs",) and len(args) == 1 and not kw:
            return self.b_abs(args, st)
        if lib in _BISECT:
            got = _bisect_call(lib, args, kw)
            if got is not None and is_num(got[1]):
                import bisect as _b
                table, x, left, lo, hi = got
                return Fraction((_b.bisect_left if left else _b.bisect_right)(list(table.items), x, lo, hi))
        return NotImplemented

    def _inline_single(self, name, fn, args, kw, st, node):
        trial = State(dict(st.env), st.iv, st.facts, st.effects)
        saved, self._term = self._term, []
        try:
            res = self.inline_call(name, fn, args, kw, trial, node)
        finally:
            self._term = saved
        if not res:
            return NotImplemented
        vals = [r for r in res if r[1] == "value"]
        excs = [r for r in res if r[1] == "exc"]
        if len(res) == len(excs) and len({r[2] for r in excs}) == 1:
            raise Raised(excs[0][2])
        if len(vals) != len(res) or any(r[2] != vals[0][2] for r in vals):
            return NotImplemented
        if len(vals) > 1 and any((r[0].facts, r[0].effects, repr(r[0].iv)) != (vals[0][0].facts, vals[0][0].effects, repr(vals[0][0].iv)) for r in vals):
            return NotImplemented
        ns = vals[0][0]
        st.env.update({k: v for k, v in ns.env.items() if st.env.get(k) is not v})
        st.iv, st.facts, st.effects = ns.iv, ns.facts, ns.effects
        return vals[0][2]

    def regex_call(self, name, node, args, kw, st):
        """re.compile / re.sub / re.match ... and the methods of a compiled pattern, on literal patterns and literal text (the standard
        library's `re` is applied to the literals)"""
        import re
        flags = 0
        count = 0

        def lit(v):
            return v.s if isinstance(v, Lit) else None
        pat = None
        meth = None
        rest = None
        if kw:
            # keywords are mapped onto the signature of the `re` function / pattern method: pattern=, repl=, string=, count=, flags=
            fattr = node.func.attr if isinstance(node.func, ast.Attribute) else None
            modlevel = name is not None and name.startswith("re.")
            if modlevel:
                sig = {"compile": ("pattern", "flags"), "sub": ("pattern", "repl", "string", "count", "flags"), "match": ("pattern", "string", "flags"),
                       "search": ("pattern", "string", "flags"), "fullmatch": ("pattern", "string", "flags")}.get(name[3:])
            else:
                sig = {"sub": ("repl", "string", "count"), "match": ("string",), "search": ("string",), "fullmatch": ("string",)}.get(fattr)
            if sig is None or any(k not in sig[len(args):] for k in kw):
                return NotImplemented
            full = list(args) + [kw.get(k) for k in sig[len(args):]]
            while full and full[-1] is None:
                full.pop()
            if any(a is None for a in full):
                return NotImplemented
            args = full
        # trailing count / flags of re.sub, count of pattern.sub, flags of re.compile / re.match ...: concrete integers only
        if name is not None and name.startswith("re.") and name[3:] in ("compile", "sub", "match", "search", "fullmatch"):
            npos = {"compile": 1, "sub": 3, "match": 2, "search": 2, "fullmatch": 2}[name[3:]]
            extra, args = list(args[npos:]), list(args[:npos])
            if name[3:] == "sub" and extra:
                count = as_int(extra.pop(0))
            if extra:
                flags = self._re_flags(extra.pop(0))
            if extra or count is None or count < 0 or flags is None:
                return Unk("regular expression: count / flags that are not concrete")
        elif isinstance(node.func, ast.Attribute) and node.func.attr == "sub" and len(args) == 3:
            count = as_int(args[2])
            args = list(args[:2])
            if count is None or count < 0:
                return Unk("regular expression: count that is not concrete")
        if isinstance(node.func, ast.Attribute) and node.func.attr in ("group", "start", "end", "groups", "span"):
            recv = self._ev(node.func.value, st)
            if isinstance(recv, Const) and isinstance(recv.value, re.Match):
                ints = [as_int(a) for a in args]
                if all(i is not None for i in ints):
                    try:
                        r = getattr(recv.value, node.func.attr)(*ints)
                    except (IndexError, TypeError):
                        return Unk("match group")
                    conv = lambda x: Lit(x) if isinstance(x, str) else (Const(None) if x is None else (Fraction(x) if isinstance(x, int) else Unk("match")))   # noqa: E731
                    return Tup(tuple(conv(x) for x in r)) if isinstance(r, tuple) else conv(r)
        if name in ("re.compile",) and args and lit(args[0]) is not None and len(args) == 1:
            try:
                return Const(re.compile(args[0].s, flags))
            except re.error:
                return Unk("regular expression")
        if name is not None and name.startswith("re.") and name[3:] in ("sub", "match", "search", "fullmatch") and args and lit(args[0]) is not None:
            try:
                pat = re.compile(args[0].s, flags)
            except re.error:
                return Unk("regular expression")
            meth, rest = name[3:], args[1:]
        elif isinstance(node.func, ast.Attribute) and node.func.attr in ("sub", "match", "search", "fullmatch"):
            recv = self._ev(node.func.value, st)
            if isinstance(recv, Const) and isinstance(recv.value, re.Pattern):
                pat, meth, rest = recv.value, node.func.attr, args
        if pat is None:
            return NotImplemented
        if meth == "sub" and len(rest) == 2 and isinstance(rest[0], FuncV) and lit(rest[1]) is not None:
            # the replacement is computed by a function of the match object: followed on every match of the literal text
            def repl(m):
                r = self.apply_value(rest[0], (Const(m),), st, node)
                if not isinstance(r, Lit):
                    raise Unsupported("replacement function")
                return r.s
            try:
                return Lit(pat.sub(repl, rest[1].s, count))
            except (Unsupported, re.error):
                return Unk("regular expression with a replacement function that is not followed")
        if not all(lit(a) is not None for a in rest):
            return Unk("regular expression on non-literal text")
        try:
            if meth == "sub" and len(rest) == 2:
                return Lit(pat.sub(rest[0].s, rest[1].s, count))
            if meth in ("match", "search", "fullmatch") and len(rest) == 1:
                m = getattr(pat, meth)(rest[0].s)
                return Const(None) if m is None else Const(m)
        except re.error:
            return Unk("regular expression")
        return NotImplemented

    @staticmethod
    def _re_flags(v):
        """flags argument of a `re` call as an integer: a concrete number, or re.I / re.X ... (and their `|`) evaluated to the library's
        constants; None when it is not concrete"""
        import re
        if isinstance(v, Const) and isinstance(v.value, (int, re.RegexFlag)) and not isinstance(v.value, bool):
            return int(v.value)
        return as_int(v)

    def str_method(self, recv, meth, args, kw, st):
        if isinstance(recv, Choice):
            a = self.str_method(recv.a, meth, args, kw, st)
            b = self.str_method(recv.b, meth, args, kw, st)
            if a is NotImplemented or b is NotImplemented:
                return NotImplemented
            return Choice(recv.test, a, b)
        if isinstance(recv, Tup):
            if meth in ("index", "count") and len(args) == 1 and not kw and all(_concrete_item(x) for x in recv.items + (args[0],)):
                # a list of concrete numbers / texts / truth values searched for one of them
                hits = [i for i, x in enumerate(recv.items) if _item_key(x) == _item_key(args[0])]
                if meth == "count":
                    return Fraction(len(hits))
                if hits:
                    return Fraction(hits[0])
                if self.exceptions or self.index_errors:
                    raise Raised("ValueError")
            return NotImplemented
        if meth in ("strip", "lstrip", "rstrip") and len(args) <= 1 and not kw:
            chars = None
            if args:
                if isinstance(args[0], Const) and args[0].value is None:
                    chars = None
                elif isinstance(args[0], Lit):
                    chars = args[0].s
                else:
                    return Unk("strip characters")
            side = {"strip": "b", "lstrip": "l", "rstrip": "r"}[meth]
            if isinstance(recv, Lit):
                return Lit(getattr(recv.s, meth)(chars))
            return Strip(recv, chars, side)
        if meth == "replace" and len(args) == 2 and all(isinstance(a, Lit) for a in args):
            if isinstance(recv, Lit):
                return Lit(recv.s.replace(args[0].s, args[1].s))
            return Replace(recv, args[0].s, args[1].s)
        if meth == "translate" and len(args) == 1 and not kw:
            table = _translation_table(args[0])
            if table is None:
                return NotImplemented
            if isinstance(recv, Lit):
                return Lit(recv.s.translate(table))
            # character-wise substitution of other text: the same as successive replace() calls when no replacement text holds a
            # character that another entry maps
            keys = [chr(k) for k in table]
            vals = ["" if v is None else v for v in table.values()]
            if all(k not in v for i, k in enumerate(keys) for j, v in enumerate(vals) if i != j):
                out = recv
                for k, v in zip(keys, vals):
                    out = Replace(out, k, v)
                return out
            return NotImplemented
        if meth == "format":
            return template_format(recv, args, kw)
        if meth in ("split", "rsplit") and not args and not kw and isinstance(recv, Lit):
            return Tup(tuple(Lit(x) for x in recv.s.split()))          # concrete text cut at white space
        if meth in ("split", "rsplit", "partition", "rpartition") and args and isinstance(args[0], Lit) and not kw:
            sep = args[0].s
            if isinstance(recv, Lit):
                r = getattr(recv.s, meth)(sep, *[as_int(a) for a in args[1:]])
                return Tup(tuple(Lit(x) for x in r))
            head, tail = Piece(recv, sep, "head"), Piece(recv, sep, "tail")
            if meth in ("partition", "rpartition"):
                return Tup((head, Lit(sep), tail))
            return Tup((head, tail))
        if meth in ("rjust", "ljust", "center") and args and not kw:
            fill = " "
            if len(args) == 2:
                if not (isinstance(args[1], Lit) and len(args[1].s) == 1):
                    return Unk("fill character")
                fill = args[1].s
            return make_fmt(Spec(fill=fill, align={"rjust": ">", "ljust": "<", "center": "^"}[meth], width=args[0], typ="s"), recv)
        if meth == "join" and len(args) == 1 and isinstance(args[0], Tup):
            parts = []
            for i, x in enumerate(args[0].items):
                if i:
                    parts.append(recv)
                parts.append(x)
            if all(is_str(p) for p in parts):
                return cat(*parts)
            return Unk("join of non-strings")
        if meth in ("lower", "upper") and not args:
            return Lit(getattr(recv.s, meth)()) if isinstance(recv, Lit) else CaseOf(recv, meth)
        if meth == "startswith" and len(args) == 1 and not kw and is_str(recv):
            # text whose first characters are literal: a prefix (or a tuple of prefixes) no longer than them is decided
            pres = [args[0]] if isinstance(args[0], Lit) else (list(args[0].items) if isinstance(args[0], Tup) else None)
            if pres is not None and all(isinstance(p_, Lit) for p_ in pres):
                head, whole = _literal_head(recv)
                if whole or all(len(p_.s) <= len(head) for p_ in pres):
                    return Const(any(head.startswith(p_.s) for p_ in pres))
        if meth in ("index", "find", "rfind", "rindex", "count", "startswith", "endswith", "isdigit"):
            if isinstance(recv, Lit) and not kw and (not args or isinstance(args[0], Lit)) and all(isinstance(a, Lit) or as_int(a) is not None for a in args):
                # concrete text, concrete pattern, optional concrete start / end positions
                try:
                    r = getattr(recv.s, meth)(*[a.s if isinstance(a, Lit) else as_int(a) for a in args])
                except TypeError:
                    return Unk("string method arguments")
                except ValueError:
                    if self.exceptions:
                        raise Raised("ValueError")       # concrete text: `index` / `rindex` of a character it does not hold raises here
                    return Unk("substring not found")
                return Const(r) if isinstance(r, bool) else Fraction(r)
            return Opaque("." + meth, (recv,) + tuple(args))
        if meth == "expandtabs":
            return recv if isinstance(recv, Lit) and "\t" not in recv.s else Opaque(".expandtabs", (recv,))
        return NotImplemented

    # builtins
    def b_abs(self, a, st):
        if len(a) != 1:
            return NotImplemented
        return abs(a[0]) if is_num(a[0]) else Abs(a[0])

    def b_round(self, a, st):
        if len(a) == 1:
            return Fraction(round(a[0])) if is_num(a[0]) else Round(a[0], True)
        if len(a) == 2 and a[1] == 0:
            return Fraction(round(a[0])) if is_num(a[0]) else Round(a[0], False)
        return NotImplemented

    def b_int(self, a, st):
        if len(a) != 1:
            return NotImplemented
        if is_num(a[0]):
            return Fraction(int(a[0]))
        if _is_bool(a[0]):
            return Fraction(int(a[0].value))
        if isinstance(a[0], Lit):
            try:
                return Fraction(int(a[0].s))
            except ValueError:
                if self.exceptions:
                    raise Raised("ValueError")
                return Unk("int of text")
        return IntOf(a[0])

    def b_float(self, a, st):
        if len(a) != 1:
            return NotImplemented
        if is_num(a[0]) or isinstance(a[0], (Param, Neg, Abs, Round)):
            return a[0]
        if isinstance(a[0], Lit):
            if self.exceptions:
                try:
                    f = float(a[0].s)
                except ValueError:
                    raise Raised("ValueError")
                if f != f or f in (float("inf"), float("-inf")):
                    return Unk("non-finite float")
                return Fraction(f)
            try:
                return Fraction(a[0].s.strip())
            except (ValueError, ZeroDivisionError):
                return Unk("float of text")
        return FloatOf(a[0])

    def b_str(self, a, st):
        if len(a) != 1:
            return NotImplemented
        if is_str(a[0]):
            return a[0]
        i = as_int(a[0])
        if i is not None:
            return Lit(str(i))
        return StrOf(a[0])

    def b_len(self, a, st):
        if len(a) != 1:
            return NotImplemented
        if a[0] == Const(None) or is_num(a[0]):
            raise Raised("TypeError")
        if isinstance(a[0], Lit):
            return Fraction(len(a[0].s))
        if isinstance(a[0], Tup):
            return Fraction(len(a[0].items))
        if isinstance(a[0], Cat):
            parts = [self.b_len([p], st) for p in a[0].parts]
            if all(is_num(p) for p in parts):
                return sum(parts, Fraction(0))
        if self.len_hook is not None:
            r = self.len_hook(a[0], st, self)
            if r is not None:
                return r
        return Len(a[0])

    def b_min(self, a, st):
        xs = list(a[0].items) if len(a) == 1 and isinstance(a[0], Tup) else a
        return min(xs) if xs and all(is_num(x) for x in xs) else NotImplemented

    def b_max(self, a, st):
        xs = list(a[0].items) if len(a) == 1 and isinstance(a[0], Tup) else a
        return max(xs) if xs and all(is_num(x) for x in xs) else NotImplemented

    def b_sum(self, a, st):
        if len(a) in (1, 2) and isinstance(a[0], Tup) and all(is_num(x) or _is_bool(x) for x in a[0].items) and (len(a) == 1 or is_num(a[1])):
            return sum((x if is_num(x) else Fraction(int(x.value)) for x in a[0].items), a[1] if len(a) == 2 else Fraction(0))
        return NotImplemented

    def b_dict(self, a, st):
        if not a:
            return DictV(())
        if len(a) == 1 and isinstance(a[0], DictV):
            return a[0]
        if len(a) == 1 and isinstance(a[0], Tup) and all(isinstance(p, Tup) and len(p.items) == 2 and (is_num(p.items[0]) or isinstance(p.items[0], Lit))
                                                         for p in a[0].items):
            items = []
            for p in a[0].items:
                items = [(k, v) for k, v in items if k != p.items[0]] + [(p.items[0], p.items[1])]
            return DictV(tuple(items))
        return NotImplemented

    def b_divmod(self, a, st):
        if len(a) == 2 and is_num(a[0]) and is_num(a[1]) and a[1] != 0:
            return Tup((Fraction(a[0] // a[1]), a[0] % a[1]))
        return NotImplemented

    def b_range(self, a, st):
        ints = [as_int(x) for x in a]
        if not a or any(i is None for i in ints) or len(list(range(*ints))) > 400:
            return NotImplemented
        return Tup(tuple(Fraction(i) for i in range(*ints)))

    def b_enumerate(self, a, st):
        if len(a) >= 1 and isinstance(a[0], Tup) and (len(a) == 1 or as_int(a[1]) is not None):
            k0 = as_int(a[1]) if len(a) == 2 else 0
            return Tup(tuple(Tup((Fraction(i + k0), x)) for i, x in enumerate(a[0].items)))
        return NotImplemented

    def b_zip(self, a, st):
        if a and all(isinstance(x, Tup) for x in a):
            return Tup(tuple(Tup(t) for t in zip(*[x.items for x in a])))
        return NotImplemented

    def b_reversed(self, a, st):
        return Tup(tuple(reversed(a[0].items))) if len(a) == 1 and isinstance(a[0], Tup) else NotImplemented

    def b_tuple(self, a, st):
        if len(a) == 1 and isinstance(a[0], Lit):
            return _as_sequence(a[0])                # tuple("+ ,"): the characters
        return a[0] if len(a) == 1 and isinstance(a[0], Tup) else (Tup(()) if not a else NotImplemented)

    b_list = b_tuple
    b_sorted = lambda self, a, st: (Tup(tuple(sorted(a[0].items))) if len(a) == 1 and isinstance(a[0], Tup) and all(is_num(x) for x in a[0].items)
                                    else NotImplemented)

    def b_ord(self, a, st):
        if len(a) == 1 and isinstance(a[0], Lit) and len(a[0].s) == 1:
            return Fraction(ord(a[0].s))
        return NotImplemented

    def b_chr(self, a, st):
        i = as_int(a[0]) if len(a) == 1 else None
        if i is not None and 0 <= i < 0x110000:
            return Lit(chr(i))
        return NotImplemented

    def b_bool(self, a, st):
        if not a:
            return Const(False)
        if len(a) != 1:
            return NotImplemented
        v = a[0]
        if is_num(v):
            return Const(v != 0)
        if isinstance(v, Lit):
            return Const(bool(v.s))
        if isinstance(v, Tup):
            return Const(bool(v.items))
        if isinstance(v, Const) and (v.value is None or isinstance(v.value, bool)):
            return Const(bool(v.value))
        return NotImplemented

    def b_repr(self, a, st):
        return Fmt(Spec(conv="r"), a[0]) if len(a) == 1 else NotImplemented


_BUILTINS = {"divmod", "abs", "round", "int", "float", "str", "len", "min", "max", "range", "enumerate", "zip", "reversed", "tuple", "list", "sorted", "repr",
             "ord", "chr", "bool", "sum", "dict"}


_MUTATORS = {"append", "extend", "insert", "pop", "remove", "clear", "sort", "reverse", "update", "setdefault", "popitem", "add", "discard",
             "__setitem__", "__delitem__"}


def _altered_in_functions(tree):
    """module-level names that some function of the module rebinds (`global`) or alters in place (a mutating method, an item store, an
    augmented assignment) without having a local of that name"""
    got = getattr(tree, "_c12_altered", None)
    if got is not None:
        return got
    got = set()
    for fn in ast.walk(tree):
        if not isinstance(fn, (ast.FunctionDef, ast.AsyncFunctionDef, ast.Lambda)):
            continue
        glob, local = set(), {a.arg for a in ast.walk(fn.args) if isinstance(a, ast.arg)}
        nodes = list(ast.walk(fn))
        for n in nodes:
            if isinstance(n, (ast.Global, ast.Nonlocal)):
                glob.update(n.names)
        for n in nodes:
            if isinstance(n, ast.Name) and isinstance(n.ctx, (ast.Store, ast.Del)) and n.id not in glob:
                local.add(n.id)
        got |= glob
        for n in nodes:
            base = None
            if isinstance(n, ast.Call) and isinstance(n.func, ast.Attribute) and n.func.attr in _MUTATORS:
                base = n.func.value
            elif isinstance(n, ast.Subscript) and isinstance(n.ctx, (ast.Store, ast.Del)):
                base = n.value
            elif isinstance(n, ast.AugAssign):
                base = n.target.value if isinstance(n.target, ast.Subscript) else None
            while isinstance(base, ast.Subscript):
                base = base.value
            if isinstance(base, ast.Name) and base.id not in local:
                got.add(base.id)
    tree._c12_altered = got
    return got


def _by_position(fn, args, kw):
    """positional argument list of a call of `fn` with these arguments and keywords (defaults are not filled in), None when they do not fit"""
    names = [a.arg for a in fn.args.posonlyargs + fn.args.args]
    if len(args) > len(names) or any(k not in names for k in kw):
        return None
    full = list(args) + [None] * (len(names) - len(args))
    for k, v in kw.items():
        i = names.index(k)
        if full[i] is not None:
            return None
        full[i] = v
    while full and full[-1] is None:
        full.pop()
    return None if None in full else full


def _reown(v, old, new, env):
    """a function value that leaves the frame that defined it keeps that frame's locals"""
    if isinstance(v, FuncV):
        return FuncV(v.node, new, dict(env), v.defaults) if v.owner == old else v
    if isinstance(v, Tup):
        return Tup(tuple(_reown(x, old, new, env) for x in v.items))
    if isinstance(v, DictV):
        return DictV(tuple((k, _reown(x, old, new, env)) for k, x in v.items))
    return v


def _as_sequence(v):
    """what iterating a value yields, as a Tup: the characters of a literal text, the keys of a dict"""
    if isinstance(v, Lit):
        return Tup(tuple(Lit(c) for c in v.s))
    if isinstance(v, DictV):
        return Tup(tuple(k for k, _ in v.items))
    return v


def _concrete_item(v):
    return is_num(v) or isinstance(v, Lit) or _is_bool(v) or v == Const(None)


def _item_key(v):
    """equality of concrete items as Python has it: True == 1, False == 0"""
    return Fraction(int(v.value)) if _is_bool(v) else v


def _literal_head(v):
    """(the literal characters a string value begins with, True when they are the whole text)"""
    if isinstance(v, Lit):
        return v.s, True
    if isinstance(v, Cat):
        head = ""
        for i, p_ in enumerate(v.parts):
            if not isinstance(p_, Lit):
                return head, False
            head += p_.s
        return head, True
    return "", False


def _comp_key(node):
    return "<comp:%d>" % id(node)


_BISECT = {"bisect.bisect_right": False, "bisect.bisect": False, "bisect.bisect_left": True,       # name -> counts the elements < x (else <= x)
           "numpy.searchsorted": True}                                                            # (numpy: side="left" unless said otherwise)


def _bisect_call(lib, args, kw):
    """a look-up of a number in an ascending table of numbers, placed on the library signature:
    bisect.bisect[_right|_left](a, x, lo=0, hi=len(a)) / numpy.searchsorted(a, v, side="left") -> (table, x, counts `<`, lo, hi), else None.
    The answer is lo + the number of elements of a[lo:hi] that are <= x (`<` x for the left variants)."""
    numpy = lib == "numpy.searchsorted"
    names = ("a", "v", "side", "sorter") if numpy else ("a", "x", "lo", "hi", "key")
    if len(args) > len(names) or any(k in names[:len(args)] or k not in names for k in kw):
        return None
    b = dict(zip(names, args))
    b.update(kw)
    if "a" not in b or names[1] not in b or b.get("key", Const(None)) != Const(None) or b.get("sorter", Const(None)) != Const(None):
        return None
    table = _as_sequence(b["a"])
    if not (isinstance(table, Tup) and all(is_num(t) for t in table.items) and all(p <= q for p, q in zip(table.items, table.items[1:]))):
        return None
    n = len(table.items)
    left = _BISECT[lib]
    lo, hi = 0, n
    if numpy:
        side = b.get("side", Lit("left"))
        if side not in (Lit("left"), Lit("right")):
            return None
        left = side == Lit("left")
    else:
        if "lo" in b:
            lo = as_int(b["lo"])
        if b.get("hi", Const(None)) != Const(None):
            hi = as_int(b["hi"])
        if lo is None or hi is None or not 0 <= lo <= hi <= n:
            return None                            # a negative lo raises, a hi beyond the table reads past it: not modelled
    return table, b[names[1]], left, lo, hi


def _is_bool(v):
    return isinstance(v, Const) and isinstance(v.value, bool)


def _translation_table(v):
    """value of a str.translate table (a dict literal keyed by ord(...) / code points, or str.maketrans of literals) -> {code point: text | None}"""
    if not isinstance(v, DictV):
        return None
    out = {}
    for k, x in v.items:
        ki = as_int(k)
        if ki is None and isinstance(k, Lit) and len(k.s) == 1:
            return None                              # a str key is never looked up by translate (only maketrans converts them)
        if ki is None:
            return None
        if isinstance(x, Lit):
            out[ki] = x.s
        elif x == Const(None):
            out[ki] = None
        elif as_int(x) is not None and 0 <= as_int(x) < 0x110000:
            out[ki] = chr(as_int(x))
        else:
            return None
    return out


def _maketrans(args):
    """str.maketrans on literal arguments -> DictV keyed by code points, else None"""
    try:
        if len(args) == 1 and isinstance(args[0], DictV):
            d = {}
            for k, x in args[0].items:
                kk = k.s if isinstance(k, Lit) else as_int(k)
                xx = x.s if isinstance(x, Lit) else (None if x == Const(None) else as_int(x))
                if kk is None or (xx is None and x != Const(None)):
                    return None
                d[kk] = xx
            t = str.maketrans(d)
        elif len(args) in (2, 3) and all(isinstance(a, Lit) for a in args):
            t = str.maketrans(*[a.s for a in args])
        else:
            return None
    except (ValueError, TypeError):
        return None
    return DictV(tuple((Fraction(k), Const(None) if x is None else (Lit(x) if isinstance(x, str) else Fraction(x))) for k, x in t.items()))


def _tokens(v):
    from .c12_str import tokens_of
    return tokens_of(v)


def _num_cmp(op, a, b):
    if isinstance(op, ast.Lt):
        return a < b
    if isinstance(op, ast.LtE):
        return a <= b
    if isinstance(op, ast.Gt):
        return a > b
    if isinstance(op, ast.GtE):
        return a >= b
    if isinstance(op, (ast.Eq, ast.Is)):
        return a == b
    if isinstance(op, (ast.NotEq, ast.IsNot)):
        return a != b
    raise Unsupported("comparison operator")


def _load(t):
    import copy
    n = copy.copy(t)
    n.ctx = ast.Load()
    return n


def _has_unknown(v):
    if isinstance(v, Unk):
        return True
    if isinstance(v, Tup):
        return any(_has_unknown(x) for x in v.items)
    if isinstance(v, DictV):
        return any(_has_unknown(k) or _has_unknown(x) for k, x in v.items)
    return False


def walk_value(v):
    """all nodes of an abstract value"""
    yield v
    if isinstance(v, V) and hasattr(v, "__dataclass_fields__"):
        for f in v.__dataclass_fields__:
            x = getattr(v, f)
            if isinstance(x, V):
                yield from walk_value(x)
            elif isinstance(x, tuple):
                for y in x:
                    if isinstance(y, V):
                        yield from walk_value(y)
                    elif isinstance(y, tuple):
                        for z in y:
                            if isinstance(z, V):
                                yield from walk_value(z)
            elif isinstance(x, Spec):
                for g in (x.width, x.prec):
                    if isinstance(g, V):
                        yield from walk_value(g)
