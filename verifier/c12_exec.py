"""C12 helper -- evaluation of a function body on abstract values (c12_str) with the float parameter confined to an interval.

`Engine.run()` walks the statements; every comparison of the float parameter (or -x, abs(x)) with a constant *splits the interval*, so
an if/elif ladder, its inverted form, a chain of early returns or a loop over a literal (bound, spec) table all produce the same set
of leaves  (interval of the parameter, value returned).  Tests the model cannot decide fork into both arms (recorded as facts).
Nothing is matched as text: names are looked up in the environment, module-level literals are folded, calls are evaluated.

`inline=<predicate on function names>` makes the engine *follow* calls to plain module-level functions (and to nested functions / lambdas
of the frame under evaluation): before a statement is executed, the followed calls its expressions certainly evaluate are run on their
argument values (`prefork`); every path through the callee continues the caller's path (interval, facts, effects; a `raise` in the
callee ends the statement, an exception of a modelled builtin reaches the caller's `try`), the value is remembered under the call node.
Lists handed to a helper that appends to them are written back to the caller's local; a helper that treats such a list in a way that is
not followed makes it unknown.  Calls in conditionally evaluated positions (arms of conditional expressions, comprehension elements)
are followed when the callee has one outcome.  Boolean expressions in value position (`neg = value < 0`, `return a <= w and b == c`)
part the paths exactly as the same test in an `if` would.
"""
from __future__ import annotations

import ast
from fractions import Fraction

from .core import Unsupported
from .e1_srcmodel import dotted
from .c12_str import (V, Unk, Const, Param, Neg, Abs, Round, IntOf, FloatOf, Len, Opaque, Lit, Spec, Fmt, Cat, Strip, Replace, Slice, Rep,
                      Piece, StrOf, CaseOf, CallS, Choice, Tup, DictV, is_num, is_str, cat, as_int, parse_spec, make_fmt,
                      template_format, percent_format)


class FuncV(V):
    """a function defined inside the function under evaluation (nested def / lambda); it is followed when called from that very frame,
    where its free variables are the caller's locals"""
    __slots__ = ("node", "owner")

    def __init__(self, node, owner):
        self.node, self.owner = node, owner

    def __eq__(self, o):
        return isinstance(o, FuncV) and o.node is self.node

    def __hash__(self):
        return id(self.node)

    def __repr__(self):
        return f"FuncV({getattr(self.node, 'name', 'lambda')})"


class Interval:
    """lo (<|<=) x (<|<=) hi ; None = unbounded"""
    __slots__ = ("lo", "lc", "hi", "hc")

    def __init__(self, lo=None, lc=False, hi=None, hc=False):
        self.lo, self.lc, self.hi, self.hc = lo, lc, hi, hc

    def empty(self):
        if self.lo is None or self.hi is None:
            return False
        return self.lo > self.hi or (self.lo == self.hi and not (self.lc and self.hc))

    def below(self, c, closed):
        """intersection with x < c (closed: x <= c)"""
        r = Interval(self.lo, self.lc, self.hi, self.hc)
        if r.hi is None or c < r.hi or (c == r.hi and r.hc and not closed):
            r.hi, r.hc = c, closed
        return r

    def above(self, c, closed):
        r = Interval(self.lo, self.lc, self.hi, self.hc)
        if r.lo is None or c > r.lo or (c == r.lo and r.lc and not closed):
            r.lo, r.lc = c, closed
        return r

    def contains(self, o):
        """self is a superset of o"""
        if self.lo is not None:
            if o.lo is None or o.lo < self.lo or (o.lo == self.lo and o.lc and not self.lc):
                return False
        if self.hi is not None:
            if o.hi is None or o.hi > self.hi or (o.hi == self.hi and o.hc and not self.hc):
                return False
        return True

    def meet(self, o):
        r = self
        if o.lo is not None:
            r = r.above(o.lo, o.lc)
        if o.hi is not None:
            r = r.below(o.hi, o.hc)
        return r

    def __repr__(self):
        return f"{'[' if self.lc else '('}{'-inf' if self.lo is None else _ftxt(self.lo)}, {'inf' if self.hi is None else _ftxt(self.hi)}{']' if self.hc else ')'}"


def _ftxt(fr):
    f = float(fr)
    return repr(int(f)) if f == int(f) and abs(f) < 1e16 else repr(f)


class State:
    __slots__ = ("env", "iv", "facts", "effects")

    def __init__(self, env, iv, facts=(), effects=()):
        self.env, self.iv, self.facts, self.effects = env, iv, facts, effects

    def fork(self, iv=None, fact=None):
        return State(dict(self.env), self.iv if iv is None else iv, self.facts + ((fact,) if fact else ()), self.effects)


class Leaf:
    __slots__ = ("state", "kind", "value", "node")

    def __init__(self, state, kind, value, node):
        self.state, self.kind, self.value, self.node = state, kind, value, node

    @property
    def iv(self):
        return self.state.iv


def const_fraction(node, src=None):
    v = node.value
    if isinstance(v, bool):
        return None
    if isinstance(v, int):
        return Fraction(v)
    if isinstance(v, float):
        if v != v or v in (float("inf"), float("-inf")):
            return None
        return Fraction(repr(v))
    return None


class Raised(Exception):
    """a Python exception raised by a modelled builtin on concrete text (int('1.5') ...)"""

    def __init__(self, name):
        super().__init__(name)
        self.name = name


MAX_INLINE_DEPTH = 6


def _memo_key(node):
    return "<call:%d>" % id(node)


def _boolean_expr(e):
    """an expression whose value is True / False: comparisons, `not`, and / or of such, isinstance(...)"""
    if isinstance(e, ast.Compare) or (isinstance(e, ast.UnaryOp) and isinstance(e.op, ast.Not)):
        return True
    if isinstance(e, ast.BoolOp):
        return all(_boolean_expr(v) for v in e.values)
    if isinstance(e, ast.Constant):
        return isinstance(e.value, bool)
    return isinstance(e, ast.Call) and isinstance(e.func, ast.Name) and e.func.id == "isinstance"


def _plain_function(fn):
    """a function whose call is an ordinary evaluation of its body: no decorator, not a generator / coroutine"""
    ok = getattr(fn, "_c12_plain", None)
    if ok is None:
        ok = isinstance(fn, ast.Lambda) or (isinstance(fn, ast.FunctionDef) and not fn.decorator_list)
        if ok:
            stack = list(fn.body) if isinstance(fn.body, list) else [fn.body]
            while stack:
                n = stack.pop()
                if isinstance(n, (ast.Yield, ast.YieldFrom, ast.Await, ast.Nonlocal, ast.Global)):
                    ok = False
                    break
                if isinstance(n, (ast.FunctionDef, ast.AsyncFunctionDef, ast.Lambda, ast.ClassDef)):
                    continue
                stack.extend(ast.iter_child_nodes(n))
        fn._c12_plain = ok
    return ok


_PURE_BUILTINS = {"len", "min", "max", "sum", "sorted", "list", "tuple", "enumerate", "zip", "reversed", "str", "repr", "isinstance", "any",
                  "all", "bool", "iter", "set", "frozenset", "type", "id", "print"}
_PURE_METHODS = {"index", "count", "copy", "__len__", "__contains__"}


def _list_param_use(fn, eng):
    """how a function treats a list it receives as parameter: {parameter: 'pure' | 'mutates' | 'escapes'}.
    'mutates': altered only through append / extend / += / item stores (all followed by the engine, so the parameter's final value is the
    caller's list after the call); 'escapes': bound to another name, handed on to code that is not followed, altered in another way"""
    cache = fn.__dict__.setdefault("_c12_lpu", {})
    use = cache.get(id(eng.inline))
    if use is not None:
        return use
    params = {a.arg for a in fn.args.posonlyargs + fn.args.args + fn.args.kwonlyargs}
    seen = {p: set() for p in params}
    par = {}
    for n in ast.walk(fn):
        for c in ast.iter_child_nodes(n):
            par[id(c)] = n
    for n in ast.walk(fn):
        if not (isinstance(n, ast.Name) and n.id in params):
            continue
        up = par.get(id(n))
        kinds = seen[n.id]
        if isinstance(n.ctx, (ast.Store, ast.Del)):
            kinds.add("mutates" if isinstance(up, ast.AugAssign) and up.target is n else "rebound")
            continue
        if isinstance(up, ast.Attribute):
            call = par.get(id(up))
            if isinstance(call, ast.Call) and call.func is up:
                kinds.add("mutates" if up.attr in ("append", "extend") else ("pure" if up.attr in _PURE_METHODS else "escapes"))
            else:
                kinds.add("escapes")
        elif isinstance(up, ast.Subscript) and up.value is n:
            kinds.add("mutates" if isinstance(up.ctx, (ast.Store, ast.Del)) else "pure")
        elif isinstance(up, ast.Call) and n in up.args:
            d = dotted(up.func)
            if d in _PURE_BUILTINS:
                kinds.add("pure")
            elif d is not None and "." not in d and d in eng.mod.funcs and d not in params and eng.inline is not None and eng.inline(d) \
                    and _plain_function(eng.mod.funcs[d]):
                kinds.add("mutates")         # followed in turn: its effect on the list arrives in this function's local
            else:
                kinds.add("escapes")
        elif isinstance(up, (ast.For, ast.comprehension)) and up.iter is n:
            kinds.add("pure")
        elif isinstance(up, (ast.Compare, ast.BoolOp, ast.UnaryOp, ast.If, ast.IfExp, ast.While, ast.FormattedValue, ast.Return, ast.BinOp,
                             ast.Assert)):
            kinds.add("pure" if not (isinstance(up, ast.IfExp) and up.test is not n) else "escapes")
        elif isinstance(up, ast.AugAssign):
            kinds.add("pure")
        else:
            kinds.add("escapes")
    use = {}
    for p, kinds in seen.items():
        if "escapes" in kinds or ("rebound" in kinds and "mutates" in kinds):
            use[p] = "escapes"
        elif "mutates" in kinds:
            use[p] = "mutates"
        else:
            use[p] = "pure"
    cache[id(eng.inline)] = use
    return use


_FLIP = {ast.Lt: ast.Gt, ast.Gt: ast.Lt, ast.LtE: ast.GtE, ast.GtE: ast.LtE, ast.Eq: ast.Eq, ast.NotEq: ast.NotEq}
MAX_STATES = 4000


class Engine:
    def __init__(self, ctx, rel, fn, param=None, cond=None, call=None, cmp=None, length=None, env=None, follow=True, post=None, lenient=False, exceptions=False, strict_locals=False,
                 inline=None, _stack=()):
        self.ctx, self.rel, self.fn = ctx, rel, fn
        self.inline = inline                 # predicate on names of module-level functions: calls to them are evaluated in place
        self._stack = _stack                 # names of the functions being evaluated (no recursion)
        self._term = []                      # paths ended by a raise inside a followed call of the current statement
        self._strict_flag = strict_locals
        self.max_states = MAX_STATES
        self.mod = ctx.src.mod(rel)
        self.param = param
        self.cond_hook, self.call_hook, self.cmp_hook, self.len_hook = cond, call, cmp, length
        self.post_hook = post
        self.lenient = lenient
        self.exceptions = exceptions
        self.strict_locals = strict_locals and fn is not None
        self.env0 = dict(env or {})
        self.follow = follow
        self._modconst = {}
        self.nstates = 0

    # ------------------------------------------------------------ entry points
    def start_state(self, iv=None):
        env = dict(self.env0)
        if self.fn is not None:
            for a in self.fn.args.args + self.fn.args.kwonlyargs:
                env.setdefault(a.arg, Param(a.arg))
        return State(env, iv or Interval())

    def run(self, iv=None, body=None, state=None):
        st = state or self.start_state(iv)
        res = self.block(self.fn.body if body is None else body, st)
        leaves = []
        for s, out, pay in res:
            if out == "return":
                leaves.append(Leaf(s, "return", pay[0], pay[1]))
            elif out == "raise":
                leaves.append(Leaf(s, "raise", None, pay))
            elif out == "exc":
                leaves.append(Leaf(s, "raise", Lit(pay), self.fn))
            else:
                leaves.append(Leaf(s, "fall" if out == "next" else out, Const(None), self.fn))
        return leaves

    # ------------------------------------------------------------ statements
    def block(self, stmts, st):
        cur = [st]
        done = []
        for s in stmts:
            nxt = []
            for c in cur:
                try:
                    res = self.stmt(s, c)
                except Raised as r:
                    done.append((c, "exc", r.name))
                    continue
                for st2, out, pay in res:
                    if out == "next":
                        nxt.append(st2)
                    else:
                        done.append((st2, out, pay))
            cur = nxt
            self.nstates += len(cur)
            if self.nstates > self.max_states:
                raise Unsupported("too many paths")
            if not cur:
                break
        return [(c, "next", None) for c in cur] + done

    def stmt(self, s, st):
        """-> [(state, outcome, payload)]; paths that end inside a followed helper call (its raise) are outcomes of the statement"""
        saved, self._term = self._term, []
        try:
            res = self._stmt(s, st)
            return res + self._term
        finally:
            self._term = saved

    def forking_eval(self, expr, st):
        """value of an expression whose evaluation may fork (conditional expressions, followed helper calls) -> [(state, value)]"""
        if isinstance(expr, ast.IfExp):
            out = []
            for truth, st2 in self.decide(expr.test, st):
                out.extend(self.forking_eval(expr.body if truth else expr.orelse, st2))
            return out
        if _boolean_expr(expr) and not isinstance(expr, ast.Constant):
            # a test kept in a temporary / returned by a predicate helper: the paths part here (the interval is split, the outcome recorded),
            # exactly as if the test stood in the `if` that later reads the flag
            return [(st2, Const(truth)) for truth, st2 in self.decide(expr, st)]
        sites = self._inline_sites(expr, st)
        if not sites:
            return [(st, self.ev(expr, st))]
        return [(st2, self.ev(expr, st2)) for st2 in self.prefork(sites, st)]

    def _stmt(self, s, st):
        if isinstance(s, ast.Expr):
            if isinstance(s.value, ast.Constant):
                return [(st, "next", None)]
            return [(st2, "next", None) for st2, _ in self.forking_eval(s.value, st)]
        if isinstance(s, (ast.Assign, ast.AnnAssign)):
            value = s.value
            targets = s.targets if isinstance(s, ast.Assign) else [s.target]
            if value is None:
                return [(st, "next", None)]
            out = []
            for st2, v in self.forking_eval(value, st):
                for t in targets:
                    self.assign(t, v, st2)
                out.append((st2, "next", None))
            return out
        if isinstance(s, ast.AugAssign):
            out = []
            for st2, rhs in self.forking_eval(s.value, st):
                cur = self.ev(_load(s.target), st2)
                v = self.binop(s.op, cur, rhs, st2)
                self.assign(s.target, v, st2)
                out.append((st2, "next", None))
            return out
        if isinstance(s, ast.If):
            out = []
            for truth, st2 in self.decide(s.test, st):
                out.extend(self.block(s.body if truth else s.orelse, st2))
            return out
        if isinstance(s, ast.Return):
            if s.value is None:
                return [(st, "return", (Const(None), s))]
            return [(st2, "return", (v, s)) for st2, v in self.forking_eval(s.value, st)]
        if isinstance(s, ast.Raise):
            return [(st, "raise", s)]
        if isinstance(s, ast.Break):
            return [(st, "break", None)]
        if isinstance(s, ast.Continue):
            return [(st, "continue", None)]
        if isinstance(s, ast.FunctionDef):
            st.env[s.name] = FuncV(s, id(self))
            return [(st, "next", None)]
        if isinstance(s, ast.Delete):
            for t in s.targets:
                if isinstance(t, ast.Subscript) and isinstance(t.value, ast.Name) and isinstance(st.env.get(t.value.id), Tup):
                    st.env[t.value.id] = Unk("item deleted")
            return [(st, "next", None)]
        if isinstance(s, (ast.Pass, ast.Assert, ast.Import, ast.ImportFrom, ast.Global, ast.Nonlocal)):
            return [(st, "next", None)]
        if isinstance(s, ast.Try):
            out = []
            for st2, o, pay in self.block(s.body, st):
                if o == "exc":
                    h = None
                    for hd in s.handlers:
                        names = [] if hd.type is None else [dotted(t) for t in (hd.type.elts if isinstance(hd.type, ast.Tuple) else [hd.type])]
                        if hd.type is None or pay in names or "Exception" in names:
                            h = hd
                            break
                    if h is None:
                        out.append((st2, o, pay))
                    else:
                        for st3, o3, p3 in self.block(h.body, st2):
                            if o3 == "next":
                                out.extend(self.block(s.finalbody, st3))
                            else:
                                out.append((st3, o3, p3))
                    continue
                if o == "next":
                    for st3, o3, p3 in self.block(s.orelse, st2):
                        if o3 == "next":
                            out.extend(self.block(s.finalbody, st3))
                        else:
                            out.append((st3, o3, p3))
                else:
                    out.append((st2, o, pay))
            return out
        if isinstance(s, ast.For):
            return self.for_loop(s, st)
        if isinstance(s, ast.While):
            return self.while_loop(s, st)
        raise Unsupported(f"statement {type(s).__name__} at line {getattr(s, 'lineno', '?')}")

    def for_loop(self, s, st):
        forks = self.forking_eval(s.iter, st)
        if len(forks) != 1:
            out = []
            for st2, it in forks:
                out.extend(self._for_loop(s, st2, it))
            return out
        return self._for_loop(s, forks[0][0], forks[0][1])

    def _for_loop(self, s, st, it):
        if not isinstance(it, Tup):
            if self.lenient:
                # a loop that is not the rule's business: what it assigns is unknown afterwards
                for n in ast.walk(s):
                    if isinstance(n, ast.Name) and isinstance(n.ctx, ast.Store):
                        st.env[n.id] = Unk("assigned in a loop")
                return [(st, "next", None)]
            raise Unsupported(f"loop over a non-literal sequence: {ast.unparse(s.iter)}")
        live = [st]
        done = []
        broke = []
        for item in it.items:
            nxt = []
            for c in live:
                self.assign(s.target, item, c)
                for st2, o, pay in self.block(s.body, c):
                    if o in ("next", "continue"):
                        nxt.append(st2)
                    elif o == "break":
                        broke.append(st2)
                    else:
                        done.append((st2, o, pay))
            live = nxt
            if not live:
                break
        out = list(done)
        for c in live:
            out.extend(self.block(s.orelse, c))
        out.extend((c, "next", None) for c in broke)
        return out

    def while_loop(self, s, st, bound=400):
        """a loop whose test is decided at every iteration (concrete counters, scripted iterators)"""
        live = [st]
        out = []
        for _ in range(bound):
            nxt = []
            for c in live:
                for truth, c2 in self.decide(s.test, c):
                    if c2.facts != c.facts:
                        raise Unsupported(f"loop test not decided: {ast.unparse(s.test)}")
                    if not truth:
                        out.extend(self.block(s.orelse, c2))
                        continue
                    for st2, o, pay in self.block(s.body, c2):
                        if o in ("next", "continue"):
                            nxt.append(st2)
                        elif o == "break":
                            out.append((st2, "next", None))
                        else:
                            out.append((st2, o, pay))
            live = nxt
            if not live:
                return out
        raise Unsupported("loop does not terminate within the bound")

    def assign(self, t, v, st):
        if isinstance(t, ast.Name):
            st.env[t.id] = v
        elif isinstance(t, (ast.Tuple, ast.List)):
            if isinstance(v, Tup) and len(v.items) == len(t.elts):
                for e, x in zip(t.elts, v.items):
                    self.assign(e, x, st)
            else:
                for e in t.elts:
                    self.assign(e, Unk("unpacking"), st)
        elif isinstance(t, ast.Subscript) and isinstance(t.value, ast.Name) and isinstance(st.env.get(t.value.id), Tup):
            # store into a list held in a local: a constant index replaces that item, anything else makes the list unknown
            cur = st.env[t.value.id]
            i = None if isinstance(t.slice, ast.Slice) else as_int(self.ev(t.slice, st))
            if i is not None and -len(cur.items) <= i < len(cur.items):
                items = list(cur.items)
                items[i] = v
                st.env[t.value.id] = Tup(tuple(items))
            else:
                st.env[t.value.id] = Unk("subscript store")
        # attribute stores and stores into other objects are not modelled

    # ------------------------------------------------------------ tests
    def decide(self, test, st):
        """-> [(truth, state)]"""
        structural = isinstance(test, ast.BoolOp) or (isinstance(test, ast.UnaryOp) and isinstance(test.op, ast.Not)) \
            or (isinstance(test, ast.Compare) and len(test.ops) > 1)
        if not structural and self.inline is not None:
            sites = self._inline_sites(test, st)
            if sites:
                out = []
                for st2 in self.prefork(sites, st):
                    out.extend(self._decide(test, st2))
                return out
        return self._decide(test, st)

    def _decide(self, test, st):
        if self.cond_hook is not None:
            r = self.cond_hook(test, st, self)
            if r is not None:
                return [(bool(r), st)]
        if isinstance(test, ast.UnaryOp) and isinstance(test.op, ast.Not):
            return [(not t, s) for t, s in self.decide(test.operand, st)]
        if isinstance(test, ast.BoolOp):
            is_and = isinstance(test.op, ast.And)
            res = [(is_and, st)]
            for v in test.values:
                new = []
                for t, s in res:
                    if t != is_and:          # short-circuited
                        new.append((t, s))
                    else:
                        new.extend(self.decide(v, s))
                res = new
            return res
        if isinstance(test, ast.Compare):
            if len(test.ops) > 1:
                parts = []
                left = test.left
                for op, right in zip(test.ops, test.comparators):
                    parts.append(ast.Compare(left=left, ops=[op], comparators=[right]))
                    left = right
                return self.decide(ast.BoolOp(op=ast.And(), values=parts), st)
            return self.compare(test, st)
        if isinstance(test, ast.Constant):
            return [(bool(test.value), st)]
        v = self.ev(test, st)
        if is_num(v):
            return [(v != 0, st)]
        if isinstance(v, Lit):
            return [(bool(v.s), st)]
        if isinstance(v, Const):
            return [(bool(v.value), st)]
        if isinstance(v, Tup):
            return [(bool(v.items), st)]
        return self.undecided(test, st, ("truth", v, None))

    def undecided(self, test, st, vals=None):
        txt = ast.unparse(test)
        return [(True, st.fork(fact=(txt, True, test, vals))), (False, st.fork(fact=(txt, False, test, vals)))]

    def compare(self, test, st):
        op = test.ops[0]
        a = self.ev(test.left, st)
        b = self.ev(test.comparators[0], st)
        if self.cmp_hook is not None:
            r = self.cmp_hook(op, a, b, st, self)
            if r is not None:
                return [(bool(r), st)]
        if is_num(a) and is_num(b):
            return [(_num_cmp(op, a, b), st)]
        if isinstance(op, (ast.Is, ast.IsNot, ast.Eq, ast.NotEq)) and (a == Const(None) or b == Const(None)):
            other = b if a == Const(None) else a
            same = None
            if other == Const(None):
                same = True
            elif is_num(other) or is_str(other) or isinstance(other, (Tup, Param)) or (isinstance(other, Opaque) and other.name in ("field", "misread")):
                same = False
            if same is not None:
                return [(same == isinstance(op, (ast.Is, ast.Eq)), st)]
        if isinstance(a, Lit) and isinstance(b, Lit) and isinstance(op, (ast.Eq, ast.NotEq)):
            return [((a.s == b.s) == isinstance(op, ast.Eq), st)]
        if isinstance(a, Lit) and isinstance(b, Lit) and isinstance(op, (ast.In, ast.NotIn)):
            return [((a.s in b.s) == isinstance(op, ast.In), st)]
        if is_num(a) and not is_num(b) and type(op) in _FLIP:
            a, b, op = b, a, _FLIP[type(op)]()
        if is_num(b) and type(op) in _FLIP:
            shape = self._param_shape(a)
            if shape is not None:
                return self.split(shape, op, b, st)
        return self.undecided(test, st, (op, a, b))

    def _param_shape(self, v):
        if self.param is None:
            return None
        if v == Param(self.param):
            return "x"
        if v == Neg(Param(self.param)):
            return "-x"
        if v == Abs(Param(self.param)) or v == Abs(Neg(Param(self.param))):
            return "|x|"
        return None

    def split(self, shape, op, c, st):
        iv = st.iv
        if shape == "-x":
            op = _FLIP[type(op)]()
            c = -c
            shape = "x"
        out = []

        def add(truth, piece):
            if not piece.empty():
                out.append((truth, st.fork(iv=piece)))
        if shape == "x":
            if isinstance(op, ast.Lt):
                add(True, iv.below(c, False)); add(False, iv.above(c, True))
            elif isinstance(op, ast.LtE):
                add(True, iv.below(c, True)); add(False, iv.above(c, False))
            elif isinstance(op, ast.Gt):
                add(True, iv.above(c, False)); add(False, iv.below(c, True))
            elif isinstance(op, ast.GtE):
                add(True, iv.above(c, True)); add(False, iv.below(c, False))
            else:
                eq = isinstance(op, ast.Eq)
                add(eq, iv.below(c, True).above(c, True))
                add(not eq, iv.below(c, False)); add(not eq, iv.above(c, False))
            return out
        # |x| op c
        if isinstance(op, (ast.Lt, ast.LtE)):
            cl = isinstance(op, ast.LtE)
            if c < 0 or (c == 0 and not cl):
                return [(False, st)]
            add(True, iv.above(-c, cl).below(c, cl))
            add(False, iv.below(-c, not cl)); add(False, iv.above(c, not cl))
        elif isinstance(op, (ast.Gt, ast.GtE)):
            cl = isinstance(op, ast.GtE)
            if c < 0 or (c == 0 and cl):
                return [(True, st)]
            add(False, iv.above(-c, not cl).below(c, not cl))
            add(True, iv.below(-c, cl)); add(True, iv.above(c, cl))
        else:
            eq = isinstance(op, ast.Eq)
            if c < 0:
                return [(not eq, st)]
            add(eq, iv.below(c, True).above(c, True))
            if c != 0:
                add(eq, iv.below(-c, True).above(-c, True))
            add(not eq, iv.below(-c, False)); add(not eq, iv.above(-c, False).below(c, False)); add(not eq, iv.above(c, False))
        return out

    # ------------------------------------------------------------ followed calls
    def resolve_callee(self, node, st):
        """(name, function node) of the function a call node invokes and that is to be followed - a plain module-level function, or a
        function defined in the frame under evaluation - else None"""
        if self.inline is None or not isinstance(node.func, ast.Name):
            return None
        if any(isinstance(a, ast.Starred) for a in node.args) or any(k.arg is None for k in node.keywords):
            return None
        nm = node.func.id
        if nm in st.env:
            v = st.env[nm]
            if isinstance(v, FuncV):
                if v.owner != id(self) or len(self._stack) >= MAX_INLINE_DEPTH or ("<local>" + nm) in self._stack or not _plain_function(v.node):
                    return None
                return "<local>" + nm, v.node
            if not (isinstance(v, Opaque) and v.name.startswith("name:") and not v.args):
                return None
            nm = v.name[5:]                  # a local bound to a function of the module (a formatter handed down as an argument)
        fn = self.mod.funcs.get(nm)
        if fn is None or "." in nm or (nm + "#2") in self.mod.funcs or nm in self._stack or len(self._stack) >= MAX_INLINE_DEPTH:
            return None
        if not self.inline(nm) or not _plain_function(fn):
            return None
        return nm, fn

    def _inline_sites(self, expr, st):
        """calls to followed functions that are evaluated whenever `expr` is (not the right operands of and / or, the arms of a
        conditional expression, the element of a comprehension), innermost and leftmost first"""
        if self.inline is None:
            return []
        cand = getattr(expr, "_c12_sites", None)
        if cand is None:
            cand = []

            def visit(n):
                if isinstance(n, (ast.Lambda, ast.Constant, ast.Name)):
                    return
                if isinstance(n, (ast.ListComp, ast.SetComp, ast.DictComp, ast.GeneratorExp)):
                    visit(n.generators[0].iter)
                    return
                if isinstance(n, ast.BoolOp):
                    visit(n.values[0])
                    return
                if isinstance(n, ast.IfExp):
                    visit(n.test)
                    return
                if isinstance(n, ast.Compare) and len(n.ops) > 1:
                    visit(n.left)
                    visit(n.comparators[0])
                    return
                for c in ast.iter_child_nodes(n):
                    visit(c)
                if isinstance(n, ast.Call) and isinstance(n.func, ast.Name):
                    cand.append(n)
            visit(expr)
            expr._c12_sites = cand = tuple(cand)
        if not cand:
            return cand
        return [n for n in cand if self.resolve_callee(n, st) is not None]

    def prefork(self, sites, st):
        """evaluate the followed calls of an expression ahead of it: every path through a callee gives one state, in which the value
        of the call is remembered under the call node; paths on which the callee raises end the statement"""
        cur = [st]
        for node in sites:
            nxt = []
            for c in cur:
                nxt.extend(self._prefork_one(node, c))
            cur = nxt
        return cur

    def _prefork_one(self, node, st):
        key = _memo_key(node)
        st.env.pop(key, None)
        rc = self.resolve_callee(node, st)
        if rc is None:
            return [st]
        name, fn = rc
        try:
            args = [self._ev_u(a, st) for a in node.args]
            kw = {k.arg: self._ev_u(k.value, st) for k in node.keywords}
        except Raised as r:
            self._term.append((st, "exc", r.name))
            return []
        if self.call_hook is not None:
            r = self.call_hook(name, args, kw, node, st, self)
            if r is not NotImplemented:
                st.env[key] = r
                return [st]
        res = self.inline_call(name, fn, args, kw, st, node)
        if res is None:
            return [st]
        out = []
        for ns, o, pay in res:
            if o == "value":
                ns.env[key] = pay
                out.append(ns)
            else:
                self._term.append((ns, o, pay))
        return out

    def _ev_u(self, node, st):
        try:
            return self._ev(node, st)
        except Unsupported as e:
            return Unk(str(e))

    def bind_args(self, fn, args, kw):
        a = fn.args
        if a.vararg or a.kwarg:
            return None
        pos = [x.arg for x in a.posonlyargs + a.args]
        kwo = [x.arg for x in a.kwonlyargs]
        if len(args) > len(pos):
            return None
        env = dict(zip(pos, args))
        for k, v in kw.items():
            if k in env or k not in pos + kwo or k in [x.arg for x in a.posonlyargs]:
                return None
            env[k] = v
        dflt = dict(zip(pos[len(pos) - len(a.defaults):], a.defaults))
        dflt.update({k: d for k, d in zip(kwo, a.kw_defaults) if d is not None})
        for nm in pos + kwo:
            if nm in env:
                continue
            if nm not in dflt:
                return None
            try:
                v = Engine(self.ctx, self.rel, None)._ev(dflt[nm], State({}, Interval()))
            except (Raised, Unsupported):
                v = Unk("default")
            env[nm] = Opaque("default:" + nm, ()) if _has_unknown(v) or isinstance(v, Opaque) else v
        return env

    def inline_call(self, name, fn, args, kw, st, node):
        """evaluate a function of the module on the argument values, continuing the caller's path (interval, recorded tests, effects)
        -> [(caller state after the call, 'value' | 'raise' | 'exc', payload)] or None when the call cannot be bound"""
        env = self.bind_args(fn, args, kw)
        if env is None:
            return None
        closure = name.startswith("<local>")
        own = set()
        if closure:
            own = set(env) | {n.id for n in ast.walk(fn) if isinstance(n, ast.Name) and isinstance(n.ctx, (ast.Store, ast.Del))}
            env = {**{k: v for k, v in st.env.items() if not k.startswith("<call:")}, **env}      # free variables: the caller's locals
        else:
            self.ctx.src.funcs_consulted.add(f"{self.rel}:{name}")
        sub = type(self)(self.ctx, self.rel, fn, param=self.param, cond=self.cond_hook, call=self.call_hook, cmp=self.cmp_hook, length=self.len_hook,
                     follow=self.follow, post=self.post_hook, lenient=self.lenient, exceptions=self.exceptions, strict_locals=self._strict_flag,
                     inline=self.inline, _stack=self._stack + (name,))
        sub._modconst = self._modconst
        sub.nstates, sub.max_states = self.nstates, self.max_states
        effects = st.effects + ((name, tuple(args), tuple(sorted(kw.items())), node),)
        cst = State(env, st.iv, st.facts, effects)
        body = fn.body if isinstance(fn.body, list) else [ast.copy_location(ast.Return(value=fn.body), fn.body)]
        try:
            res = sub.block(body, cst)
        finally:
            self.nstates = sub.nstates
        use = _list_param_use(fn, self)
        names = [x.arg for x in fn.args.posonlyargs + fn.args.args]
        shared = []                          # (caller local, callee parameter): a list handed to the helper under a plain name
        for i, a in enumerate(node.args):
            if i < len(names) and isinstance(a, ast.Name) and isinstance(st.env.get(a.id), Tup):
                shared.append((a.id, names[i]))
        for k in node.keywords:
            if isinstance(k.value, ast.Name) and isinstance(st.env.get(k.value.id), Tup):
                shared.append((k.value.id, k.arg))
        out = []
        for s2, o, pay in res:
            ns = State(dict(st.env), s2.iv, s2.facts, s2.effects)
            if closure:
                # a list of the enclosing frame the nested function appended to (a free variable it does not rebind)
                for k, v in s2.env.items():
                    if k not in own and k in st.env and st.env[k] is not v and isinstance(st.env[k], Tup):
                        ns.env[k] = v
            for mine, theirs in shared:
                how = use.get(theirs, "pure")
                if how == "mutates":
                    v = s2.env.get(theirs)
                    ns.env[mine] = v if isinstance(v, Tup) else Unk("list altered by a helper")
                elif how == "escapes":
                    ns.env[mine] = Unk("list handed to a helper that may alter it")
            if o == "return":
                out.append((ns, "value", pay[0]))
            elif o == "next":
                out.append((ns, "value", Const(None)))
            elif o in ("raise", "exc"):
                out.append((ns, o, pay))
            else:
                raise Unsupported(f"{name}: {o} outside a loop")
        return out

    # ------------------------------------------------------------ expressions
    def ev(self, node, st):
        try:
            return self._ev(node, st)
        except Unsupported as e:
            return Unk(str(e))

    def tracked_locals(self):
        """locals of the function that are bound only by statements the engine follows (assignments, augmented assignments, for targets):
        such a name missing from the environment on a path whose tests were all decided has not been assigned on that path"""
        tl = getattr(self, "_tracked", None)
        if tl is None:
            plain, other = set(), set()
            params = {a.arg for a in ast.walk(self.fn.args) if isinstance(a, ast.arg)}
            for n in ast.walk(self.fn):
                if isinstance(n, (ast.Assign, ast.AugAssign, ast.AnnAssign, ast.For)):
                    tg = n.targets if isinstance(n, ast.Assign) else [n.target]
                    for t in tg:
                        for x in ast.walk(t):
                            if isinstance(x, ast.Name) and isinstance(x.ctx, ast.Store):
                                plain.add(x.id)
            for n in ast.walk(self.fn):
                if isinstance(n, (ast.With, ast.AsyncWith, ast.ListComp, ast.SetComp, ast.DictComp, ast.GeneratorExp, ast.NamedExpr, ast.Import,
                                  ast.ImportFrom, ast.Global, ast.Nonlocal, ast.Delete, ast.Try, ast.Match if hasattr(ast, "Match") else ast.Try)) \
                        or (isinstance(n, (ast.FunctionDef, ast.ClassDef, ast.Lambda)) and n is not self.fn):
                    for x in ast.walk(n):
                        if isinstance(x, ast.Name) and isinstance(x.ctx, (ast.Store, ast.Del)) and not isinstance(n, ast.Try):
                            other.add(x.id)
                        elif isinstance(x, ast.ExceptHandler) and x.name:
                            other.add(x.name)
                        elif isinstance(x, ast.alias):
                            other.add((x.asname or x.name).split(".")[0])
                        elif isinstance(x, (ast.Global, ast.Nonlocal)):
                            other.update(x.names)
            tl = self._tracked = plain - other - params
        return tl

    def known_names(self):
        """every name that is bound somewhere: builtins, module-level bindings (assignments, defs, classes, imports, anywhere at module
        level), and any name stored anywhere in the function (parameters, locals, loop / with / except / comprehension targets)"""
        kn = getattr(self, "_known", None)
        if kn is None:
            kn = set()
            for tree in (self.mod.tree, self.fn):
                cached = getattr(tree, "_c12_names", None)
                if cached is None:
                    cached = tree._c12_names = self._bound_in(tree)
                kn |= cached
            self._known = kn
        return kn

    @staticmethod
    def _bound_in(tree):
            import builtins
            kn = set(dir(builtins)) | {"__name__", "__file__", "__doc__", "__builtins__", "__spec__", "__package__", "__class__", "__debug__"}
            def walk(t, top):
                # module level: do not look into function / class bodies (their locals are not globals)
                stack = [t]
                while stack:
                    n = stack.pop()
                    yield n
                    for c in ast.iter_child_nodes(n):
                        if top and n is not t and isinstance(n, (ast.FunctionDef, ast.AsyncFunctionDef, ast.ClassDef, ast.Lambda)):
                            continue
                        stack.append(c)
            if True:
                for n in walk(tree, isinstance(tree, ast.Module)):
                    if isinstance(n, ast.Name) and isinstance(n.ctx, (ast.Store, ast.Del)):
                        kn.add(n.id)
                    elif isinstance(n, (ast.FunctionDef, ast.AsyncFunctionDef, ast.ClassDef)):
                        kn.add(n.name)
                    elif isinstance(n, ast.alias):
                        kn.add((n.asname or n.name).split(".")[0])
                        if n.name == "*":
                            kn.add("*")
                    elif isinstance(n, ast.arg):
                        kn.add(n.arg)
                    elif isinstance(n, ast.ExceptHandler) and n.name:
                        kn.add(n.name)
                    elif isinstance(n, (ast.Global, ast.Nonlocal)):
                        kn.update(n.names)
            return kn

    def module_const(self, name):
        if name in self._modconst:
            return self._modconst[name]
        self._modconst[name] = None
        val = None
        n = 0
        for s in self.mod.tree.body:
            tg = None
            if isinstance(s, ast.Assign) and len(s.targets) == 1 and isinstance(s.targets[0], ast.Name):
                tg, v = s.targets[0].id, s.value
            elif isinstance(s, ast.AnnAssign) and isinstance(s.target, ast.Name) and s.value is not None:
                tg, v = s.target.id, s.value
            if tg == name:
                n += 1
                val = v
        if n == 1:
            try:
                r = Engine(self.ctx, self.rel, None)._ev(val, State({}, Interval()))
            except (Raised, Unsupported):
                r = Unk("module constant")
            if not _has_unknown(r):
                self._modconst[name] = r
        return self._modconst[name]

    def _ev(self, node, st):
        if isinstance(node, ast.Constant):
            v = node.value
            if isinstance(v, str):
                return Lit(v)
            if isinstance(v, (int, float)) and not isinstance(v, bool):
                f = const_fraction(node)
                return f if f is not None else Unk("non-finite constant")
            return Const(v)
        if isinstance(node, ast.Name):
            if node.id in st.env:
                return st.env[node.id]
            mc = self.module_const(node.id)
            if mc is not None:
                return mc
            if self.fn is not None and node.id not in self.known_names() and "*" not in self.known_names():
                raise Raised("NameError")
            if self.strict_locals and node.id in self.tracked_locals():
                raise Raised("UnboundLocalError")    # a plain local read on a decided path before anything was assigned to it            # bound nowhere: not a local, not a module-level name, not a builtin
            return Opaque("name:" + node.id, ())
        if isinstance(node, ast.JoinedStr):
            return self.fstring(node, st)
        if isinstance(node, (ast.Tuple, ast.List)):
            return Tup(tuple(self._ev(e, st) for e in node.elts))
        if isinstance(node, ast.Dict):
            if any(k is None for k in node.keys):
                return Unk("dict unpacking")
            return DictV(tuple((self._ev(k, st), self._ev(v, st)) for k, v in zip(node.keys, node.values)))
        if isinstance(node, ast.UnaryOp) and isinstance(node.op, ast.Not):
            r = self.decide(node, st.fork())
            truths = {t for t, _ in r}
            if len(truths) == 1:
                return Const(truths.pop())
            return Opaque("test", (Lit(ast.unparse(node)),))
        if isinstance(node, ast.UnaryOp):
            v = self._ev(node.operand, st)
            if isinstance(node.op, ast.USub):
                if is_num(v):
                    return -v
                if isinstance(v, Neg):
                    return v.x
                return Neg(v)
            if isinstance(node.op, ast.UAdd):
                return v
            return Opaque("unary:" + type(node.op).__name__, (v,))
        if isinstance(node, ast.BinOp):
            return self.binop(node.op, self._ev(node.left, st), self._ev(node.right, st), st)
        if isinstance(node, ast.IfExp):
            r = self.decide(node.test, st.fork())
            truths = {t for t, _ in r}
            if truths == {True}:
                return self._ev(node.body, st)
            if truths == {False}:
                return self._ev(node.orelse, st)
            return Choice(ast.unparse(node.test), self._ev(node.body, st), self._ev(node.orelse, st))
        if isinstance(node, ast.Subscript):
            r = self.subscript(node, st)
            return self.post_hook(r, st, self) if self.post_hook is not None else r
        if isinstance(node, ast.Call):
            r = self.call(node, st)
            return self.post_hook(r, st, self) if self.post_hook is not None else r
        if isinstance(node, ast.Attribute):
            d = dotted(node)
            return Opaque("name:" + (d or ast.unparse(node)), ())
        if isinstance(node, (ast.Compare, ast.BoolOp)):
            r = self.decide(node, st.fork())
            truths = {t for t, _ in r}
            if len(truths) == 1:
                return Const(truths.pop())
            return Opaque("test", (Lit(ast.unparse(node)),))
        if isinstance(node, ast.Lambda):
            return FuncV(node, id(self))
        if isinstance(node, ast.Starred):
            return Unk("starred")
        if isinstance(node, (ast.ListComp, ast.GeneratorExp)) and len(node.generators) == 1 and not node.generators[0].is_async:
            g = node.generators[0]
            it = self._ev(g.iter, st)
            if not isinstance(it, Tup):
                return Unk("comprehension over a non-literal sequence")
            items = []
            inner = st.fork()
            for item in it.items:
                self.assign(g.target, item, inner)
                keep = True
                for c in g.ifs:
                    r = self.decide(c, inner.fork())
                    truths = {t for t, _ in r}
                    if len(truths) != 1:
                        return Unk(f"undecided filter {ast.unparse(c)}")
                    if not truths.pop():
                        keep = False
                        break
                if keep:
                    items.append(self._ev(node.elt, inner))
            return Tup(tuple(items))
        return Unk(f"expression {type(node).__name__}")

    def fstring(self, node, st):
        out = []
        for p in node.values:
            if isinstance(p, ast.Constant):
                out.append(Lit(p.value))
                continue
            arg = self._ev(p.value, st)
            conv = {-1: None, 115: "s", 114: "r", 97: "a"}.get(p.conversion)
            toks = []
            if p.format_spec is not None:
                for q in p.format_spec.values:
                    if isinstance(q, ast.Constant):
                        toks.append(q.value)
                    else:
                        inner = self._ev(q.value, st)
                        if q.format_spec is not None:
                            isp = "".join(x.value for x in q.format_spec.values if isinstance(x, ast.Constant))
                            if isp not in ("", "d") or len(q.format_spec.values) > 1:
                                return Unk("nested format spec")
                        if isinstance(inner, Lit):
                            toks.append(inner.s)
                        elif is_str(inner) or isinstance(inner, Unk):
                            return Unk("nested format field")
                        else:
                            toks.append(inner)
            sp = parse_spec(toks, conv)
            if sp is None:
                return Unk("format spec " + ast.unparse(p))
            out.append(make_fmt(sp, arg))
        if any(isinstance(o, Unk) for o in out):
            return next(o for o in out if isinstance(o, Unk))
        return cat(*out)

    def binop(self, op, a, b, st):
        if isinstance(a, Unk):
            return a
        if isinstance(b, Unk):
            return b
        if is_num(a) and is_num(b):
            try:
                if isinstance(op, ast.Add):
                    return a + b
                if isinstance(op, ast.Sub):
                    return a - b
                if isinstance(op, ast.Mult):
                    return a * b
                if isinstance(op, ast.Div):
                    return a / b
                if isinstance(op, ast.FloorDiv):
                    return Fraction(a // b)
                if isinstance(op, ast.Mod):
                    return a % b
                if isinstance(op, ast.Pow) and b.denominator == 1 and abs(b) < 400:
                    return a ** int(b)
            except ZeroDivisionError:
                return Unk("division by zero")
        if isinstance(op, ast.Add):
            if (is_str(a) or isinstance(a, Choice)) and (is_str(b) or isinstance(b, Choice)):
                return cat(a, b)
            if isinstance(a, Tup) and isinstance(b, Tup):
                return Tup(a.items + b.items)
        if isinstance(op, ast.Mult):
            if is_str(b) and not is_str(a):
                a, b = b, a
            if is_str(a):
                n = as_int(b)
                if isinstance(a, Lit) and n is not None:
                    return Lit(a.s * n)
                return Rep(a, b)
            if isinstance(a, Tup) and as_int(b) is not None:
                return Tup(a.items * as_int(b))
        if isinstance(op, ast.Mod) and is_str(a):
            return percent_format(a, b)
        if (is_str(a) or is_str(b)) and (isinstance(op, (ast.Sub, ast.Div, ast.FloorDiv, ast.Pow)) or
                                         (isinstance(op, ast.Add) and (is_num(a) or is_num(b))) or
                                         (isinstance(op, ast.Mult) and is_str(a) and is_str(b))):
            raise Raised("TypeError")                # text combined with an arithmetic operator
        return Opaque("binop:" + type(op).__name__, (a, b))

    def subscript(self, node, st):
        base = self._ev(node.value, st)
        sl = node.slice
        if isinstance(sl, ast.Slice):
            if sl.step is not None:
                return Unk("slice step")
            lo = self._ev(sl.lower, st) if sl.lower is not None else None
            hi = self._ev(sl.upper, st) if sl.upper is not None else None
            li, hi_i = (None if lo is None else as_int(lo)), (None if hi is None else as_int(hi))
            concrete = (lo is None or li is not None) and (hi is None or hi_i is not None)
            if isinstance(base, Tup) and concrete:
                return Tup(base.items[slice(li, hi_i)])
            if isinstance(base, Lit) and concrete:
                return Lit(base.s[slice(li, hi_i)])
            if is_str(base) or isinstance(base, (Param, Opaque)):
                if lo is not None and li == 0:
                    lo = None
                return Slice(base, lo, hi)
            return Unk("slice of " + type(base).__name__)
        ix = self._ev(sl, st)
        i = as_int(ix)
        if isinstance(base, Tup) and i is not None:
            try:
                return base.items[i]
            except IndexError:
                return Unk("index out of range")
        if isinstance(base, DictV):
            for k, v in base.items:
                if k == ix:
                    return v
            return Unk("dict key")
        if isinstance(base, Lit) and i is not None:
            try:
                return Lit(base.s[i])
            except IndexError:
                return Unk("index out of range")
        if is_str(base) and i is not None and i >= 0:
            return Slice(base, Fraction(i) if i else None, Fraction(i + 1))
        return Opaque("idx", (base, ix))

    # ------------------------------------------------------------ calls
    def call(self, node, st):
        key = _memo_key(node)
        if key in st.env:
            return st.env[key]               # a followed call evaluated ahead of its statement
        name = dotted(node.func)
        root = node.func
        while isinstance(root, ast.Attribute):
            root = root.value
        if isinstance(root, ast.Name) and root.id not in st.env and self.fn is not None and root.id not in self.known_names() \
                and "*" not in self.known_names():
            raise Raised("NameError")
        if any(isinstance(a, ast.Starred) for a in node.args) or any(k.arg is None for k in node.keywords):
            args, kw = None, None
        else:
            args = [self._ev(a, st) for a in node.args]
            kw = {k.arg: self._ev(k.value, st) for k in node.keywords}
        if args is None:
            st.effects = st.effects + ((name or ast.unparse(node.func), None, None, node),)
            return Unk("star arguments")
        if self.call_hook is not None:
            r = self.call_hook(name, args, kw, node, st, self)
            if r is not NotImplemented:
                return r
        if isinstance(node.func, ast.Attribute) and isinstance(node.func.value, ast.Name) and isinstance(st.env.get(node.func.value.id), Tup) \
                and node.func.attr in ("append", "extend") and len(args) == 1 and not kw:
            cur = st.env[node.func.value.id]
            if node.func.attr == "append":
                st.env[node.func.value.id] = Tup(cur.items + (args[0],))
                return Const(None)
            if isinstance(args[0], Tup):
                st.env[node.func.value.id] = Tup(cur.items + args[0].items)
                return Const(None)
            st.env[node.func.value.id] = Unk("extend by a non-literal")
            return Const(None)
        rc = self.resolve_callee(node, st)
        if rc is not None:
            # a followed call in a position that is not evaluated ahead (arm of a conditional expression, comprehension element ...):
            # followed when the callee has one outcome for these arguments
            r = self._inline_single(rc[0], rc[1], args, kw, st, node)
            if r is not NotImplemented:
                return r
        # a local bound to a function of the module (a formatter passed as argument)
        if isinstance(node.func, ast.Name) and isinstance(st.env.get(node.func.id), Opaque) and st.env[node.func.id].name.startswith("name:") \
                and st.env[node.func.id].name[5:] in self.mod.funcs and not kw:
            return CallS(st.env[node.func.id].name[5:], tuple(args))
        # methods of string values (receiver evaluated, not named)
        if isinstance(node.func, ast.Attribute):
            recv_known = isinstance(node.func.value, ast.Name) and node.func.value.id in st.env or not isinstance(node.func.value, ast.Name) \
                or self.module_const(node.func.value.id) is not None
            if recv_known:
                recv = self._ev(node.func.value, st)
                if is_str(recv) or isinstance(recv, (Choice, Tup)) or (isinstance(recv, Opaque) and recv.name == "field"):
                    r = self.str_method(recv, node.func.attr, args, kw, st)
                    if r is not NotImplemented:
                        return r
        if name in _BUILTINS and not kw:
            r = getattr(self, "b_" + name)(args, st)
            if r is not NotImplemented:
                return r
        r = self.regex_call(name, node, args, kw, st)
        if r is not NotImplemented:
            return r
        if name == "format" and len(args) == 2:
            toks = _tokens(args[1])
            return make_fmt(parse_spec(toks) if toks is not None else None, args[0])
        st.effects = st.effects + ((name or ast.unparse(node.func), tuple(args), tuple(sorted(kw.items())), node),)
        if name is not None and "." not in name and name in self.mod.funcs and name not in st.env:
            if kw:
                fn = self.mod.funcs[name]
                names = [a.arg for a in fn.args.args]
                full = list(args) + [None] * (len(names) - len(args))
                for k, v in kw.items():
                    if k in names:
                        full[names.index(k)] = v
                if None not in full:
                    args = full
            return CallS(name, tuple(args))
        return Opaque("call:" + (name or ast.unparse(node.func)), tuple(args) + tuple(Opaque("kw:" + k, (v,)) for k, v in sorted(kw.items())))

    def _inline_single(self, name, fn, args, kw, st, node):
        trial = State(dict(st.env), st.iv, st.facts, st.effects)
        saved, self._term = self._term, []
        try:
            res = self.inline_call(name, fn, args, kw, trial, node)
        finally:
            self._term = saved
        if not res:
            return NotImplemented
        vals = [r for r in res if r[1] == "value"]
        excs = [r for r in res if r[1] == "exc"]
        if len(res) == len(excs) and len({r[2] for r in excs}) == 1:
            raise Raised(excs[0][2])
        if len(vals) != len(res) or any(r[2] != vals[0][2] for r in vals):
            return NotImplemented
        if len(vals) > 1 and any((r[0].facts, r[0].effects, repr(r[0].iv)) != (vals[0][0].facts, vals[0][0].effects, repr(vals[0][0].iv)) for r in vals):
            return NotImplemented
        ns = vals[0][0]
        st.env.update({k: v for k, v in ns.env.items() if st.env.get(k) is not v})
        st.iv, st.facts, st.effects = ns.iv, ns.facts, ns.effects
        return vals[0][2]

    def regex_call(self, name, node, args, kw, st):
        """re.compile / re.sub / re.match ... and the methods of a compiled pattern, on literal patterns and literal text (the standard
        library's `re` is applied to the literals)"""
        import re
        flags = 0
        if kw:
            return NotImplemented

        def lit(v):
            return v.s if isinstance(v, Lit) else None
        pat = None
        meth = None
        rest = None
        if name in ("re.compile",) and args and lit(args[0]) is not None and len(args) == 1:
            try:
                return Const(re.compile(args[0].s))
            except re.error:
                return Unk("regular expression")
        if name is not None and name.startswith("re.") and name[3:] in ("sub", "match", "search", "fullmatch") and args and lit(args[0]) is not None:
            try:
                pat = re.compile(args[0].s)
            except re.error:
                return Unk("regular expression")
            meth, rest = name[3:], args[1:]
        elif isinstance(node.func, ast.Attribute) and node.func.attr in ("sub", "match", "search", "fullmatch"):
            recv = self._ev(node.func.value, st)
            if isinstance(recv, Const) and isinstance(recv.value, re.Pattern):
                pat, meth, rest = recv.value, node.func.attr, args
        if pat is None:
            return NotImplemented
        if not all(lit(a) is not None for a in rest):
            return Unk("regular expression on non-literal text")
        try:
            if meth == "sub" and len(rest) == 2:
                return Lit(pat.sub(rest[0].s, rest[1].s))
            if meth in ("match", "search", "fullmatch") and len(rest) == 1:
                m = getattr(pat, meth)(rest[0].s)
                return Const(None) if m is None else Const(m)
        except re.error:
            return Unk("regular expression")
        return NotImplemented

    def str_method(self, recv, meth, args, kw, st):
        if isinstance(recv, Choice):
            a = self.str_method(recv.a, meth, args, kw, st)
            b = self.str_method(recv.b, meth, args, kw, st)
            if a is NotImplemented or b is NotImplemented:
                return NotImplemented
            return Choice(recv.test, a, b)
        if isinstance(recv, Tup):
            return NotImplemented
        if meth in ("strip", "lstrip", "rstrip") and len(args) <= 1 and not kw:
            chars = None
            if args:
                if isinstance(args[0], Const) and args[0].value is None:
                    chars = None
                elif isinstance(args[0], Lit):
                    chars = args[0].s
                else:
                    return Unk("strip characters")
            side = {"strip": "b", "lstrip": "l", "rstrip": "r"}[meth]
            if isinstance(recv, Lit):
                return Lit(getattr(recv.s, meth)(chars))
            return Strip(recv, chars, side)
        if meth == "replace" and len(args) == 2 and all(isinstance(a, Lit) for a in args):
            if isinstance(recv, Lit):
                return Lit(recv.s.replace(args[0].s, args[1].s))
            return Replace(recv, args[0].s, args[1].s)
        if meth == "format":
            return template_format(recv, args, kw)
        if meth in ("split", "rsplit", "partition", "rpartition") and args and isinstance(args[0], Lit) and not kw:
            sep = args[0].s
            if isinstance(recv, Lit):
                r = getattr(recv.s, meth)(sep, *[as_int(a) for a in args[1:]])
                return Tup(tuple(Lit(x) for x in r))
            head, tail = Piece(recv, sep, "head"), Piece(recv, sep, "tail")
            if meth in ("partition", "rpartition"):
                return Tup((head, Lit(sep), tail))
            return Tup((head, tail))
        if meth in ("rjust", "ljust", "center") and args and not kw:
            fill = " "
            if len(args) == 2:
                if not (isinstance(args[1], Lit) and len(args[1].s) == 1):
                    return Unk("fill character")
                fill = args[1].s
            return make_fmt(Spec(fill=fill, align={"rjust": ">", "ljust": "<", "center": "^"}[meth], width=args[0], typ="s"), recv)
        if meth == "join" and len(args) == 1 and isinstance(args[0], Tup):
            parts = []
            for i, x in enumerate(args[0].items):
                if i:
                    parts.append(recv)
                parts.append(x)
            if all(is_str(p) for p in parts):
                return cat(*parts)
            return Unk("join of non-strings")
        if meth in ("lower", "upper") and not args:
            return Lit(getattr(recv.s, meth)()) if isinstance(recv, Lit) else CaseOf(recv, meth)
        if meth in ("index", "find", "rfind", "rindex", "count", "startswith", "endswith", "isdigit"):
            if isinstance(recv, Lit) and all(isinstance(a, Lit) for a in args):
                try:
                    r = getattr(recv.s, meth)(*[a.s for a in args])
                except ValueError:
                    return Unk("substring not found")
                return Const(r) if isinstance(r, bool) else Fraction(r)
            return Opaque("." + meth, (recv,) + tuple(args))
        if meth == "expandtabs":
            return recv if isinstance(recv, Lit) and "\t" not in recv.s else Opaque(".expandtabs", (recv,))
        return NotImplemented

    # builtins
    def b_abs(self, a, st):
        if len(a) != 1:
            return NotImplemented
        return abs(a[0]) if is_num(a[0]) else Abs(a[0])

    def b_round(self, a, st):
        if len(a) == 1:
            return Fraction(round(a[0])) if is_num(a[0]) else Round(a[0], True)
        if len(a) == 2 and a[1] == 0:
            return Fraction(round(a[0])) if is_num(a[0]) else Round(a[0], False)
        return NotImplemented

    def b_int(self, a, st):
        if len(a) != 1:
            return NotImplemented
        if is_num(a[0]):
            return Fraction(int(a[0]))
        if isinstance(a[0], Lit):
            try:
                return Fraction(int(a[0].s))
            except ValueError:
                if self.exceptions:
                    raise Raised("ValueError")
                return Unk("int of text")
        return IntOf(a[0])

    def b_float(self, a, st):
        if len(a) != 1:
            return NotImplemented
        if is_num(a[0]) or isinstance(a[0], (Param, Neg, Abs, Round)):
            return a[0]
        if isinstance(a[0], Lit):
            if self.exceptions:
                try:
                    f = float(a[0].s)
                except ValueError:
                    raise Raised("ValueError")
                if f != f or f in (float("inf"), float("-inf")):
                    return Unk("non-finite float")
                return Fraction(f)
            try:
                return Fraction(a[0].s.strip())
            except (ValueError, ZeroDivisionError):
                return Unk("float of text")
        return FloatOf(a[0])

    def b_str(self, a, st):
        if len(a) != 1:
            return NotImplemented
        if is_str(a[0]):
            return a[0]
        i = as_int(a[0])
        if i is not None:
            return Lit(str(i))
        return StrOf(a[0])

    def b_len(self, a, st):
        if len(a) != 1:
            return NotImplemented
        if a[0] == Const(None) or is_num(a[0]):
            raise Raised("TypeError")
        if isinstance(a[0], Lit):
            return Fraction(len(a[0].s))
        if isinstance(a[0], Tup):
            return Fraction(len(a[0].items))
        if isinstance(a[0], Cat):
            parts = [self.b_len([p], st) for p in a[0].parts]
            if all(is_num(p) for p in parts):
                return sum(parts, Fraction(0))
        if self.len_hook is not None:
            r = self.len_hook(a[0], st, self)
            if r is not None:
                return r
        return Len(a[0])

    def b_min(self, a, st):
        xs = list(a[0].items) if len(a) == 1 and isinstance(a[0], Tup) else a
        return min(xs) if xs and all(is_num(x) for x in xs) else NotImplemented

    def b_max(self, a, st):
        xs = list(a[0].items) if len(a) == 1 and isinstance(a[0], Tup) else a
        return max(xs) if xs and all(is_num(x) for x in xs) else NotImplemented

    def b_divmod(self, a, st):
        if len(a) == 2 and is_num(a[0]) and is_num(a[1]) and a[1] != 0:
            return Tup((Fraction(a[0] // a[1]), a[0] % a[1]))
        return NotImplemented

    def b_range(self, a, st):
        ints = [as_int(x) for x in a]
        if not a or any(i is None for i in ints) or len(list(range(*ints))) > 400:
            return NotImplemented
        return Tup(tuple(Fraction(i) for i in range(*ints)))

    def b_enumerate(self, a, st):
        if len(a) >= 1 and isinstance(a[0], Tup) and (len(a) == 1 or as_int(a[1]) is not None):
            k0 = as_int(a[1]) if len(a) == 2 else 0
            return Tup(tuple(Tup((Fraction(i + k0), x)) for i, x in enumerate(a[0].items)))
        return NotImplemented

    def b_zip(self, a, st):
        if a and all(isinstance(x, Tup) for x in a):
            return Tup(tuple(Tup(t) for t in zip(*[x.items for x in a])))
        return NotImplemented

    def b_reversed(self, a, st):
        return Tup(tuple(reversed(a[0].items))) if len(a) == 1 and isinstance(a[0], Tup) else NotImplemented

    def b_tuple(self, a, st):
        return a[0] if len(a) == 1 and isinstance(a[0], Tup) else (Tup(()) if not a else NotImplemented)

    b_list = b_tuple
    b_sorted = lambda self, a, st: (Tup(tuple(sorted(a[0].items))) if len(a) == 1 and isinstance(a[0], Tup) and all(is_num(x) for x in a[0].items)
                                    else NotImplemented)

    def b_repr(self, a, st):
        return Fmt(Spec(conv="r"), a[0]) if len(a) == 1 else NotImplemented


_BUILTINS = {"divmod", "abs", "round", "int", "float", "str", "len", "min", "max", "range", "enumerate", "zip", "reversed", "tuple", "list", "sorted", "repr"}


def _tokens(v):
    from .c12_str import tokens_of
    return tokens_of(v)


def _num_cmp(op, a, b):
    if isinstance(op, ast.Lt):
        return a < b
    if isinstance(op, ast.LtE):
        return a <= b
    if isinstance(op, ast.Gt):
        return a > b
    if isinstance(op, ast.GtE):
        return a >= b
    if isinstance(op, (ast.Eq, ast.Is)):
        return a == b
    if isinstance(op, (ast.NotEq, ast.IsNot)):
        return a != b
    raise Unsupported("comparison operator")


def _load(t):
    import copy
    n = copy.copy(t)
    n.ctx = ast.Load()
    return n


def _has_unknown(v):
    if isinstance(v, Unk):
        return True
    if isinstance(v, Tup):
        return any(_has_unknown(x) for x in v.items)
    if isinstance(v, DictV):
        return any(_has_unknown(k) or _has_unknown(x) for k, x in v.items)
    return False


def walk_value(v):
    """all nodes of an abstract value"""
    yield v
    if isinstance(v, V) and hasattr(v, "__dataclass_fields__"):
        for f in v.__dataclass_fields__:
            x = getattr(v, f)
            if isinstance(x, V):
                yield from walk_value(x)
            elif isinstance(x, tuple):
                for y in x:
                    if isinstance(y, V):
                        yield from walk_value(y)
                    elif isinstance(y, tuple):
                        for z in y:
                            if isinstance(z, V):
                                yield from walk_value(z)
            elif isinstance(x, Spec):
                for g in (x.width, x.prec):
                    if isinstance(g, V):
                        yield from walk_value(g)
