"""Self-test recipes for C09 (same tuple format as selftest.RECIPES): text edits of /repo that must be reported (break) or must stay
silent (neutral).  The old text occurs exactly once in the file."""

_POOL_NOIC = ("                processes=ncpu, initializer=_mk_par_globals, initargs=gvars\n            ) as pool:\n"
              "                for _ in pool.imap_unordered(func, zip(range(LF), it.repeat(args, LF))):\n                    pass\n")
_POOL_FDE = ("        ) as pool:\n            for _ in pool.imap_unordered(func, zip(range(LF), it.repeat(args, LF))):\n                pass\n"
             "        ASV = _to_np_array(ASV)\n")
_DOSRS_TAIL = "    SRSmax_[j] = methfunc(resphist[S:])\n    HIST_[:, :, j] = resphist[S:]\n\n\ndef _mk_par_globals_ic"
_NOHIST_TAIL = "    resphist = signal.lfilter(b, a, SIG_, axis=0)\n    SRSmax_[j] = methfunc(resphist[S:])\n\n\ndef _dosrs(args):"

_SER_COUNT = "            for jj in range(nbins):\n                pv = amp >= BinAmps[j, jj]\n                Count[j, jj] = np.sum(count[pv])\n"
_PAR_COUNT = "    for jj in range(BinAmps_.shape[1]):\n        pv = amp >= BinAmps_[j, jj]\n        Count_[j, jj] = np.sum(count[pv])\n"
_FDE_INIT = ("    global WN_, SIG_, ASV_, BinAmps_, Count_\n    WN_ = _to_np_array(wn)\n    SIG_ = _to_np_array(sig)\n    ASV_ = _to_np_array(asv)\n"
             "    BinAmps_ = _to_np_array(binamps)\n    Count_ = _to_np_array(count)\n")

RECIPES = [
    # ---- behaviour-breaking
    ("C09", "break", ["C09-R4"], "pyyeti/fdepsd.py", _POOL_FDE,
     "        ) as pool:\n            res = pool.imap_unordered(func, zip(range(LF), it.repeat(args, LF)))\n            a += 0.0\n"
     "            for _ in res:\n                pass\n        ASV = _to_np_array(ASV)\n", "parent writes a shared buffer while the tasks run"),
    ("C09", "break", ["C09-R4"], "pyyeti/srs.py", _POOL_NOIC,
     "                processes=ncpu, initializer=_mk_par_globals, initargs=gvars\n            ) as pool:\n"
     "                pool.imap_unordered(func, zip(range(LF), it.repeat(args, LF)))\n", "result iterator never consumed before the pool is shut down"),
    ("C09", "break", ["C09-R4"], "pyyeti/fdepsd.py", "    Count_ = _to_np_array(count)\n", "    Count_ = _to_np_array(count)\n    BinAmps_ += 0.0\n",
     "pool initializer writes shared memory (every late worker redoes it)"),
    ("C09", "break", ["C09-R2", "C09-R1"], "pyyeti/srs.py", _NOHIST_TAIL,
     "    resphist = signal.lfilter(b, a, SIG_, axis=0)\n    np.abs(SIG_, out=SIG_)\n    SRSmax_[j] = methfunc(resphist[S:])\n\n\ndef _dosrs(args):",
     "shared input overwritten through out="),
    ("C09", "break", ["C09-R5"], "pyyeti/srs.py", "            SIG = (copyToSharedArray(sig), sig.shape)\n            args = (coeffunc, Q, 1 / sr, methfunc, S)\n",
     "            SIG = (copyToSharedArray(sig[::-1]), sig.shape)\n            args = (coeffunc, Q, 1 / sr, methfunc, S)\n", "another signal copied to shared memory"),
    ("C09", "break", ["C09-R5"], "pyyeti/fdepsd.py", "        args = (coeffunc, Q, dT, verbose)\n", "        args = (coeffunc, Q * 1.0000001, dT, verbose)\n",
     "task argument differs from the serial loop's"),
    ("C09", "break", ["C09-R4b"], "pyyeti/fdepsd.py", "    return np.frombuffer(sh_arr[0]).reshape(sh_arr[1])", "    return np.frombuffer(sh_arr[0], dtype=np.float32).reshape(sh_arr[1])",
     "shared buffer read through a float32 view"),
    ("C09", "break", ["C09-R1", "C09-R5"], "pyyeti/srs.py", _DOSRS_TAIL,
     "    SRSmax_[j - 1] = methfunc(resphist[S:])\n    HIST_[:, :, j] = resphist[S:]\n\n\ndef _mk_par_globals_ic", "task writes its neighbour's row"),
    ("C09", "break", ["C09-R4", "C09-R5"], "pyyeti/srs.py", "        HIST = (None, None)\n", "        HIST = (None, None)\n        getresp = not getresp\n",
     "history worker selected without a history buffer"),
    ("C09", "break", ["C09-R4b", "C09-R5"], "pyyeti/srs.py", "                HIST = (createSharedArray((N - M, H, LF)), (N - M, H, LF))\n",
     "                HIST = (createSharedArray((N - M, H, LF)), (N, H, LF))\n", "history buffer viewed with another shape than allocated"),
    ("C09", "break", ["C09-R5"], "pyyeti/srs.py", "                HIST = (createSharedArray((N, H, LF)), (N, H, LF))\n",
     "                HIST = (createSharedArray((H, N, LF)), (H, N, LF))\n", "parallel history array shaped differently from the serial one"),
    # ---- behaviour-preserving
    ("C09", "neutral", [], "pyyeti/fdepsd.py", "    ASV_[0, j] = amp.max()\n    BinAmps_[j] *= ASV_[0, j]\n",
     "    top = amp.max()\n    ASV_[0, j] = top\n    row = BinAmps_[j]\n    row *= top\n", "row view and temporary in the worker"),
    ("C09", "neutral", [], "pyyeti/srs.py", _POOL_NOIC,
     "                processes=ncpu, initializer=_mk_par_globals, initargs=gvars\n            ) as pool:\n"
     "                pool.map(func, zip(range(LF), it.repeat(args, LF)))\n", "pool.map instead of draining imap_unordered"),
    ("C09", "neutral", [], "pyyeti/srs.py", _DOSRS_TAIL,
     "    SRSmax_[j] = methfunc(resphist[S:])\n    if HIST_ is not None:\n        HIST_[:, :, j] = resphist[S:]\n\n\ndef _mk_par_globals_ic",
     "history store guarded by a test of the (freshly forked) global"),
    ("C09", "neutral", [], "pyyeti/srs.py", _NOHIST_TAIL,
     "    resphist = signal.lfilter(b, a, SIG_, axis=0)\n    SRSmax_[j] = methfunc(resphist[S:])\n    return j\n\n\ndef _dosrs(args):",
     "worker returns its index, the parent drops it"),
    ("C09", "neutral", [], "pyyeti/fdepsd.py", "        a += np.arange(nbins, dtype=float) / nbins\n", "        a[...] = a + np.arange(nbins, dtype=float) / nbins\n",
     "in-place add written as a full-slice store"),
    ("C09", "neutral", [], "pyyeti/srs.py", "    a[:] = arr\n    return shared_arr\n", "    a[...] = arr\n    return shared_arr\n", "Ellipsis store in copyToSharedArray"),
    ("C09", "neutral", [], "pyyeti/fdepsd.py", "            resphist = signal.lfilter(b, a, sig)\n            SRSmax[j] = abs(resphist).max()\n",
     "            resphist = signal.lfilter(b, a, sig)\n            peak = np.abs(resphist).max()\n            SRSmax[j] = peak\n", "np.abs / temporary in the serial loop only"),
    # ---- pass 2: behaviour-preserving
    ("C09", "neutral", [], "pyyeti/fdepsd.py", _SER_COUNT,
     "            jj = 0\n            while jj < nbins:\n                pv = amp >= BinAmps[j, jj]\n                Count[j, jj] = np.sum(count[pv])\n                jj += 1\n",
     "counted while loop in the serial arm only"),
    ("C09", "neutral", [], "pyyeti/fdepsd.py", _PAR_COUNT, "    Count_[j] = [np.sum(count[amp >= binamp]) for binamp in BinAmps_[j]]\n",
     "row filled from a list comprehension in the worker only"),
    ("C09", "neutral", [], "pyyeti/fdepsd.py", _FDE_INIT,
     "    g = globals()\n    for name, spec in zip((\"WN_\", \"SIG_\", \"ASV_\", \"BinAmps_\", \"Count_\"), (wn, sig, asv, binamps, count)):\n"
     "        g[name] = _to_np_array(spec)\n", "initializer binds the process globals through globals() in a loop over literal tuples"),
    ("C09", "neutral", [], "pyyeti/fdepsd.py", "    resphist = signal.lfilter(b, a, SIG_)\n    ASV_[1, j] = abs(resphist).max()\n",
     "    resphist = signal.lfilter(b, a, SIG_, axis=-1, zi=None)\n    ASV_[1, j] = np.max(np.abs(resphist), axis=None)\n",
     "library defaults spelled out and function form of a reduction in the worker only"),
    ("C09", "neutral", [], "pyyeti/srs.py", "            func = _dosrs if getresp else _dosrs_nohist\n",
     "            func = (_dosrs_nohist, _dosrs)[bool(getresp)]\n", "worker picked from a pair by a test"),
    ("C09", "neutral", [], "pyyeti/fdepsd.py", "        ASV = (srs.createSharedArray((3, LF)), (3, LF))\n",
     "        mk = lambda *shp: (srs.createSharedArray(shp), shp)\n        ASV = mk(3, LF)\n", "buffer/shape pair built by a local lambda"),
    ("C09", "neutral", [], "pyyeti/srs.py", "            with mp.Pool(\n" + _POOL_NOIC,
     "            pool = mp.Pool(ncpu, _mk_par_globals, gvars)\n            list(pool.imap_unordered(func, enumerate(it.repeat(args, LF)), chunksize=1))\n"
     "            pool.close()\n            pool.join()\n", "positional Pool arguments, list() drain, close/join instead of the context manager"),
    ("C09", "neutral", [], "pyyeti/fdepsd.py", "        args = (coeffunc, Q, dT, verbose)\n        gvars = (WN, SIG, ASV, BinAmps, Count)\n",
     "        args = (coeffunc, Q, dT, verbose)\n        specs = dict(wn=WN, sig=SIG, asv=ASV, binamps=BinAmps, count=Count)\n"
     "        gvars = tuple(specs[k] for k in (\"wn\", \"sig\", \"asv\", \"binamps\", \"count\"))\n", "initargs assembled from a dict by a comprehension over a literal tuple"),
    ("C09", "neutral", [], "pyyeti/fdepsd.py", "        Amax = np.zeros(LF)\n        SRSmax = np.zeros(LF)\n        Var = np.zeros(LF)\n",
     "        Amax, SRSmax, Var = np.zeros((3, LF), dtype=float)\n", "serial arm keeps the three spectra as rows of one array, like the shared ASV"),
    # ---- pass 2: behaviour-breaking siblings
    ("C09", "break", ["C09-R5"], "pyyeti/fdepsd.py", _SER_COUNT,
     "            jj = 0\n            while jj < nbins - 1:\n                pv = amp >= BinAmps[j, jj]\n                Count[j, jj] = np.sum(count[pv])\n                jj += 1\n",
     "serial while loop stops one bin early"),
    ("C09", "break", ["C09-R5"], "pyyeti/fdepsd.py", _PAR_COUNT, "    Count_[j] = [np.sum(count[amp > binamp]) for binamp in BinAmps_[j]]\n",
     "comprehension in the worker counts with > instead of >="),
    ("C09", "break", ["C09-R5", "C09-R4b"], "pyyeti/fdepsd.py", _FDE_INIT,
     "    g = globals()\n    for name, spec in zip((\"SIG_\", \"WN_\", \"ASV_\", \"BinAmps_\", \"Count_\"), (wn, sig, asv, binamps, count)):\n"
     "        g[name] = _to_np_array(spec)\n", "globals() initializer binds signal and frequencies crosswise"),
    ("C09", "break", ["C09-R4", "C09-R5"], "pyyeti/srs.py", "            func = _dosrs if getresp else _dosrs_nohist\n",
     "            func = (_dosrs, _dosrs_nohist)[bool(getresp)]\n", "pair indexed the wrong way round: history worker without a history buffer"),
    ("C09", "break", ["C09-R5"], "pyyeti/srs.py", _NOHIST_TAIL,
     "    resphist = signal.lfilter(b, a, SIG_, axis=1)\n    SRSmax_[j] = methfunc(resphist[S:])\n\n\ndef _dosrs(args):", "worker filters along the other axis"),
    ("C09", "break", ["C09-R5"], "pyyeti/fdepsd.py", "    resphist = signal.lfilter(b, a, SIG_)\n    ASV_[1, j] = abs(resphist).max()\n",
     "    resphist = signal.lfilter(b, a, SIG_)\n    ASV_[1, j] = np.max(np.abs(resphist), axis=0)\n", "reduction with a non-default axis in the worker only"),
    ("C09", "break", ["C09-R3", "C09-R5"], "pyyeti/fdepsd.py", _POOL_FDE,
     "        ) as pool:\n            for _ in pool.imap_unordered(func, zip(range(LF - 1), it.repeat(args, LF))):\n                pass\n"
     "        ASV = _to_np_array(ASV)\n", "one task too few: the last frequency is never computed (sibling of seed H)"),
    ("C09", "break", ["C09-R5"], "pyyeti/srs.py", _DOSRS_TAIL,
     "    if WN_[j] == 0:\n        return\n    SRSmax_[j] = methfunc(resphist[S:])\n    HIST_[:, :, j] = resphist[S:]\n\n\ndef _mk_par_globals_ic",
     "task skips the rigid-body line the serial loop computes (sibling of seed F)"),
    ("C09", "break", ["C09-R4b"], "pyyeti/srs.py", "    a = np.frombuffer(shared_arr).reshape(arr.shape)\n    a[:] = arr\n",
     "    a = np.frombuffer(shared_arr, dtype=arr.dtype).reshape(arr.shape)\n    a[:] = arr\n", "shared buffer filled through a view with the input's dtype (sibling of seed G)"),
]
