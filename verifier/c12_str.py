"""C12 helper -- abstract string values and format-spec semantics.

A string computed by the formatters / card writers is represented by *what it is made of*, not by how the source spells it:

    Lit('abc')                         a known text
    Fmt(Spec, arg)                     format(arg, spec)      <- f"{arg:spec}", "{:spec}".format(arg), "%spec" % arg, format(arg, "spec"),
                                                                 arg.rjust(8) ... all give the same node
    Cat((a, b, ...))                   a + b + ...            <- `+`, adjacent pieces of an f-string, "".join([...])
    Strip(s, chars, side)              s.strip(chars) / lstrip / rstrip
    Replace(s, old, new), Slice(s, lo, hi), Rep(s, n)
    Piece(s, which)                    one side of s.split('e') / partition('e') of an exponent-format rendering
    StrOf(x)                           str(x)
    CallS(name, args)                  result of a call to another function of the module

Numbers are exact `Fraction`s when known, otherwise small symbolic nodes (Param, Neg, Abs, Round, IntOf, FloatOf, ExpInt, Len).
Nothing here looks at source text; `template_format` parses a format *value* (literal text with possibly symbolic integer pieces).
"""
from __future__ import annotations

import re
from dataclasses import dataclass
from fractions import Fraction


class V:
    """base of abstract values"""
    __slots__ = ()


@dataclass(frozen=True)
class Unk(V):
    why: str = ""


@dataclass(frozen=True)
class Const(V):
    """None / True / False / other opaque constants"""
    value: object


@dataclass(frozen=True)
class Param(V):
    name: str


@dataclass(frozen=True)
class Neg(V):
    x: V


@dataclass(frozen=True)
class Abs(V):
    x: V


@dataclass(frozen=True)
class Round(V):
    """round(x) / round(x, 0): an integer-valued number"""
    x: V
    as_int: bool        # round(x) returns int, round(x, 0) returns float


@dataclass(frozen=True)
class IntOf(V):
    x: V


@dataclass(frozen=True)
class FloatOf(V):
    s: V


@dataclass(frozen=True)
class Len(V):
    s: V


@dataclass(frozen=True)
class Opaque(V):
    """an application the model does not interpret"""
    name: str
    args: tuple


# ------------------------------------------------------------------ strings
@dataclass(frozen=True)
class Lit(V):
    s: str


@dataclass(frozen=True)
class Spec:
    fill: str = " "
    align: str | None = None      # '<' '>' '^' '=' ; None = the default of the type
    sign: str = "-"
    alt: bool = False
    zero: bool = False
    width: object = None          # Fraction / int / None / Unk
    prec: object = None
    typ: str | None = None
    conv: str | None = None       # !r !s !a

    def eff_align(self, arg_is_str):
        if self.align:
            return self.align
        if self.zero:
            return "="
        return "<" if arg_is_str else ">"


@dataclass(frozen=True)
class Fmt(V):
    spec: Spec
    arg: V


@dataclass(frozen=True)
class Cat(V):
    parts: tuple


@dataclass(frozen=True)
class Strip(V):
    s: V
    chars: str | None      # None = whitespace
    side: str              # 'b' 'l' 'r'


@dataclass(frozen=True)
class Replace(V):
    s: V
    old: str
    new: str


@dataclass(frozen=True)
class Slice(V):
    s: V
    lo: object
    hi: object


@dataclass(frozen=True)
class Rep(V):
    s: V
    n: object


@dataclass(frozen=True)
class Piece(V):
    s: V
    sep: str
    which: str             # 'head' | 'tail'


@dataclass(frozen=True)
class StrOf(V):
    x: V


@dataclass(frozen=True)
class CaseOf(V):
    s: V
    how: str               # lower / upper


@dataclass(frozen=True)
class CallS(V):
    name: str
    args: tuple


@dataclass(frozen=True)
class Choice(V):
    """value of an undecided conditional expression: either alternative"""
    test: str
    a: V
    b: V


@dataclass(frozen=True)
class Tup(V):
    items: tuple


@dataclass(frozen=True)
class DictV(V):
    items: tuple           # ((key value, value), ...)


STRINGY = (Lit, Fmt, Cat, Strip, Replace, Slice, Rep, Piece, StrOf, CaseOf, CallS)


def is_num(v):
    return isinstance(v, Fraction)


def is_str(v):
    return isinstance(v, STRINGY)


def cat(*parts):
    """concatenation, flattened, adjacent literals merged"""
    out = []
    for p in parts:
        ps = p.parts if isinstance(p, Cat) else (p,)
        for q in ps:
            if isinstance(q, Lit) and out and isinstance(out[-1], Lit):
                out[-1] = Lit(out[-1].s + q.s)
            elif isinstance(q, Lit) and q.s == "":
                continue
            else:
                out.append(q)
    if not out:
        return Lit("")
    if len(out) == 1:
        return out[0]
    return Cat(tuple(out))


def as_int(v):
    if is_num(v) and v.denominator == 1:
        return int(v)
    return None


# ------------------------------------------------------------------ spec text -> Spec
_HOLE = re.compile(r"\x00(\d+)\x01")
_NUM = r"(?:\d+|\x00\d+\x01)"
_SPEC = re.compile(
    r"^(?:(?P<fill>.)?(?P<align>[<>=^]))?(?P<sign>[-+ ])?(?P<z>z)?(?P<alt>#)?(?P<zero>0)?(?P<width>" + _NUM + r")?(?P<grp>[_,])?"
    r"(?:\.(?P<prec>" + _NUM + r"))?(?P<typ>[bcdeEfFgGnosxX%])?$", re.S)


def parse_spec(tokens, conv=None):
    """tokens: list of str pieces and non-str values (symbolic / numeric integers spliced into the spec) -> Spec or None"""
    holes = []
    txt = ""
    for t in tokens:
        if isinstance(t, str):
            txt += t
        else:
            i = as_int(t)
            if i is not None and i >= 0:
                txt += str(i)
            else:
                holes.append(t)
                txt += f"\x00{len(holes) - 1}\x01"
    m = _SPEC.match(txt)
    if not m:
        return None
    g = m.groupdict()
    if g["grp"] or g["z"]:
        return None

    def num(x):
        if x is None:
            return None
        h = _HOLE.fullmatch(x)
        if h:
            return holes[int(h.group(1))]
        return Fraction(int(x))

    return Spec(fill=g["fill"] or " ", align=g["align"], sign=g["sign"] or "-", alt=bool(g["alt"]), zero=bool(g["zero"]),
                width=num(g["width"]), prec=num(g["prec"]), typ=g["typ"], conv=conv)


def _int_piece(v):
    """a string value that is the decimal text of an integer -> that integer value, else None  (`{n:d}`, `{n}`, str(n), '%d' % n)"""
    if isinstance(v, Fmt) and v.spec.width is None and v.spec.prec is None and v.spec.typ in (None, "d") and v.spec.conv is None \
            and not is_str(v.arg) and v.spec.sign == "-" and not v.spec.zero:
        return v.arg
    if isinstance(v, StrOf) and not is_str(v.x):
        return v.x
    return None


def tokens_of(v):
    """string value -> list of str and integer values (for templates / specs that are assembled at run time), else None"""
    if isinstance(v, Lit):
        return [v.s]
    ip = _int_piece(v)
    if ip is not None:
        return [ip]
    if isinstance(v, Cat):
        out = []
        for p in v.parts:
            t = tokens_of(p)
            if t is None:
                return None
            out.extend(t)
        return out
    return None


def make_fmt(spec, arg):
    """format(arg, spec) with literal folding"""
    if spec is None:
        return Unk("format spec")
    if isinstance(arg, Choice):
        return Choice(arg.test, make_fmt(spec, arg.a), make_fmt(spec, arg.b))
    if spec.conv is not None:
        if spec.conv == "s" and is_str(arg):
            spec = Spec(**{**spec.__dict__, "conv": None})
        else:
            return Fmt(spec, arg)
    w = spec.width
    if isinstance(arg, Lit) and (w is None or as_int(w) is not None) and spec.typ in (None, "s") and spec.prec is None:
        n = as_int(w) or 0
        a = spec.eff_align(True)
        if a == "=":
            return Unk("'=' alignment of a string")
        s = arg.s
        pad = max(0, n - len(s))
        if a == "<":
            s = s + spec.fill * pad
        elif a == ">":
            s = spec.fill * pad + s
        else:
            s = spec.fill * (pad // 2) + s + spec.fill * (pad - pad // 2)
        return Lit(s)
    if is_num(arg) and arg.denominator == 1 and spec.typ in (None, "d") and spec.prec is None and (w is None or as_int(w) is not None) \
            and spec.fill == " " and not spec.alt:
        s = str(int(arg))
        if spec.sign == "+" and arg >= 0:
            s = "+" + s
        elif spec.sign == " " and arg >= 0:
            s = " " + s
        n = as_int(w) or 0
        a = spec.eff_align(False)
        if spec.zero and a == "=":
            neg = s[0] in "+- "
            body = s[1:] if neg else s
            s = (s[0] if neg else "") + body.rjust(n - (1 if neg else 0), "0")
        elif a == "<":
            s = s.ljust(n)
        elif a == "^":
            s = s.center(n)
        else:
            s = s.rjust(n)
        return Lit(s)
    if spec.typ is None and is_str(arg):
        spec = Spec(**{**spec.__dict__, "typ": "s"})
    if spec.width is None and spec.prec is None and spec.typ in (None, "s") and is_str(arg) and spec.conv is None:
        return arg                      # "{}".format(s) is s
    return Fmt(spec, arg)


# ------------------------------------------------------------------ str.format templates
def template_format(tmpl, pos, kw):
    """tmpl.format(*pos, **kw) where tmpl is a string value; -> string value"""
    toks = tokens_of(tmpl)
    if toks is None:
        return Unk("format template is not a literal")
    # flatten to a char stream with holes
    stream = []
    for t in toks:
        if isinstance(t, str):
            stream.extend(t)
        else:
            stream.append(t)
    out = []
    i = 0
    auto = 0
    n = len(stream)
    lit = ""

    def field_value(name):
        nonlocal auto
        if name == "":
            k = auto
            auto += 1
            return pos[k] if k < len(pos) else Unk("format index")
        if name.isdigit():
            k = int(name)
            return pos[k] if k < len(pos) else Unk("format index")
        if name.isidentifier():
            return kw.get(name, Unk(f"format key {name}"))
        return Unk(f"format field {name}")

    while i < n:
        c = stream[i]
        if not isinstance(c, str):
            return Unk("integer spliced into literal text of a template")   # never needed: would be a literal digit run
        if c == "{":
            if i + 1 < n and stream[i + 1] == "{":
                lit += "{"
                i += 2
                continue
            # replacement field up to the matching close brace (one nesting level inside the spec)
            depth = 1
            j = i + 1
            body = []
            while j < n and depth:
                d = stream[j]
                if d == "{":
                    depth += 1
                elif d == "}":
                    depth -= 1
                    if depth == 0:
                        break
                body.append(d)
                j += 1
            if depth:
                return Unk("unbalanced template")
            i = j + 1
            # split name [!conv] [:spec]
            name = ""
            k = 0
            while k < len(body) and isinstance(body[k], str) and body[k] not in "!:":
                name += body[k]
                k += 1
            conv = None
            if k < len(body) and body[k] == "!":
                conv = body[k + 1] if k + 1 < len(body) and isinstance(body[k + 1], str) else None
                k += 2
            spec_toks = []
            if k < len(body) and body[k] == ":":
                rest = body[k + 1:]
                m = 0
                cur = ""
                while m < len(rest):
                    d = rest[m]
                    if isinstance(d, str) and d == "{":
                        e = m + 1
                        nm = ""
                        while e < len(rest) and rest[e] != "}":
                            if not isinstance(rest[e], str):
                                return Unk("nested field")
                            nm += rest[e]
                            e += 1
                        if cur:
                            spec_toks.append(cur)
                            cur = ""
                        if ":" in nm or "!" in nm:
                            # a nested field with its own spec / conversion: `{:d}`, `{n:d}`, `{!s}` of an integer print that integer
                            nm, _, nspec = nm.partition(":")
                            nm, _, nconv = nm.partition("!")
                            if nspec not in ("", "d") or nconv not in ("", "s", "r"):
                                return Unk("nested field with a format spec")
                        spec_toks.append(("field", nm))
                        m = e + 1
                        continue
                    if isinstance(d, str):
                        cur += d
                    else:
                        if cur:
                            spec_toks.append(cur)
                            cur = ""
                        spec_toks.append(d)
                    m += 1
                if cur:
                    spec_toks.append(cur)
            elif k < len(body):
                return Unk("template field")
            val = field_value(name)          # the value's auto-number is taken before the nested ones (as CPython does)
            st = []
            for t in spec_toks:
                if isinstance(t, tuple) and t and t[0] == "field":
                    st.append(field_value(t[1]))
                else:
                    st.append(t)
            if any(isinstance(t, Unk) for t in st) or isinstance(val, Unk):
                return Unk("template argument")
            sp = parse_spec(st, conv)
            if lit:
                out.append(Lit(lit))
                lit = ""
            out.append(make_fmt(sp, val))
        elif c == "}":
            if i + 1 < n and stream[i + 1] == "}":
                lit += "}"
                i += 2
                continue
            return Unk("single '}' in template")
        else:
            lit += c
            i += 1
    if lit:
        out.append(Lit(lit))
    if any(isinstance(o, Unk) for o in out):
        return next(o for o in out if isinstance(o, Unk))
    return cat(*out)


# ------------------------------------------------------------------ printf-style
_PCT = re.compile(r"%(?P<key>\([^)]*\))?(?P<flags>[-+ #0]*)(?P<width>\*|\d+)?(?:\.(?P<prec>\*|\d+))?[hlL]?(?P<typ>[diouxXeEfFgGcrsa%])")


def percent_format(tmpl, arg):
    """tmpl % arg"""
    if not isinstance(tmpl, Lit):
        return Unk("% template is not a literal")
    args = list(arg.items) if isinstance(arg, Tup) else [arg]
    out = []
    pos = 0
    k = 0
    s = tmpl.s
    for m in _PCT.finditer(s):
        if m.start() > pos:
            out.append(Lit(s[pos:m.start()]))
        pos = m.end()
        g = m.groupdict()
        if g["typ"] == "%":
            out.append(Lit("%"))
            continue
        if g["key"]:
            return Unk("% with mapping keys")

        def take():
            nonlocal k
            if k >= len(args):
                return Unk("% arguments")
            k += 1
            return args[k - 1]
        width = take() if g["width"] == "*" else (Fraction(int(g["width"])) if g["width"] else None)
        prec = take() if g["prec"] == "*" else (Fraction(int(g["prec"])) if g["prec"] else None)
        val = take()
        if any(isinstance(x, Unk) for x in (width, prec, val)):
            return Unk("% arguments")
        fl = g["flags"] or ""
        typ = g["typ"]
        conv = None
        if typ in "ra":
            conv, typ = typ, "s"
        if typ in "iu":
            typ = "d"
        sp = Spec(fill=" ", align="<" if "-" in fl else ">", sign="+" if "+" in fl else (" " if " " in fl else "-"), alt="#" in fl,
                  zero=("0" in fl and "-" not in fl and typ != "s"), width=width, prec=prec, typ=typ, conv=conv)
        if sp.zero:
            sp = Spec(**{**sp.__dict__, "align": None})
        out.append(make_fmt(sp, val))
    if "%" in _PCT.sub("", s):
        return Unk("% template")
    if pos < len(s):
        out.append(Lit(s[pos:]))
    if any(isinstance(o, Unk) for o in out):
        return next(o for o in out if isinstance(o, Unk))
    return cat(*out)


def same_spec(a: Spec, b: Spec, arg_is_str=False):
    """two specs render every value alike"""
    return (a.fill, a.eff_align(arg_is_str), a.sign, a.alt, a.zero, a.width, a.prec, a.typ, a.conv) == \
           (b.fill, b.eff_align(arg_is_str), b.sign, b.alt, b.zero, b.width, b.prec, b.typ, b.conv)
