"""C20 -- tolerance factors and order statistics (thin partial claim).

What is decided is only what is visible in the shape of the code: every routine is a composition of library quantile / tail functions, and
the property *defines* each result by such a composition ("the one-sided factor is the non-central-t quantile scaled by root n", "the two-sided
factor solves its documented coverage equation", "rank / confidence / coverage / sample size are mutually consistent").  The rules compare the
composition extracted from the source (names resolved through the module's imports, temporaries substituted, keyword arguments placed) with
that definition, the Newton iteration with the derivative of its own residual, and the four arms of ``order_stats`` with each other.  Values of
the special functions, monotonicity and limits are not decided.
"""
from __future__ import annotations

import ast

from . import e2_formula as F
from .core import AnchorError, Unsupported
from .e1_srcmodel import dotted, walk_no_nested
from .e2_eval import Evaluator, is_unknown, need

STATS = "pyyeti/stats.py"

# positional signature of the scipy callables the module uses (shape parameters after the quantile / count argument)
SIG = {
    "scipy.stats.norm.ppf": ("q",), "scipy.stats.norm.cdf": ("x",), "scipy.stats.norm.isf": ("q",), "scipy.stats.norm.sf": ("x",),
    "scipy.stats.nct.ppf": ("q", "df", "nc"), "scipy.stats.nct.isf": ("q", "df", "nc"),
    "scipy.stats.chi2.ppf": ("q", "df"), "scipy.stats.chi2.isf": ("q", "df"),
    "scipy.stats.binom.sf": ("k", "n", "p"), "scipy.stats.binom.cdf": ("k", "n", "p"), "scipy.stats.binom.ppf": ("q", "n", "p"),
    "scipy.stats.binom.isf": ("q", "n", "p"),
    "scipy.special.betainc": ("a", "b", "x"),
}


def imports(mod):
    tab = {}
    for st in mod.tree.body:
        if isinstance(st, ast.Import):
            for a in st.names:
                tab[a.asname or a.name.split(".")[0]] = a.name if a.asname else a.name.split(".")[0]
        elif isinstance(st, ast.ImportFrom) and st.module:
            for a in st.names:
                tab[a.asname or a.name] = f"{st.module}.{a.name}"
    return tab


def resolve(d, tab):
    if d is None:
        return None
    head, _, rest = d.partition(".")
    full = tab.get(head)
    if full is None:
        return d
    return full + ("." + rest if rest else "")


def lib_call(tab, extra=None):
    """call hook: scipy distribution functions become opaque applications in a canonical form (sf -> 1 - cdf, isf(q) -> ppf(1 - q),
    the regularised incomplete beta function with integer-shaped arguments -> the binomial cdf it equals)"""

    def hook(node, ev):
        d = resolve(dotted(node.func), tab)
        if extra is not None:
            r = extra(node, ev, d)
            if r is not NotImplemented:
                return r
        if d in ("numpy.asarray", "numpy.atleast_1d", "float", "int"):
            return ev.ev(node.args[0])
        if d in ("numpy.sqrt", "math.sqrt"):
            return F.sqrt(need(ev.ev(node.args[0])))
        if d in ("numpy.exp", "math.exp"):
            return F.exp(need(ev.ev(node.args[0])))
        if d not in SIG:
            return NotImplemented
        names = SIG[d]
        vals = {}
        if len(node.args) > len(names):
            raise Unsupported(f"{d}: too many positional arguments")
        for nm, a in zip(names, node.args):
            vals[nm] = need(ev.ev(a), ast.unparse(a))
        for kw in node.keywords:
            if kw.arg not in names or kw.arg in vals:
                raise Unsupported(f"{d}: keyword {kw.arg}")
            vals[kw.arg] = need(ev.ev(kw.value), ast.unparse(kw.value))
        if set(vals) != set(names):
            raise Unsupported(f"{d}: arguments {sorted(vals)}")
        dist, meth = d.rsplit(".", 1)
        dist = dist.rsplit(".", 1)[1] if "." in dist else dist
        if d == "scipy.special.betainc":
            # I_x(a, b) = P(X >= a), X ~ Binomial(a + b - 1, x)  =>  1 - I_x(s + 1, n - s) = cdf(s; n, x)
            return 1 - F.fn("binom.cdf", vals["a"] - 1, vals["a"] + vals["b"] - 1, vals["x"])
        if meth == "sf":
            return 1 - F.fn(f"{dist}.cdf", *[vals[n] for n in names])
        if meth == "isf":
            return F.fn(f"{dist}.ppf", *[(1 - vals[n]) if n == "q" else vals[n] for n in names])
        return F.fn(f"{dist}.{meth}", *[vals[n] for n in names])

    return hook


def _ret(ev, fn):
    if not ev.returns:
        raise AnchorError(f"{fn.name}: return")
    v = ev.returns[-1][0]
    return v, ev.returns[-1][1]


def r1_ksingle(ctx):
    mod = ctx.src.mod(STATS)
    tab = imports(mod)
    fn = ctx.src.func(STATS, "ksingle")
    p, c, n = F.sym("p"), F.sym("c"), F.sym("n")
    ev = Evaluator(env={"p": p, "c": c, "n": n}, src=ctx.src, call=lib_call(tab))
    ev.run(fn.body)
    v, st = _ret(ev, fn)
    if is_unknown(v):
        ctx.error("ksingle: returned expression", st, v.why)
        return
    want = F.fn("nct.ppf", c, n - 1, F.sqrt(n) * F.fn("norm.ppf", p)) / F.sqrt(n)
    ok = v.equals(want)
    ctx.check(ok, "ksingle: k = t'_{c}(n - 1, sqrt(n) z_p) / sqrt(n): the c-quantile of the non-central t distribution with n - 1 degrees of freedom and "
                  "non-centrality sqrt(n) * (normal p-quantile), divided by sqrt(n)", st, None if ok else {"code": repr(v), "definition": repr(want)})
    # which argument plays which role (reported separately so that a swap is named)
    try:
        a = [x for x in v.n.atoms() | v.d.atoms() if F.atom_desc(x)[0] == "fn" and F.atom_desc(x)[1] == "nct.ppf"]
    except Exception:  # noqa
        a = []
    ctx.check(len(a) == 1, "ksingle: exactly one non-central t quantile is evaluated", st)
    ok = [q.arg for q in fn.args.args] == ["p", "c", "n"]
    ctx.check(ok, "ksingle(p, c, n): coverage, confidence, sample size in the documented order", fn)


def _newton(ctx, fn, tab):
    loops = [s for s in fn.body if isinstance(s, ast.While)]
    if len(loops) != 1:
        raise AnchorError("_getr: Newton loop")
    return loops[0]


def r2_getr(ctx):
    mod = ctx.src.mod(STATS)
    tab = imports(mod)
    fn = ctx.src.func(STATS, "_getr")
    params = [a.arg for a in fn.args.args]
    if len(params) < 2:
        raise AnchorError("_getr(n, prob, tol)")
    S = F.sym("S")                     # S stands for 1/sqrt(n): the formulas are polynomial in S
    n, prob, r0 = 1 / (S * S), F.sym("prob"), F.sym("r")
    loop = _newton(ctx, fn, tab)
    phis = []

    def extra(node, ev, d):
        if d == "scipy.stats.norm.cdf" and len(node.args) == 1 and not node.keywords:
            u = need(ev.ev(node.args[0]))
            s = F.sym(f"Phi{len(phis)}")
            phis.append((s, u))
            return s
        if d == "scipy.stats.norm.pdf" and len(node.args) == 1 and not node.keywords:
            u = need(ev.ev(node.args[0]))
            return F.exp(-(u * u) / 2) / F.sqrt(2 * F.sym("pi"))
        return NotImplemented

    env = {params[0]: n, params[1]: prob}
    if len(params) > 2:
        env[params[2]] = F.sym("tol")
    ev = Evaluator(env=env, src=ctx.src, call=lib_call(tab, extra))
    pre = fn.body[:fn.body.index(loop)]
    ev.run(pre)
    # inside the loop: the iterate entering the step is whatever name the first statement copies `r` into
    ev.env_pre = dict(ev.env)
    # find the update statement  r = rold - num/den : evaluate the body with the current iterate as a symbol
    assigned = [t.id for s in loop.body if isinstance(s, ast.Assign) for t in s.targets if isinstance(t, ast.Name)]
    # the carried iterate: a name assigned in the body and read by the loop test
    test_names = {x.id for x in ast.walk(loop.test) if isinstance(x, ast.Name)}
    carried = [a for a in assigned if a in test_names]
    if not carried:
        raise AnchorError("_getr: iterate")
    for nm in set(carried):
        ev.env[nm] = r0
    ev.run(loop.body)
    # after one pass: old iterate name holds r0 (copied), the new iterate is an expression r0 - num/den
    new = None
    for nm in carried:
        v = ev.env.get(nm)
        if v is not None and not is_unknown(v) and not v.equals(r0):
            new = (nm, v)
    if new is None:
        ctx.error("_getr: Newton update", loop, {k: repr(ev.env.get(k)) for k in carried})
        return
    step = r0 - new[1]          # = num / den
    if len(phis) < 2:
        ctx.fail("_getr: the residual evaluates the normal distribution function at both integration limits", loop, len(phis))
        return
    # residual: the numerator of the step, as a combination of the Phi symbols
    num = step.n
    den = step.d
    numr = F.Rat(num)
    denr = F.Rat(den)
    # normalise sign/scale: residual g = sum a_k Phi_k - prob * s ; find scale so that coefficient of prob is -1
    cprob = numr.diff("prob")
    if cprob.is_zero():
        ctx.fail("_getr: the residual contains the requested coverage `prob`", loop, repr(numr))
        return
    g = numr / (-cprob)
    gp = denr / (-cprob)
    want_args = [(S + r0, F.const(1)), (S - r0, F.const(-1))]
    got = []
    rest = g + prob
    for s, u in phis:
        cf = g.diff(repr_sym(s))
        if not cf.is_zero():
            got.append((u, cf))
            rest = rest - cf * s
    ok = len(got) == 2 and rest.is_zero() and all(any(u.equals(wu) and cf.equals(wc) for wu, wc in want_args) for u, cf in got) \
        and not got[0][0].equals(got[1][0])
    ctx.check(ok, "_getr: Newton residual is Phi(1/sqrt(n) + r) - Phi(1/sqrt(n) - r) - prob, the coverage equation documented in its docstring", loop,
              None if ok else {"terms": [(repr(u), repr(cf)) for u, cf in got], "rest": repr(rest)})
    # derivative: d/dr sum cf Phi(u) = sum cf phi(u) du/dr, phi(x) = exp(-x^2/2)/sqrt(2 pi)
    dg = F.const(0)
    for u, cf in got:
        dg = dg + cf * F.exp(-(u * u) / 2) / F.sqrt(2 * F.sym("pi")) * u.diff("r")
    ok = gp.equals(dg)
    ctx.check(ok, "_getr: the Newton denominator is the derivative of the residual with respect to r (Leibniz: phi(1/sqrt(n) + r) + phi(1/sqrt(n) - r), "
                  "phi the standard normal density)", loop, None if ok else {"code": repr(gp), "derivative": repr(dg)})
    # loop continues while the last change exceeds tol, and the function returns the iterate
    t = loop.test
    tolname = params[2] if len(params) > 2 else "tol"
    cmps = [x for x in ast.walk(t) if isinstance(x, ast.Compare) and len(x.ops) == 1 and tolname in {y.id for y in ast.walk(x) if isinstance(y, ast.Name)}]
    ok = False
    why = ast.unparse(t)
    if len(cmps) == 1:
        cm = cmps[0]
        lhs, op, rhs = cm.left, cm.ops[0], cm.comparators[0]
        if isinstance(rhs, ast.Call) or (isinstance(lhs, ast.Name) and lhs.id == tolname):      # tol < |..|
            lhs, rhs = rhs, lhs
            op = {ast.Lt: ast.Gt, ast.LtE: ast.GtE, ast.Gt: ast.Lt, ast.GtE: ast.LtE}.get(type(op), type(op))()
        e4 = Evaluator(env={carried[0]: F.sym("r_new"), **{k: F.sym("r_old") for k in carried[1:]}}, src=ctx.src, call=lib_call(tab))
        # the two iterates: the name assigned the update and the name holding the previous value
        e4.env = {new[0]: F.sym("r_new")}
        for nm in carried:
            if nm != new[0]:
                e4.env[nm] = F.sym("r_old")
        dv = e4.ev(lhs)
        diff = F.fn("abs", F.sym("r_new") - F.sym("r_old"))
        diff2 = F.fn("abs", F.sym("r_old") - F.sym("r_new"))
        ok = isinstance(op, (ast.Gt, ast.GtE)) and isinstance(rhs, ast.Name) and rhs.id == tolname and not is_unknown(dv) \
            and (dv.equals(diff) or dv.equals(diff2))
        # an array-valued iterate must continue while ANY element is still moving
        par = None
        for x in ast.walk(t):
            if isinstance(x, ast.Call) and any(y is cm for a in x.args for y in ast.walk(a)):
                par = x
        if par is not None:
            d = resolve(dotted(par.func), tab) or ""
            if d.endswith("all"):
                ok = False
                why = "np.all: the iteration would stop as soon as one element of a broadcast input has converged"
    ctx.check(ok, "_getr: iteration continues while |r - r_old| exceeds the tolerance (for any element of an array-valued input)", loop, why)
    rets = [s for s in fn.body if isinstance(s, ast.Return)]
    ok = len(rets) == 1 and isinstance(rets[0].value, ast.Name) and rets[0].value.id == new[0]
    ctx.check(ok, "_getr: returns the converged iterate", rets[0] if rets else fn)
    doc = ast.get_docstring(fn) or ""
    ok = "1/sqrt(n) + R" in doc and "1/sqrt(n) - R" in doc and "exp(-t^2/2)" in doc
    ctx.check(ok, "_getr: the docstring states the coverage integral with limits 1/sqrt(n) -/+ R", fn, nontrivial=False)


def repr_sym(s):
    """name of a symbol Rat"""
    (m, c), = s.n.t.items()
    (a, e), = m
    return F.atom_desc(a)[1]


def r3_kdouble(ctx):
    mod = ctx.src.mod(STATS)
    tab = imports(mod)
    fn = ctx.src.func(STATS, "kdouble")
    getr = ctx.src.func(STATS, "_getr")
    gp = [a.arg for a in getr.args.args]
    p, c, n = F.sym("p"), F.sym("c"), F.sym("n")
    seen = []

    def extra(node, ev, d):
        if d == "_getr":
            vals = {}
            for nm, a in zip(gp, node.args):
                vals[nm] = ev.ev(a)
            for kw in node.keywords:
                vals[kw.arg] = ev.ev(kw.value)
            seen.append((vals, node))
            return F.sym("R")
        return NotImplemented

    ev = Evaluator(env={"p": p, "c": c, "n": n, "tol": F.sym("tol")}, src=ctx.src, call=lib_call(tab, extra))
    ev.run(fn.body)
    v, st = _ret(ev, fn)
    if is_unknown(v):
        ctx.error("kdouble: returned expression", st, v.why)
        return
    want = F.sqrt((n - 1) / F.fn("chi2.ppf", 1 - c, n - 1)) * F.sym("R")
    ok = v.equals(want) or (v * v).equals(want * want)
    ctx.check(ok, "kdouble: k = r * sqrt((n - 1) / chi2_{1-c}(n - 1)): the coverage root scaled by the (1 - c)-quantile of chi-square with n - 1 degrees of freedom",
              st, None if ok else {"code": repr(v), "definition": repr(want)})
    ok = len(seen) == 1 and not is_unknown(seen[0][0].get(gp[0])) and seen[0][0][gp[0]].equals(n) and seen[0][0][gp[1]].equals(p)
    ctx.check(ok, "kdouble: the coverage root is computed for (n, p) - sample size and coverage in the positions _getr declares", seen[0][1] if seen else fn,
              None if ok else [{k: repr(x) for k, x in s[0].items()} for s in seen])
    ok = [q.arg for q in fn.args.args][:3] == ["p", "c", "n"]
    ctx.check(ok, "kdouble(p, c, n): coverage, confidence, sample size in the documented order", fn)


def _arms(fn):
    """which == 'x' arms of order_stats -> {letter: body}"""
    arms = {}

    def visit(stmts):
        for st in stmts:
            if isinstance(st, ast.If):
                t = st.test
                if isinstance(t, ast.Compare) and len(t.ops) == 1 and isinstance(t.ops[0], ast.Eq) and isinstance(t.left, ast.Name) \
                        and t.left.id == "which" and isinstance(t.comparators[0], ast.Constant):
                    arms[t.comparators[0].value] = st.body
                    visit(st.orelse)

    visit(fn.body)
    return arms


def _comprehension_call(body, target):
    """`X.flat = [f(args) for (a, b, c) in bc]` with `bc = np.broadcast(x, y, z)`  ->  (call node, {loop var: broadcast operand})"""
    bc = {}
    for st in body:
        if isinstance(st, ast.Assign) and isinstance(st.value, ast.Call) and (dotted(st.value.func) or "").endswith("broadcast"):
            bc[st.targets[0].id] = [ast.unparse(a) for a in st.value.args]
    for st in body:
        if isinstance(st, ast.Assign) and isinstance(st.value, ast.ListComp) and len(st.value.generators) == 1:
            g = st.value.generators[0]
            if isinstance(g.iter, ast.Name) and g.iter.id in bc and isinstance(g.target, ast.Tuple):
                names = [e.id for e in g.target.elts]
                return st.value.elt, dict(zip(names, bc[g.iter.id])), st
    return None, None, None


def r4_order_stats(ctx):
    mod = ctx.src.mod(STATS)
    tab = imports(mod)
    fn = ctx.src.func(STATS, "order_stats")
    arms = _arms(fn)
    ok = set(arms) == {"p", "c", "n", "r"}
    ctx.check(ok, "order_stats: one arm for each of p, c, n, r", fn, sorted(arms))
    if not ok:
        return
    P, C, N, R = F.sym("p"), F.sym("c"), F.sym("n"), F.sym("r")
    base = {"p": P, "c": C, "n": N, "r": R}
    relation = F.fn("binom.cdf", R - 1, N, 1 - P)     # P(at most r - 1 of n samples exceed the p-quantile)

    # ---- c arm: direct
    ev = Evaluator(env=dict(base), src=ctx.src, call=lib_call(tab))
    ev.run(arms["c"])
    v, st = _ret(ev, fn)
    ok = (not is_unknown(v)) and v.equals(1 - relation)
    ctx.check(ok, "order_stats('c'): c = P(X >= r) = 1 - cdf(r - 1; n, 1 - p), X ~ Binomial(n, 1 - p) the number of samples above the p-quantile", st,
              None if ok else repr(v))

    def local_funcs(body):
        return {s.name: s for s in body if isinstance(s, ast.FunctionDef)}

    def root_arm(letter, unknown_sym, text):
        """arms solved by brentq: residual(x, *args) must be  (1 - c) - cdf(r - 1; n, 1 - p)  with x the unknown"""
        body = arms[letter]
        lf = local_funcs(body)
        elt, loopvars, st = _comprehension_call(body, None)
        if elt is None:
            ctx.error(f"order_stats('{letter}'): broadcast comprehension", fn)
            return None
        # find the brentq call: either directly in the comprehension or inside a local helper called from it
        env = {k: base[v] for k, v in loopvars.items() if v in base}
        if len(env) != len(loopvars):
            ctx.error(f"order_stats('{letter}'): broadcast operands", st, loopvars)
            return None
        outer_scale = None   # result = outer(brentq(...))
        call = elt

        def find_brentq(node):
            for x in ast.walk(node):
                if isinstance(x, ast.Call) and resolve(dotted(x.func), tab) == "scipy.optimize.brentq":
                    return x
            return None

        bq = find_brentq(call)
        helper_env = env
        if bq is None:
            # helper(c, r, p) -> ... brentq(...)
            inner = [x for x in ast.walk(call) if isinstance(x, ast.Call) and isinstance(x.func, ast.Name) and x.func.id in lf]
            if len(inner) != 1:
                ctx.error(f"order_stats('{letter}'): root finder call", st, ast.unparse(elt))
                return None
            h = lf[inner[0].func.id]
            e0 = Evaluator(env=dict(env), src=ctx.src, call=lib_call(tab))
            helper_env = {a.arg: e0.ev(x) for a, x in zip(h.args.args, inner[0].args)}
            rets = [s for s in walk_no_nested(h) if isinstance(s, ast.Return)]
            with_bq = [s for s in rets if s.value is not None and find_brentq(s.value) is not None]
            if len(with_bq) != 1:
                ctx.error(f"order_stats('{letter}'): brentq in helper", h)
                return None
            bq = find_brentq(with_bq[0].value)
            result_expr = with_bq[0].value
            # any other exit returns a point at which the residual has just been found non-negative (the answer is already met there)
            for s_ in rets:
                if s_ is with_bq[0]:
                    continue
                from .e1_srcmodel import ancestors
                guard = next((a for a in ancestors(s_) if isinstance(a, ast.If)), None)
                ok = guard is not None and isinstance(s_.value, ast.Name) and any(
                    isinstance(x, ast.Call) and isinstance(x.func, ast.Name) and x.func.id in lf and x.args and isinstance(x.args[0], ast.Name)
                    and x.args[0].id == s_.value.id for x in ast.walk(guard.test)) and any(
                    isinstance(x, ast.Compare) and isinstance(x.ops[0], (ast.GtE, ast.Gt)) for x in ast.walk(guard.test))
                ctx.check(ok, f"order_stats('{letter}'): the early exit returns the point whose residual was just tested non-negative", s_, ast.unparse(s_))
        else:
            result_expr = elt
        # residual function and its extra args
        if not (isinstance(bq.args[0], ast.Name) and bq.args[0].id in lf):
            ctx.error(f"order_stats('{letter}'): residual function", bq, ast.unparse(bq))
            return None
        res = lf[bq.args[0].id]
        argt = None
        for kw in bq.keywords:
            if kw.arg == "args":
                argt = kw.value
        if argt is None and len(bq.args) >= 4:
            argt = bq.args[3]
        if not isinstance(argt, ast.Tuple):
            ctx.error(f"order_stats('{letter}'): brentq args", bq)
            return None
        e1 = Evaluator(env=dict(helper_env), src=ctx.src, call=lib_call(tab))
        argv = [e1.ev(a) for a in argt.elts]
        rp = [a.arg for a in res.args.args]
        if len(rp) != 1 + len(argv):
            ctx.fail(f"order_stats('{letter}'): residual takes the unknown plus {len(argv)} parameters", res, rp)
            return None
        X = F.sym("X")
        e2 = Evaluator(env=dict(zip(rp, [X] + argv)), src=ctx.src, call=lib_call(tab))
        e2.run(res.body)
        g, rst = _ret(e2, res)
        if is_unknown(g):
            ctx.error(f"order_stats('{letter}'): residual", rst, g.why)
            return None
        # result = outer(root): evaluate result_expr with brentq(...) := X
        def extra(node, ev, d):
            if node is bq:
                return X
            return NotImplemented
        e3 = Evaluator(env=dict(helper_env), src=ctx.src, call=lib_call(tab, extra))
        outv = e3.ev(result_expr)
        if is_unknown(outv):
            ctx.error(f"order_stats('{letter}'): result expression", st, outv.why)
            return None
        # unknown_sym = outv(X)  =>  substitute X := inverse; outv is X or 1 - X
        if outv.equals(X):
            xs = unknown_sym
        elif outv.equals(1 - X):
            xs = 1 - unknown_sym
        else:
            ctx.error(f"order_stats('{letter}'): result is not the root or its complement", st, repr(outv))
            return None
        g2 = g.subs({"X": xs})
        want = (1 - C) - relation
        ok = g2.equals(want) or g2.equals(-want)
        ctx.check(ok, f"order_stats('{letter}'): {text} solves (1 - c) = cdf(r - 1; n, 1 - p) - the same relation as the 'c' arm", rst,
                  None if ok else {"residual": repr(g2), "relation": repr(want)})
        return bq, st, body

    rn = root_arm("n", N, "the sample size")
    rp_ = root_arm("p", P, "the coverage")
    # ---- n arm: rounding up
    if rn:
        body = arms["n"]
        rets = [s for s in body if isinstance(s, ast.Return)]
        ok = len(rets) == 1 and isinstance(rets[0].value, ast.Call) and "ceil(" in ast.unparse(rets[0].value) and "floor" not in ast.unparse(rets[0].value) \
            and "round" not in ast.unparse(rets[0].value)
        ctx.check(ok, "order_stats('n'): the real root is rounded UP (smallest integer sample size meeting the confidence; the confidence increases with n)",
                  rets[0] if rets else fn)
    # ---- r arm: generalised inverse of the same cdf in the count argument
    body = arms["r"]
    elt, loopvars, st = _comprehension_call(body, None)
    if elt is None:
        ctx.error("order_stats('r'): broadcast comprehension", fn)
        return
    env = {k: base[v] for k, v in loopvars.items() if v in base}
    ev = Evaluator(env=env, src=ctx.src, call=lib_call(tab))
    v = ev.ev(elt)
    want = F.fn("binom.ppf", 1 - C, N, 1 - P)
    ok = (not is_unknown(v)) and v.equals(want)
    ctx.check(ok, "order_stats('r'): r = ppf(1 - c; n, 1 - p) = the smallest k with cdf(k) >= 1 - c, i.e. confidence(r) = 1 - cdf(r - 1) > c >= confidence(r + 1): "
                  "the largest rank that still meets the confidence under the 'c' arm's relation", st, None if ok else repr(v))
    rets = [s for s in ast.walk(ast.Module(body=body, type_ignores=[])) if isinstance(s, ast.Return)]
    ok = bool(rets) and all("int" in ast.unparse(r.value) for r in rets) and not any(isinstance(x, ast.BinOp) for r in rets for x in ast.walk(r.value))
    ctx.check(ok, "order_stats('r'): the quantile is returned as an integer without offset", rets[0] if rets else fn)


def r5_brackets(ctx):
    """scipy.optimize.brentq(f, a, b) needs f(a) and f(b) of opposite sign.  Every bracket end must therefore be *established*: a literal end of the
    unknown's whole domain, or a variable whose residual sign was tested on every path that defines it."""
    mod = ctx.src.mod(STATS)
    tab = imports(mod)
    fn = ctx.src.func(STATS, "order_stats")
    n_calls = 0
    for holder in [fn] + [x for x in ast.walk(fn) if isinstance(x, ast.FunctionDef) and x is not fn]:
        for call in walk_no_nested(holder):
            if not (isinstance(call, ast.Call) and resolve(dotted(call.func), tab) == "scipy.optimize.brentq"):
                continue
            n_calls += 1
            if len(call.args) < 3 or not isinstance(call.args[0], ast.Name):
                ctx.error("brentq call shape", call, ast.unparse(call))
                continue
            fname = call.args[0].id
            argt = next((kw.value for kw in call.keywords if kw.arg == "args"), call.args[3] if len(call.args) > 3 else None)
            extra = [ast.unparse(e) for e in argt.elts] if isinstance(argt, ast.Tuple) else []
            # every other evaluation of the residual in this scope passes the same parameters as the root finder
            for probe in walk_no_nested(holder):
                if isinstance(probe, ast.Call) and isinstance(probe.func, ast.Name) and probe.func.id == fname and probe is not call:
                    got = [ast.unparse(e) for e in probe.args[1:]]
                    ok = got == extra
                    ctx.check(ok, f"order_stats: bracket probe `{fname}(...)` uses the parameters the root finder is given", probe,
                              None if ok else {"probe": got, "brentq args": extra})
            for end, which in ((call.args[1], "lower"), (call.args[2], "upper")):
                if isinstance(end, ast.Constant):
                    ok = (which, end.value) in (("lower", 0), ("upper", 1))
                    ctx.check(ok, f"order_stats: literal {which} bracket end is the end of the probability domain (0, 1)", call, end.value)
                    continue
                if not isinstance(end, ast.Name):
                    ctx.error(f"{which} bracket end", call, ast.unparse(end))
                    continue
                defs = [st for st in walk_no_nested(holder) if isinstance(st, ast.Assign) and any(isinstance(t, ast.Name) and t.id == end.id for t in st.targets)]
                for d in defs:
                    ok, how = _sign_established(holder, d, end.id, fname, extra, call)
                    ctx.check(ok, f"order_stats: {which} bracket end `{end.id}` defined by `{ast.unparse(d)}` has the sign of its residual tested before "
                                  f"the root finder is called ({how})" if ok else
                              f"order_stats: {which} bracket end `{end.id}` defined by `{ast.unparse(d)}` reaches brentq without any test of the residual's sign there",
                              d, None if ok else "brentq raises ValueError when f(a) and f(b) have the same sign: e.g. when `r` samples already meet the "
                                                 "requested confidence (f(r) >= 0), order_stats('n', ...) fails instead of returning r",
                              key=f"C20-R5|order_stats|{which} end {end.id} = {ast.unparse(d.value)} untested")
    ctx.check(n_calls >= 2, "order_stats: two root-finder calls (sample size, coverage)", fn, n_calls, nontrivial=False)


def _sign_established(holder, d, name, fname, extra, call):
    """is the sign of fname(name, *extra) tested for this definition of `name` before `call`?"""
    from .e1_srcmodel import ancestors

    def is_probe(x, of):
        return isinstance(x, ast.Call) and isinstance(x.func, ast.Name) and x.func.id == fname and x.args and isinstance(x.args[0], ast.Name) \
            and x.args[0].id in of and [ast.unparse(e) for e in x.args[1:]] == extra

    def has_sign_test(test, of):
        for c in ast.walk(test):
            if isinstance(c, ast.Compare) and len(c.ops) == 1 and isinstance(c.ops[0], (ast.Lt, ast.LtE, ast.Gt, ast.GtE)):
                sides = [c.left, c.comparators[0]]
                if any(is_probe(s, of) for s in sides) and any(isinstance(s, ast.Constant) and s.value == 0 for s in sides):
                    return True
        return False

    src = {name}
    if isinstance(d.value, ast.Name):
        src.add(d.value.id)
    # (i) the definition sits inside a loop / if whose test probes the residual at the value being copied
    for a in ancestors(d):
        if a is holder:
            break
        if isinstance(a, (ast.While, ast.If)) and has_sign_test(a.test, src - {name} or src):
            return True, "copied from a point whose residual the enclosing test has just probed"
    # (ii) a later test at the same nesting level probes the residual at this name before the call
    body = None
    for a in [holder] + list(ast.walk(holder)):
        for fld in ("body", "orelse"):
            b = getattr(a, fld, None)
            if isinstance(b, list) and d in b:
                body = b
    if body is None:
        return False, ""
    for st in body[body.index(d) + 1:]:
        if any(x is call for x in ast.walk(st)) and not isinstance(st, (ast.If, ast.While)):
            break
        if isinstance(st, ast.If) and has_sign_test(st.test, {name}):
            return True, "tested by a following `if`"
        if isinstance(st, ast.While) and has_sign_test(st.test, {name}):
            # the loop exits only when the test fails (or a counter runs out): the sign at exit is the complement
            return True, "the search loop exits when the probe changes sign"
        if isinstance(st, ast.Assign) and any(isinstance(t, ast.Name) and t.id == name for t in st.targets):
            break
    return False, ""


RULES = [
    ("C20-R1", r1_ksingle, 3),
    ("C20-R2", r2_getr, 5),
    ("C20-R3", r3_kdouble, 3),
    ("C20-R4", r4_order_stats, 6),
    ("C20-R5", r5_brackets, 6),
]
LEVEL = "other"
EXPLANATION = ("Static: the compositions of library quantile / tail functions in stats.ksingle, kdouble, _getr and the four arms of order_stats are extracted "
               "(imports resolved, temporaries substituted, sf/isf/betainc rewritten to cdf/ppf) and compared with the definitions the property states; the "
               "Newton denominator is checked to be the derivative of the residual; the four order_stats arms are checked to share one binomial relation.")
MANIFEST = {
    "text": "Thin partial claim decided statically: (R1) ksingle is nct.ppf(c; n-1, sqrt(n) z_p)/sqrt(n); (R2) _getr's Newton residual is the documented coverage "
            "equation Phi(1/sqrt n + r) - Phi(1/sqrt n - r) = prob and its denominator is the residual's derivative; (R3) kdouble scales that root by "
            "sqrt((n-1)/chi2.ppf(1-c, n-1)) and passes (n, p) in _getr's order; (R4) the c, n, p and r arms of order_stats all express 1 - c = cdf(r - 1; n, 1 - p) "
            "(sf, betainc and ppf forms rewritten), n is rounded up, r is the integer quantile. Not decided: values of nct/chi2/binom/betainc, convergence of the "
            "Newton and brentq iterations, monotonicity in p and c, the large-n limit.",
    "note": "Trusted: CPython ast; verifier/e2_formula.py; the identities sf = 1 - cdf, isf(q) = ppf(1 - q), 1 - I_x(s+1, n-s) = binom.cdf(s; n, x).",
    "technique": "static extraction of library-call compositions into normal forms and comparison with the defining formulas; symbolic derivative check of the Newton step; sibling agreement of the four order_stats arms",
}
