"""C20 -- tolerance factors and order statistics (thin partial claim).

What is decided is only what is visible in the shape of the code: every routine is a composition of library quantile / tail functions, and
the property *defines* each result by such a composition ("the one-sided factor is the non-central-t quantile scaled by root n", "the two-sided
factor solves its documented coverage equation", "rank / confidence / coverage / sample size are mutually consistent").  The rules compare the
composition extracted from the source with that definition, the Newton iteration with the derivative of its own residual, and the four arms of
``order_stats`` with each other.  Values of the special functions, monotonicity and limits are not decided.

Everything is decided on *values* (verifier/c20_flow.py): names are resolved through the module's imports, temporaries and module constants are
substituted, keyword arguments are placed by the scipy signature, module-level helpers / nested functions / closures / lambdas are followed, the
``which`` dispatch is resolved by evaluating the function under ``which == 'x'`` (any chain order, early returns), the element-wise application over
``np.broadcast`` is one construct in all its spellings, the Newton loop is found by its carried iterate and the bracket rule reads sign tests off
the value of a test, not its spelling.
"""
from __future__ import annotations

import ast
from fractions import Fraction

from . import e2_formula as F
from .c20_flow import (RELS, STATS, Bracket, Ev, World, const_value, enumerate_paths, flip, fn_atoms, literals, opaque_calls, peel, rat, resolve,
                       same, symbols, symname)
from .core import AnchorError, Unsupported
from .e2_eval import _assigned_names, is_unknown, need
from .sem import place, unfn


def _sig(fn):
    return [a.arg for a in fn.args.posonlyargs + fn.args.args]


def _returning(ctx, W, fn, env, what):
    paths = [q for q in enumerate_paths(W, lambda: _run(W, fn, env)) if q.returns]
    if not paths:
        raise AnchorError(f"{what}: return")
    return paths


def _run(W, fn, env):
    ev = Ev(W, env=dict(env), fnode=fn)
    ev.run(fn.body)
    return ev


def _why(v):
    return v.why if is_unknown(v) else repr(v)


# ---------------------------------------------------------------------------------------------------------------------------------
def r1_ksingle(ctx):
    W = World(ctx)
    fn = ctx.src.func(STATS, "ksingle")
    p, c, n = F.sym("p"), F.sym("c"), F.sym("n")
    paths = _returning(ctx, W, fn, {"p": p, "c": c, "n": n}, "ksingle")
    bad = [q for q in paths if not rat(q.value)]
    if bad:
        ctx.error("ksingle: returned expression", bad[0].node, _why(bad[0].value))
        return
    want = F.fn("nct.ppf", c, n - 1, F.sqrt(n) * F.fn("norm.ppf", p)) / F.sqrt(n)
    wrong = [q for q in paths if not same(q.value, want)]
    text = ("ksingle: k = t'_{c}(n - 1, sqrt(n) z_p) / sqrt(n): the c-quantile of the non-central t distribution with n - 1 degrees of freedom and "
            "non-centrality sqrt(n) * (normal p-quantile), divided by sqrt(n)")
    if wrong:
        v = wrong[0].value
        at = fn_atoms(v, "nct.ppf")
        inner_ok = len(at) == 1 and same(at[0][0], c) and same(at[0][1], n - 1) and same(at[0][2], F.sqrt(n) * F.fn("norm.ppf", p))
        if inner_ok and opaque_calls(v):
            # the quantile itself is the defined one; what is done to it goes through a call the checker has no model of
            ctx.error(text, wrong[0].node, {"code": repr(v), "not modelled": opaque_calls(v)})
        else:
            ctx.fail(text, wrong[0].node, {"code": repr(v), "definition": repr(want)})
    else:
        ctx.ok(text, paths[0].node)
    # which argument plays which role (reported separately so that a swap is named)
    ok = all(len(fn_atoms(q.value, "nct.ppf")) == 1 for q in paths)
    ctx.check(ok, "ksingle: exactly one non-central t quantile is evaluated", paths[0].node)
    ok = _sig(fn) == ["p", "c", "n"]
    ctx.check(ok, "ksingle(p, c, n): coverage, confidence, sample size in the documented order", fn)


# ---------------------------------------------------------------------------------------------------------------------------------
def _nnf(v, neg=False):
    """value of a test -> ('and' | 'or', [..]) | ('any' | 'all', sub) | ('cmp', op, a, b) | ('other', value)"""
    u = unfn(v) if rat(v) else None
    if u:
        name, args = u
        if all(isinstance(a, F.Rat) for a in args):
            if name == "not" and len(args) == 1:
                return _nnf(args[0], not neg)
            if name in ("bool:And", "bool:Or"):
                conj = (name == "bool:And") != neg
                return ("and" if conj else "or", [_nnf(a, neg) for a in args])
            if name in ("any", "all") and len(args) == 1:
                return (name if not neg else {"any": "all", "all": "any"}[name], _nnf(args[0], neg))
            if name.startswith("cmp:") and len(args) == 2:
                op = name[4:]
                if neg:
                    op = {"Lt": "GtE", "LtE": "Gt", "Gt": "LtE", "GtE": "Lt", "Eq": "NotEq", "NotEq": "Eq"}.get(op, "?")
                return ("cmp", op, args[0], args[1])
    return ("other", v)


def r2_getr(ctx):
    fn = ctx.src.func(STATS, "_getr")
    params = _sig(fn)
    if len(params) < 2:
        raise AnchorError("_getr(n, prob, tol)")
    S = F.sym("S")                     # S stands for 1/sqrt(n): the formulas are polynomial in S
    n, prob, tol = 1 / (S * S), F.sym("prob"), F.sym("tol")
    phis = []

    def extra(nm, node, ev):
        d = resolve(nm, ev.W.tab)
        if d == "scipy.stats.norm.cdf" and len(node.args) == 1 and not node.keywords:
            u = need(ev.ev(node.args[0]))
            for s, u0 in phis:
                if same(u, u0):
                    return s
            s = F.sym(f"Phi{len(phis)}")
            phis.append((s, u))
            return s
        if d == "scipy.stats.norm.pdf" and len(node.args) == 1 and not node.keywords:
            u = need(ev.ev(node.args[0]))
            return F.exp(-(u * u) / 2) / F.sqrt(2 * F.sym("pi"))
        return NotImplemented

    W = World(ctx, extra=extra)
    # the Newton loop: the one loop of the function (while / while True + break / counted for)
    loops = [s for s in fn.body if isinstance(s, (ast.While, ast.For))]
    if len(loops) != 1:
        raise AnchorError("_getr: Newton loop")
    loop = loops[0]
    env = {params[0]: n, params[1]: prob}
    if len(params) > 2:
        env[params[2]] = tol
    ev = Ev(W, env=env, fnode=fn)
    at = fn.body.index(loop)
    ev.run(fn.body[:at])
    carried = sorted(_assigned_names(loop))
    head = {nm: F.sym(f"{nm}@0") for nm in carried}
    ev.env.update(head)
    conds, exits = [], []         # conditions under which the iteration goes on, environments at the points where it stops
    if isinstance(loop, ast.While) and not (isinstance(loop.test, ast.Constant) and loop.test.value):
        conds.append(need(ev.ev(loop.test), "loop test"))
        exits.append(dict(ev.env))
    for st in loop.body:
        if isinstance(st, ast.If) and not st.orelse and st.body and isinstance(st.body[-1], ast.Break) and all(isinstance(x, ast.Expr) for x in st.body[:-1]):
            conds.append(F.fn("not", need(ev.ev(st.test), "break test")))
            exits.append(dict(ev.env))
        else:
            ev.stmt(st)
    end = ev.env
    # the carried iterate: the name whose value after one pass is a non-trivial function of its own value before the pass
    cand = [nm for nm in carried if rat(end.get(nm)) and end[nm].depends_on(f"{nm}@0") and not (end[nm] - head[nm]).is_const()]
    if len(cand) != 1:
        ctx.error("_getr: Newton update", loop, {k: _why(end.get(k)) for k in carried})
        return
    it = cand[0]
    r0name = f"{it}@0"
    r0, new = head[it], end[it]
    counters = {f"{nm}@0" for nm in carried if rat(end.get(nm)) and (end[nm] - head[nm]).is_const()}
    # a step that is clipped / limited
    bounds = []
    while True:
        u = unfn(new)
        if not (u and u[0] in ("clip", "min", "max")):
            break
        phinames = {symname(s_) for s_, _ in phis}
        inner = [a for a in u[1] if isinstance(a, F.Rat) and symbols(a) & phinames]
        if len(inner) != 1:
            break
        bounds += [a for a in u[1] if a is not inner[0] and isinstance(a, F.Rat) and symname(a) != "None" and not a.is_const()]
        new = inner[0]
    step = r0 - new          # = num / den
    if len(phis) < 2:
        ctx.fail("_getr: the residual evaluates the normal distribution function at both integration limits", loop, len(phis))
        return
    # residual: the numerator of the step, as a combination of the Phi symbols
    numr, denr = F.Rat(step.n), F.Rat(step.d)
    # normalise sign/scale: residual g = sum a_k Phi_k - prob * s ; find scale so that coefficient of prob is -1
    cprob = numr.diff("prob")
    if cprob.is_zero():
        ctx.fail("_getr: the residual contains the requested coverage `prob`", loop, repr(numr))
        return
    g = numr / (-cprob)
    gp = denr / (-cprob)
    want_args = [(S + r0, F.const(1)), (S - r0, F.const(-1))]
    got = []
    rest = g + prob
    for s, u in phis:
        cf = g.diff(symname(s))
        if not cf.is_zero():
            got.append((u, cf))
            rest = rest - cf * s
    ok = len(got) == 2 and rest.is_zero() and all(any(u.equals(wu) and cf.equals(wc) for wu, wc in want_args) for u, cf in got) \
        and not got[0][0].equals(got[1][0])
    ctx.check(ok, "_getr: Newton residual is Phi(1/sqrt(n) + r) - Phi(1/sqrt(n) - r) - prob, the coverage equation documented in its docstring", loop,
              None if ok else {"terms": [(repr(u), repr(cf)) for u, cf in got], "rest": repr(rest)})
    # derivative: d/dr sum cf Phi(u) = sum cf phi(u) du/dr, phi(x) = exp(-x^2/2)/sqrt(2 pi)
    dg = F.const(0)
    for u, cf in got:
        dg = dg + cf * F.exp(-(u * u) / 2) / F.sqrt(2 * F.sym("pi")) * u.diff(r0name)
    ok = gp.equals(dg)
    ctx.check(ok, "_getr: the Newton denominator is the derivative of the residual with respect to r (Leibniz: phi(1/sqrt(n) + r) + phi(1/sqrt(n) - r), "
                  "phi the standard normal density)", loop, None if ok else {"code": repr(gp), "derivative": repr(dg)})
    # the iteration stops at fixed points of the update; a limited update has the limits as additional fixed points unless they bracket the root
    ok = not bounds
    ctx.check(ok, "_getr: the update is the Newton step itself - the iterate is not confined to limits whose bracketing of the root (sign of the residual "
                  "there) is never established", loop,
              None if ok else {"limits": [repr(b) for b in bounds], "why": "when the root lies beyond a limit the iteration stalls there: |r - r_old| = 0 "
                               "ends the loop and a value that does not solve the coverage equation is returned"})
    # loop continues while the last change exceeds tol: the condition under which the next pass is made must follow from |r_new - r_old| > tol
    # for ANY element (iteration caps aside)
    shift = {f"{nm}@0": end[nm] for nm in carried if rat(end.get(nm))}
    delta = new - r0 if not bounds else end[it] - r0

    def is_move(a):
        ua = unfn(a)
        if not (ua and ua[0] == "abs" and len(ua[1]) == 1):
            return False
        d = ua[1][0]
        if same(d, delta) or same(d, -delta):
            return True
        try:
            # a test made before the update sees the values the previous pass left: (r, r_old) = (T(x), x)
            dd = d.subs(shift)
        except Unsupported:
            return False
        return same(dd, delta) or same(dd, -delta)

    def is_tol(b):
        if not rat(b) or b.is_zero():
            return False
        k = b / tol
        return k.is_const() and 0 < k.const_value() <= 1

    def grade(t):
        if t[0] == "cmp":
            _, op, a, b = t
            if op in ("Gt", "GtE") and is_move(a) and is_tol(b):
                return "moving"
            if op in ("Lt", "LtE") and is_move(b) and is_tol(a):
                return "moving"
            return "cap" if (symbols(a) | symbols(b)) <= counters and not opaque_calls(a) and not opaque_calls(b) else "other"
        if t[0] == "any":
            return grade(t[1])
        if t[0] == "all":
            k = grade(t[1])
            return "all" if k == "moving" else k
        if t[0] == "and":
            ks = [grade(x) for x in t[1]]
            for k in ("all", "other", "moving"):
                if k in ks:
                    return k
            return "cap"
        if t[0] == "or":
            ks = [grade(x) for x in t[1]]
            if "moving" in ks:
                return "moving"
            return "cap" if all(k == "cap" for k in ks) else ("all" if "all" in ks else "other")
        return "cap" if rat(t[1]) and symbols(t[1]) <= counters and not opaque_calls(t[1]) else "other"

    grades = [grade(_nnf(c_)) for c_ in conds]
    ok = "moving" in grades and all(k in ("moving", "cap") for k in grades)
    why = None
    if not ok:
        why = "np.all: the iteration would stop as soon as one element of a broadcast input has converged" if "all" in grades else \
            {"goes on while": [repr(c_) for c_ in conds]}
    ctx.check(ok, "_getr: iteration continues while |r - r_old| exceeds the tolerance (for any element of an array-valued input)", loop, why)
    # every way out of the function returns the iterate as it is where the loop is left
    ok, where = bool(exits), fn
    for ex in exits:
        for q in enumerate_paths(W, lambda: _run_stmts(W, fn, fn.body[at + 1:], ex)):
            if q.ev.raised:
                continue
            if not q.ev.returns or not same(q.value, ex[it]):
                ok, where = False, (q.node if q.ev.returns else fn)
    ctx.check(ok, "_getr: returns the converged iterate", where)
    doc = ast.get_docstring(fn) or ""
    ok = "1/sqrt(n) + R" in doc and "1/sqrt(n) - R" in doc and "exp(-t^2/2)" in doc
    ctx.check(ok, "_getr: the docstring states the coverage integral with limits 1/sqrt(n) -/+ R", fn, nontrivial=False)


def _run_stmts(W, fn, stmts, env):
    ev = Ev(W, env=dict(env), fnode=fn)
    ev.run(stmts)
    return ev


# ---------------------------------------------------------------------------------------------------------------------------------
def r3_kdouble(ctx):
    fn = ctx.src.func(STATS, "kdouble")
    getr = ctx.src.func(STATS, "_getr")
    gp = _sig(getr)
    p, c, n = F.sym("p"), F.sym("c"), F.sym("n")
    seen = []

    def extra(nm, node, ev):
        if nm == "_getr":
            pos, kw = ev.args(node)
            seen.append((place(pos, kw, gp), node))
            return F.sym("R")
        return NotImplemented

    W = World(ctx, extra=extra, opaque=("_getr",))
    paths = _returning(ctx, W, fn, {"p": p, "c": c, "n": n, "tol": F.sym("tol")}, "kdouble")
    bad = [q for q in paths if not rat(q.value)]
    if bad:
        ctx.error("kdouble: returned expression", bad[0].node, _why(bad[0].value))
        return
    want = F.sqrt((n - 1) / F.fn("chi2.ppf", 1 - c, n - 1)) * F.sym("R")
    wrong = [q for q in paths if not (same(q.value, want) or same(q.value * q.value, want * want))]
    ctx.check(not wrong, "kdouble: k = r * sqrt((n - 1) / chi2_{1-c}(n - 1)): the coverage root scaled by the (1 - c)-quantile of chi-square with n - 1 degrees of freedom",
              (wrong or paths)[0].node, None if not wrong else {"code": repr(wrong[0].value), "definition": repr(want)})
    ok = bool(seen) and len({id(s[1]) for s in seen}) == 1 and all(same(s[0].get(gp[0]), n) and same(s[0].get(gp[1]), p) for s in seen)
    ctx.check(ok, "kdouble: the coverage root is computed for (n, p) - sample size and coverage in the positions _getr declares", seen[0][1] if seen else fn,
              None if ok else [{k: _why(x) for k, x in s[0].items()} for s in seen[:2]])
    ok = _sig(fn)[:3] == ["p", "c", "n"]
    ctx.check(ok, "kdouble(p, c, n): coverage, confidence, sample size in the documented order", fn)


# ---------------------------------------------------------------------------------------------------------------------------------
def _which_oracle(name, letter):
    def base(test, ev):
        if isinstance(test, ast.Compare) and len(test.ops) == 1:
            a, b = test.left, test.comparators[0]
            if isinstance(test.ops[0], ast.Eq):
                for x, y in ((a, b), (b, a)):
                    if isinstance(x, ast.Name) and x.id == name and x.id not in ev.env and isinstance(y, ast.Constant) and isinstance(y.value, str):
                        return y.value == letter
            if isinstance(test.ops[0], ast.In) and isinstance(a, ast.Name) and a.id == name and a.id not in ev.env \
                    and isinstance(b, (ast.Tuple, ast.List, ast.Set)) and all(isinstance(e, ast.Constant) for e in b.elts):
                return letter in [e.value for e in b.elts]
        return None
    return base


P, C, N, R = F.sym("p"), F.sym("c"), F.sym("n"), F.sym("r")
ARM_ENV = {"p": P, "c": C, "n": N, "r": R}


def _order_stats(ctx):
    """order_stats evaluated once per value of `which`: every path through the tests the dispatch leaves open"""
    cached = getattr(ctx, "_c20_order_stats", None)
    if cached is not None:
        return cached
    W = World(ctx)
    fn = ctx.src.func(STATS, "order_stats")
    sig = _sig(fn)
    which = sig[0] if sig else "which"
    arms = {}
    for letter in ("c", "n", "p", "r"):
        W.arm = letter
        W.base = _which_oracle(which, letter)
        arms[letter] = enumerate_paths(W, lambda: _run(W, fn, ARM_ENV))
    W.base = None
    ctx._c20_order_stats = (W, fn, which, arms)
    return ctx._c20_order_stats


def _calls_of(paths):
    """distinct brentq call sites met on these paths (first record with a usable residual per site)"""
    out = {}
    for q in paths:
        for rec in q.brentq:
            k = id(rec["node"])
            if k not in out or (not rat(out[k]["g"]) and rat(rec["g"])):
                out[k] = rec
    return sorted(out.values(), key=lambda r_: (r_["node"].lineno, r_["node"].col_offset))


# scipy.optimize.brentq defaults
XTOL, RTOL = Fraction("2e-12"), Fraction("8.881784197001252e-16")


def r4_order_stats(ctx):
    W, fn, which, arms = _order_stats(ctx)
    ok = all(any(q.returns for q in arms[k]) for k in arms)
    ctx.check(ok, "order_stats: one arm for each of p, c, n, r", fn, sorted(k for k in arms if any(q.returns for q in arms[k])))
    if not ok:
        return
    ret = {k: [q for q in arms[k] if q.returns] for k in arms}
    relation = F.fn("binom.cdf", R - 1, N, 1 - P)     # P(at most r - 1 of n samples exceed the p-quantile)

    # ---- c arm: direct
    bad = [q for q in ret["c"] if not (rat(q.value) and same(peel(q.value)[1], 1 - relation) and set(peel(q.value)[0]) <= {"each"})]
    ctx.check(not bad, "order_stats('c'): c = P(X >= r) = 1 - cdf(r - 1; n, 1 - p), X ~ Binomial(n, 1 - p) the number of samples above the p-quantile",
              (bad or ret["c"])[0].node, None if not bad else _why(bad[0].value))

    def root_arm(letter, unknown_sym, text):
        """arms solved by brentq: the residual handed to the root finder must be  (1 - c) - cdf(r - 1; n, 1 - p)  with the result as the unknown"""
        paths = ret[letter]
        for q in paths:
            if not rat(q.value):
                ctx.error(f"order_stats('{letter}'): returned value", q.node, _why(q.value))
                return None
        calls = _calls_of(arms[letter])
        if len(calls) != 1:
            ctx.error(f"order_stats('{letter}'): root finder call", fn, [ast.unparse(r_["node"]) for r_ in calls])
            return None
        rec = calls[0]
        g, xn = rec["g"], rec["Xname"]
        if not rat(g):
            ctx.error(f"order_stats('{letter}'): residual", rec["node"], _why(g))
            return None
        rooted = [q for q in paths if xn in symbols(q.value)]
        early = [q for q in paths if xn not in symbols(q.value)]
        if not rooted:
            ctx.error(f"order_stats('{letter}'): the root does not reach the result", rec["node"])
            return None
        inv = None        # the root as a function of the returned quantity
        for q in rooted:
            names, core = peel(q.value)
            # the result is an affine function of the root (the root itself, or its complement 1 - root): invert it
            try:
                al = core.diff(xn)
                be = core - al * rec["X"]
            except Unsupported:
                al = be = None
            if al is None or not al.is_const() or al.is_zero() or xn in symbols(be):
                ctx.error(f"order_stats('{letter}'): result is not an affine function of the root", q.node, repr(q.value))
                return None
            k = (unknown_sym - be) / al
            if inv is not None and not same(inv, k):
                ctx.error(f"order_stats('{letter}'): paths disagree on the result", q.node, repr(q.value))
                return None
            inv = k
        g2 = g.subs({xn: inv})
        want = (1 - C) - relation
        sigma = 1 if same(g2, want) else (-1 if same(g2, -want) else 0)
        ctx.check(sigma != 0, f"order_stats('{letter}'): {text} solves (1 - c) = cdf(r - 1; n, 1 - p) - the same relation as the 'c' arm", rec["node"],
                  None if sigma else {"residual": repr(g2), "relation": repr(want)})
        # any other exit returns a point at which the residual has just been found non-negative (the answer is already met there)
        for q in early:
            names, v = peel(q.value)
            try:
                gv = g.subs({xn: inv.subs({_name(unknown_sym): v})})
            except Unsupported:
                gv = None
            ok = False
            for val, tv, _node in q.decisions:
                if gv is None or not rat(tv) or not sigma:
                    continue
                alts = literals(tv, val)
                hit = []
                for alt in alts:
                    h = False
                    for lit in alt:
                        if lit[0] != "rel":
                            continue
                        s_ = 1 if same(lit[1], gv) else (-1 if same(lit[1], -gv) else 0)
                        if s_ and (lit[2] if s_ * sigma > 0 else flip(lit[2])) == "ge0":
                            h = True
                    hit.append(h)
                if hit and all(hit):
                    ok = True
            ctx.check(ok, f"order_stats('{letter}'): the early exit returns the point whose residual was just tested non-negative", q.node, repr(q.value))
        return rec, rooted

    rn = root_arm("n", N, "the sample size")
    root_arm("p", P, "the coverage")
    # ---- n arm: rounding up, at the root finder's full precision
    if rn:
        rec, rooted = rn
        ok = all("ceil" in peel(q.value)[0] and set(peel(q.value)[0]) <= {"ceil", "int", "each"} for q in rooted)
        ctx.check(ok, "order_stats('n'): the real root is rounded UP (smallest integer sample size meeting the confidence; the confidence increases with n)",
                  rooted[0].node, None if ok else [repr(q.value) for q in rooted])
        loose = {}
        for k, dflt in (("xtol", XTOL), ("rtol", RTOL)):
            v = rec["vals"].get(k)
            if v is None:
                continue
            cv = const_value(v)
            if cv is None:
                ctx.error(f"order_stats('n'): brentq {k}", rec["node"], _why(v))
            elif cv > dflt:
                loose[k] = float(cv)
        ctx.check(not loose, "order_stats('n'): the root that is rounded up to a whole sample size is computed to the root finder's default precision or better "
                             "(a root known only to within a visible fraction of a sample is rounded to the wrong integer whenever it lies that close to one)",
                  rec["node"], loose or None)
    # ---- r arm: generalised inverse of the same cdf in the count argument
    want = F.fn("binom.ppf", 1 - C, N, 1 - P)
    bad = [q for q in ret["r"] if not rat(q.value)]
    if bad:
        ctx.error("order_stats('r'): returned value", bad[0].node, _why(bad[0].value))
        return
    wrong = [q for q in ret["r"] if not (len(fn_atoms(q.value, "binom.ppf")) == 1 and same(F.fn("binom.ppf", *fn_atoms(q.value, "binom.ppf")[0]), want))]
    ctx.check(not wrong, "order_stats('r'): r = ppf(1 - c; n, 1 - p) = the smallest k with cdf(k) >= 1 - c, i.e. confidence(r) = 1 - cdf(r - 1) > c >= confidence(r + 1): "
                         "the largest rank that still meets the confidence under the 'c' arm's relation", (wrong or ret["r"])[0].node,
              None if not wrong else repr(wrong[0].value))
    wrong = [q for q in ret["r"] if not ("int" in peel(q.value)[0] and set(peel(q.value)[0]) <= {"int", "each"} and same(peel(q.value)[1], want))]
    ctx.check(not wrong, "order_stats('r'): the quantile is returned as an integer without offset", (wrong or ret["r"])[0].node,
              None if not wrong else repr(wrong[0].value))


def _name(s):
    return symname(s)


# ---------------------------------------------------------------------------------------------------------------------------------
def r5_brackets(ctx):
    """scipy.optimize.brentq(f, a, b) needs f(a) and f(b) of opposite sign.  Every bracket end must therefore be *established*: a literal end of the
    unknown's whole domain, or a value at which the sign of the residual was tested on every path that reaches the call."""
    W, fn, which, arms = _order_stats(ctx)
    calls = _calls_of([q for k in sorted(arms) for q in arms[k]])
    for rec in calls:
        call = rec["node"]
        ends = [("lower", rec["a"], 0), ("upper", rec["b"], 1)]
        if any(v is None for _, v, _ in ends):
            ctx.error("brentq call shape", call, ast.unparse(call))
            continue
        variable = [e for e in ends if const_value(e[1]) is None]
        misplaced = [w for w, v, _ in ends if W.function(symname(v)) is not None]
        if misplaced or (rat(rec["vals"].get("f")) and const_value(rec["vals"]["f"]) is not None):
            ctx.fail("order_stats: brentq(f, a, b) is given the residual function first and the two bracket ends after it", call, ast.unparse(call))
            continue
        for w, v, dom in ends:
            if const_value(v) is not None:
                ctx.check(const_value(v) == dom, f"order_stats: literal {w} bracket end is the end of the probability domain (0, 1)", call, float(const_value(v)))
        if not variable:
            continue
        if not rat(rec["g"]):
            ctx.error("order_stats: residual handed to brentq", call, _why(rec["g"]))
            continue
        holder = rec["ev"].fnode
        if holder is None:
            ctx.error("order_stats: function holding the brentq call", call)
            continue
        W.base = _which_oracle(which, rec["arm"])
        try:
            B = Bracket(W, rec, holder, rec["ev"].entry_env).run()
        finally:
            W.base = None
        # every other evaluation of the residual in this scope passes the same parameters as the root finder
        for cn, res, x0 in sorted(B.probes.values(), key=lambda t: (t[0].lineno, t[0].col_offset)):
            ok = rat(res) and rat(x0) and same(res, B.at(x0))
            ctx.check(ok, f"order_stats: bracket probe `{ast.unparse(cn.func)}(...)` uses the parameters the root finder is given", cn,
                      None if ok else {"probe": _why(res), "brentq residual there": repr(B.at(x0)) if rat(x0) else None})
        if not B.observed:
            ctx.error("order_stats: brentq call not reached by the abstract execution", call)
            continue
        st, av, bv, an, bn = B.observed[-1]
        est = {}
        for w, v, node in (("lower", av, an), ("upper", bv, bn)):
            if const_value(v) is not None:
                continue
            est[w] = [rel for rel in RELS if st.has(v, rel)]
            nm = node.id if isinstance(node, ast.Name) else None
            defs = sorted(st.defs.get(nm, ()), key=lambda d: (d.lineno, d.col_offset)) if nm else []
            blamed = B.culprits.get(nm, set()) if nm else set()
            why = ("brentq raises ValueError when f(a) and f(b) have the same sign: e.g. when `r` samples already meet the requested confidence "
                   "(f(r) >= 0), order_stats('n', ...) fails instead of returning r")
            if not defs:
                ok = bool(est[w])
                ctx.check(ok, f"order_stats: {w} bracket end `{ast.unparse(node)}` has the sign of its residual tested before the root finder is called" if ok
                          else f"order_stats: {w} bracket end `{ast.unparse(node)}` reaches brentq without any test of the residual's sign there", call,
                          None if ok else why)
            for d in defs:
                ok = bool(est[w]) or (bool(blamed) and d not in blamed)
                txt = ast.unparse(d)
                val = ast.unparse(d.value) if isinstance(d, (ast.Assign, ast.AugAssign, ast.AnnAssign)) and d.value is not None else txt
                ctx.check(ok, f"order_stats: {w} bracket end `{nm}` defined by `{txt}` has the sign of its residual tested before the root finder is called"
                          if ok else f"order_stats: {w} bracket end `{nm}` defined by `{txt}` reaches brentq without any test of the residual's sign there",
                          d, None if ok else why, key=f"C20-R5|order_stats|{w} end {nm} = {val} untested")
        if len(est) == 2 and all(est.values()):
            ok = ("le0" in est["lower"] and "ge0" in est["upper"]) or ("ge0" in est["lower"] and "le0" in est["upper"])
            ctx.check(ok, "order_stats: the two bracket ends are established with opposite signs of the residual", call, None if ok else est)
    ctx.check(len(calls) >= 2, "order_stats: two root-finder calls (sample size, coverage)", fn, len(calls), nontrivial=False)


RULES = [
    ("C20-R1", r1_ksingle, 3),
    ("C20-R2", r2_getr, 6),
    ("C20-R3", r3_kdouble, 3),
    ("C20-R4", r4_order_stats, 7),
    ("C20-R5", r5_brackets, 7),
]
LEVEL = "other"
EXPLANATION = ("Static: the compositions of library quantile / tail functions in stats.ksingle, kdouble, _getr and the four arms of order_stats are extracted "
               "as values (imports resolved, temporaries / module constants substituted, helpers, closures and lambdas followed, sf/isf/betainc rewritten to "
               "cdf/ppf) and compared with the definitions the property states; the Newton denominator is checked to be the derivative of the residual; the "
               "four order_stats arms are checked to share one binomial relation; every brentq bracket end has the sign of the residual established.")
MANIFEST = {
    "text": "Thin partial claim decided statically: (R1) ksingle is nct.ppf(c; n-1, sqrt(n) z_p)/sqrt(n); (R2) _getr's Newton residual is the documented coverage "
            "equation Phi(1/sqrt n + r) - Phi(1/sqrt n - r) = prob, its denominator is the residual's derivative, the step is not confined to unestablished "
            "limits, the loop goes on while any element moves by more than tol; (R3) kdouble scales that root by "
            "sqrt((n-1)/chi2.ppf(1-c, n-1)) and passes (n, p) in _getr's order; (R4) the c, n, p and r arms of order_stats all express 1 - c = cdf(r - 1; n, 1 - p) "
            "(sf, betainc and ppf forms rewritten), n is rounded up from a root of full precision, r is the integer quantile; (R5) brentq brackets are sign-tested. "
            "Not decided: values of nct/chi2/binom/betainc, convergence of the "
            "Newton and brentq iterations, monotonicity in p and c, the large-n limit.",
    "note": "Trusted: CPython ast; verifier/e2_formula.py; the identities sf = 1 - cdf, isf(q) = ppf(1 - q), 1 - I_x(s+1, n-s) = binom.cdf(s; n, x). "
            "Iteration caps (loop counters) are not modelled.",
    "technique": "static extraction of library-call compositions into normal forms and comparison with the defining formulas; symbolic derivative check of the Newton step; sibling agreement of the four order_stats arms; sign-fact abstract execution of the bracket search",
}
