"""C20 -- tolerance factors and order statistics (thin partial claim).

What is decided is only what is visible in the shape of the code: every routine is a composition of library quantile / tail functions, and
the property *defines* each result by such a composition ("the one-sided factor is the non-central-t quantile scaled by root n", "the two-sided
factor solves its documented coverage equation", "rank / confidence / coverage / sample size are mutually consistent").  The rules compare the
composition extracted from the source with that definition, the Newton iteration with the derivative of its own residual, and the four arms of
``order_stats`` with each other.  Values of the special functions, monotonicity and limits are not decided.

Everything is decided on *values* (verifier/c20_flow.py): names are resolved through the module's imports (also function-local ones), temporaries, module
constants (also computed ones, tuple-unpacked ones and literals pasted in for 1/sqrt(2*pi)) and aliases of library callables are substituted, keyword
arguments are placed by the scipy signature, frozen distributions and scipy.special spellings are rewritten to the same canonical form, module-level
helpers / nested functions / closures / lambdas / functools.partial objects are followed, the ``which`` dispatch is resolved by evaluating the function
with ``which`` bound to each letter (any chain order, early returns, ``match``, a table of functions), the element-wise application over
``np.broadcast`` is one construct in all its spellings, the Newton loop is analysed pass-wise over every path through its body (loop test, break in
either arm, return from inside, a flag carried to the next pass, ``with`` / ``try`` around it) and the bracket rule reads sign tests off the value of a
test, not its spelling, following the search into helpers and out to the caller that made the first test.  What a helper establishes about the
values it returns goes with those values to every call site: each way a helper returns is a case of its own in the caller (the sign facts, the returned
values, whether a returned value is None / a flag is set), so a search that *returns* the bracket - or None when none is needed - is read like the
inlined search; a helper call may sit anywhere in a statement (argument of another call, starred, element expression of a comprehension or body of a
loop over the broadcast operands).  A loop the evaluator does not execute is summarised by what every definition reaching its exit has in common
(a number, never None), so a test of the kind `b is None` after the helper is decided and no path that cannot happen is explored.

A construct that cannot be lowered gives ANALYSIS-ERROR (exit 2), never VIOLATION: an array filled by a loop the evaluator does not follow is
*unknown*, a test or a Newton step through an unmodelled function is *unknown*.
"""
from __future__ import annotations

import ast
from fractions import Fraction

from . import e2_formula as F
from .c20_flow import (ALIAS, RELS, STATS, Bracket, Ev, World, const_truth, const_value, enumerate_paths, flip, fn_atoms, literals, opaque_calls, rat, resolve,
                       same, symbols, symname)
from .core import AnchorError, Unsupported
from .e2_eval import DictValue, Unknown, _assigned_names, is_unknown, need
from .sem import place, unfn
from .c20_flow import peel as _peel0


def _sig(fn):
    return [a.arg for a in fn.args.posonlyargs + fn.args.args]


def _returning(ctx, W, fn, env, what):
    paths = [q for q in enumerate_paths(W, lambda: _run(W, fn, env)) if q.returns]
    if not paths:
        raise AnchorError(f"{what}: return")
    return paths


def _run(W, fn, env):
    ev = Ev(W, env=dict(env), fnode=fn)
    ev.run(fn.body)
    return ev


def _why(v):
    return v.why if is_unknown(v) else repr(v)


# ---------------------------------------------------------------------------------------------------------------------------------
def r1_ksingle(ctx):
    W = World(ctx)
    fn = ctx.src.func(STATS, "ksingle")
    p, c, n = F.sym("p"), F.sym("c"), F.sym("n")
    paths = _returning(ctx, W, fn, {"p": p, "c": c, "n": n}, "ksingle")
    bad = [q for q in paths if not rat(q.value)]
    if bad:
        ctx.error("ksingle: returned expression", bad[0].node, _why(bad[0].value))
        return
    want = F.fn("nct.ppf", c, n - 1, F.sqrt(n) * F.fn("norm.ppf", p)) / F.sqrt(n)
    wrong = [q for q in paths if not same(q.value, want)]
    text = ("ksingle: k = t'_{c}(n - 1, sqrt(n) z_p) / sqrt(n): the c-quantile of the non-central t distribution with n - 1 degrees of freedom and "
            "non-centrality sqrt(n) * (normal p-quantile), divided by sqrt(n)")
    if wrong:
        v = wrong[0].value
        at = fn_atoms(v, "nct.ppf")
        inner_ok = len(at) == 1 and same(at[0][0], c) and same(at[0][1], n - 1) and same(at[0][2], F.sqrt(n) * F.fn("norm.ppf", p))
        if inner_ok and opaque_calls(v):
            # the quantile itself is the defined one; what is done to it goes through a call the checker has no model of
            ctx.error(text, wrong[0].node, {"code": repr(v), "not modelled": opaque_calls(v)})
        else:
            ctx.fail(text, wrong[0].node, {"code": repr(v), "definition": repr(want)})
    else:
        ctx.ok(text, paths[0].node)
    # which argument plays which role (reported separately so that a swap is named)
    ok = all(len(fn_atoms(q.value, "nct.ppf")) == 1 for q in paths)
    ctx.check(ok, "ksingle: exactly one non-central t quantile is evaluated", paths[0].node)
    ok = _sig(fn) == ["p", "c", "n"]
    ctx.check(ok, "ksingle(p, c, n): coverage, confidence, sample size in the documented order", fn)


# ---------------------------------------------------------------------------------------------------------------------------------
def _nnf(v, neg=False):
    """value of a test -> ('and' | 'or', [..]) | ('any' | 'all', sub) | ('cmp', op, a, b) | ('other', value)"""
    u = unfn(v) if rat(v) else None
    if u:
        name, args = u
        if all(isinstance(a, F.Rat) for a in args):
            if name == "not" and len(args) == 1:
                return _nnf(args[0], not neg)
            if name in ("bool:And", "bool:Or"):
                conj = (name == "bool:And") != neg
                return ("and" if conj else "or", [_nnf(a, neg) for a in args])
            if name in ("any", "all") and len(args) == 1:
                return (name if not neg else {"any": "all", "all": "any"}[name], _nnf(args[0], neg))
            if name.startswith("cmp:") and len(args) == 2:
                op = name[4:]
                if neg:
                    op = {"Lt": "GtE", "LtE": "Gt", "Gt": "LtE", "GtE": "Lt", "Eq": "NotEq", "NotEq": "Eq"}.get(op, "?")
                return ("cmp", op, args[0], args[1])
    return ("other", F.fn("not", v) if neg and rat(v) else v)


def _getr_fn(ctx):
    """the coverage-root solver: `_getr`, or - when it was renamed - the one function of the module with a loop of its own that kdouble calls"""
    if ctx.src.has_func(STATS, "_getr"):
        return ctx.src.func(STATS, "_getr")
    mod = ctx.src.mod(STATS)
    top = {q: f for q, f in mod.funcs.items() if "." not in q and "#" not in q}
    seen, todo = [], [ctx.src.func(STATS, "kdouble")]
    while todo:
        f = todo.pop()
        for x in ast.walk(f):
            if isinstance(x, ast.Call) and isinstance(x.func, ast.Name) and x.func.id in top and top[x.func.id] not in seen and x.func.id != "kdouble":
                seen.append(top[x.func.id])
                todo.append(top[x.func.id])
    cands = [f for f in seen if any(isinstance(st, (ast.While, ast.For)) for st in _through_with(f.body))]
    if len(cands) != 1:
        raise AnchorError("function _getr (the coverage-root solver called by kdouble) not found in " + STATS)
    return cands[0]


def r2_getr(ctx):
    fn = _getr_fn(ctx)
    params = _sig(fn)
    if len(params) < 2:
        raise AnchorError("_getr(n, prob, tol)")
    S = F.sym("S")                     # S stands for 1/sqrt(n): the formulas are polynomial in S
    n, prob, tol = 1 / (S * S), F.sym("prob"), F.sym("tol")
    phis = []

    def extra(nm, node, ev):
        d = resolve(nm, ev.W.tab)
        d = ALIAS.get(d, d)
        if d in ("scipy.stats.norm.cdf", "scipy.stats.norm.sf"):
            # the distribution function in its canonical form (sf = 1 - cdf, keywords placed); Phi(u) becomes a symbol of its own per argument u
            v = ev.W.lib(d, node, ev)
            at = fn_atoms(v, "norm.cdf") if rat(v) else []
            if len(at) != 1 or len(at[0]) != 1:
                return v
            u = at[0][0]
            s = next((s_ for s_, u0 in phis if same(u, u0)), None)
            if s is None:
                s = F.sym(f"Phi{len(phis)}")
                phis.append((s, u))
            atom = F.fn("norm.cdf", u)
            return s if same(v, atom) else (1 - s if same(v, 1 - atom) else v)
        if d == "scipy.stats.norm.pdf" and len(node.args) == 1 and not node.keywords:
            u = need(ev.ev(node.args[0]))
            return F.exp(-(u * u) / 2) / F.sqrt(2 * F.sym("pi"))
        return NotImplemented

    W = World(ctx, extra=extra)
    env = {params[0]: n, params[1]: prob}
    if len(params) > 2:
        env[params[2]] = tol
    dflt = Ev(W)
    for a_, d_ in list(zip((fn.args.posonlyargs + fn.args.args)[::-1], fn.args.defaults[::-1])) + \
            [(a_, d_) for a_, d_ in zip(fn.args.kwonlyargs, fn.args.kw_defaults) if d_ is not None]:
        if a_.arg not in env:
            env[a_.arg] = dflt.ev(d_)          # e.g. the iteration limit as a defaulted parameter
    # the Newton loop: the one loop of the function (while / while True + break / counted for; a `with` block around it is transparent).  When the
    # function has no loop of its own but hands the iteration to one helper of the module, the analysis moves into that helper with the values the
    # call binds its parameters to; what the helper returns must then be returned unchanged.
    handed_on = []
    for _ in range(3):
        body = _through_with(fn.body)
        loops = [s for s in body if isinstance(s, (ast.While, ast.For))]
        if loops:
            break
        inner = [f for nm_, f in W.modfuncs.items() if f is not fn and any(isinstance(s, (ast.While, ast.For)) for s in _through_with(f.body))
                 and any(isinstance(x, ast.Call) and isinstance(x.func, ast.Name) and x.func.id == nm_ for x in ast.walk(fn))]
        if len(inner) != 1:
            break
        bound, held = [], W.extra

        def into(nm, node, ev, inner=inner[0], bound=bound, held=held):
            if nm == inner.name:
                pos, kw = ev.args(node)
                bound.append(ev.W.bind(inner, None, pos, kw, nm))
                return F.sym("<iterate>")
            return held(nm, node, ev)

        W.extra = into
        try:
            outer_paths = _returning(ctx, W, fn, env, "_getr")
        finally:
            W.extra = held
        if not bound or any(is_unknown(b_) for b_ in bound):
            ctx.error("_getr: call of the helper that holds the Newton loop", fn, bound[0].why if bound else inner[0].name)
            return
        handed_on.append((fn, outer_paths))
        fn, env = inner[0], bound[0]
    if len(loops) != 1:
        raise AnchorError("_getr: Newton loop")
    loop = loops[0]
    ev = Ev(W, env=env, fnode=fn)
    at = body.index(loop)
    _established(ctx, W, fn, body[:at], env, loop)
    ev.run(body[:at])
    carried = sorted(_assigned_names(loop))
    head = {nm: F.sym(f"{nm}@0") for nm in carried}
    head_env = dict(ev.env)
    head_env.update(head)
    tested = isinstance(loop, ast.While) and not (isinstance(loop.test, ast.Constant) and loop.test.value)

    # one pass of the loop on generic values of the carried names, once for every combination of outcomes of the tests met on the way: a path
    # either reaches the next pass (falls off the end of the body, `continue`) or leaves (the loop test fails, `break`, `return`, `raise`)
    def one_pass():
        e = Ev(W, env=dict(head_env), fnode=fn)
        e.at_head = False
        if tested and e.decide(loop.test) is False:
            e.at_head = e.broke = True
            return e
        e.run(loop.body)
        return e

    paths = enumerate_paths(W, one_pass)
    going = [q for q in paths if not (q.ev.raised or q.ev.returns or q.ev.broke)]
    leaving = [q for q in paths if q.ev.raised or q.ev.returns or q.ev.broke]
    if not going:
        ctx.error("_getr: Newton update", loop, "no path through the loop body reaches a next pass")
        return
    end = dict(going[0].ev.env)
    for q in going[1:]:
        for nm in carried:
            if not same(q.ev.env.get(nm), end.get(nm)) and not (is_unknown(q.ev.env.get(nm)) and is_unknown(end.get(nm))):
                end[nm] = Unknown(f"{nm}: differs between the paths through the loop body")

    def outcomes(q):
        return tuple(d[0] for d in q.decisions)

    def goes_on_while(q):
        """the tests that decide whether the pass on path q is completed: a test matters when its other outcome can lead out of the loop"""
        key, out = outcomes(q), []
        for k, (val, tv, _node) in enumerate(q.decisions):
            other = key[:k] + (not val,)
            if any(outcomes(x)[:k + 1] == other for x in leaving):
                out.append(need(tv, "loop test") if val else F.fn("not", need(tv, "loop test")))
        return out

    conds_by_path = [goes_on_while(q) for q in going]
    conds = [c_ for cs in conds_by_path for c_ in cs]
    # where the loop is left: (environment there, statements that follow)
    after = body[at + 1:]
    exits = []
    for q in leaving:
        if q.ev.raised or q.ev.returns:
            continue
        exits.append((dict(q.ev.env), (list(loop.orelse) if q.ev.at_head else []) + after))
    if isinstance(loop, ast.For):
        exits.append((dict(head_env), list(loop.orelse) + after))        # the iterable is used up
    # the carried iterate: the name whose value after one pass is a non-trivial function of its own value before the pass
    cand = [nm for nm in carried if rat(end.get(nm)) and end[nm].depends_on(f"{nm}@0") and not (end[nm] - head[nm]).is_const()]
    if len(cand) != 1:
        ctx.error("_getr: Newton update", loop, {k: _why(end.get(k)) for k in carried})
        return
    it = cand[0]
    r0name = f"{it}@0"
    r0, new = head[it], end[it]
    counters = {f"{nm}@0" for nm in carried if rat(end.get(nm)) and (end[nm] - head[nm]).is_const()}
    # a step that is clipped / limited
    bounds = []
    while True:
        u = unfn(new)
        if not (u and u[0] in ("clip", "min", "max")):
            break
        phinames = {symname(s_) for s_, _ in phis}
        inner = [a for a in u[1] if isinstance(a, F.Rat) and symbols(a) & phinames]
        if len(inner) != 1:
            break
        bounds += [a for a in u[1] if a is not inner[0] and isinstance(a, F.Rat) and symname(a) != "None" and not a.is_const()]
        new = inner[0]
    step = r0 - new          # = num / den
    if opaque_calls(step):
        ctx.error("_getr: the Newton step goes through a function the checker has no model of", loop, opaque_calls(step))
        return
    if len(phis) < 2:
        ctx.fail("_getr: the residual evaluates the normal distribution function at both integration limits", loop, len(phis))
        return
    # residual: the numerator of the step, as a combination of the Phi symbols
    numr, denr = F.Rat(step.n), F.Rat(step.d)
    # normalise sign/scale: residual g = sum a_k Phi_k - prob * s ; find scale so that coefficient of prob is -1
    cprob = numr.diff("prob")
    if cprob.is_zero():
        ctx.fail("_getr: the residual contains the requested coverage `prob`", loop, repr(numr))
        return
    g = numr / (-cprob)
    gp = denr / (-cprob)
    want_args = [(S + r0, F.const(1)), (S - r0, F.const(-1))]
    got = []
    rest = g + prob
    for s, u in phis:
        cf = g.diff(symname(s))
        if not cf.is_zero():
            got.append((u, cf))
            rest = rest - cf * s
    ok = len(got) == 2 and rest.is_zero() and all(any(u.equals(wu) and cf.equals(wc) for wu, wc in want_args) for u, cf in got) \
        and not got[0][0].equals(got[1][0])
    ctx.check(ok, "_getr: Newton residual is Phi(1/sqrt(n) + r) - Phi(1/sqrt(n) - r) - prob, the coverage equation documented in its docstring", loop,
              None if ok else {"terms": [(repr(u), repr(cf)) for u, cf in got], "rest": repr(rest)})
    # derivative: d/dr sum cf Phi(u) = sum cf phi(u) du/dr, phi(x) = exp(-x^2/2)/sqrt(2 pi)
    dg = F.const(0)
    for u, cf in got:
        dg = dg + cf * F.exp(-(u * u) / 2) / F.sqrt(2 * F.sym("pi")) * u.diff(r0name)
    ok = gp.equals(dg)
    ctx.check(ok, "_getr: the Newton denominator is the derivative of the residual with respect to r (Leibniz: phi(1/sqrt(n) + r) + phi(1/sqrt(n) - r), "
                  "phi the standard normal density)", loop, None if ok else {"code": repr(gp), "derivative": repr(dg)})
    # the iteration stops at fixed points of the update; a limited update has the limits as additional fixed points unless they bracket the root
    ok = not bounds
    ctx.check(ok, "_getr: the update is the Newton step itself - the iterate is not confined to limits whose bracketing of the root (sign of the residual "
                  "there) is never established", loop,
              None if ok else {"limits": [repr(b) for b in bounds], "why": "when the root lies beyond a limit the iteration stalls there: |r - r_old| = 0 "
                               "ends the loop and a value that does not solve the coverage equation is returned"})
    # loop continues while the last change exceeds tol: the condition under which the next pass is made must follow from |r_new - r_old| > tol
    # for ANY element (iteration caps aside)
    shift = {f"{nm}@0": end[nm] for nm in carried if rat(end.get(nm))}
    delta = new - r0 if not bounds else end[it] - r0

    def move_kind(a):
        """'moving': a is |r - r_old| (element-wise, or its largest element);  'all': its smallest element"""
        ua = unfn(a)
        if ua and ua[0] in ("amax", "amin") and len(ua[1]) == 1 and isinstance(ua[1][0], F.Rat):
            k = move_kind(ua[1][0])
            return k if ua[0] == "amax" or k is None else "all"
        if not (ua and ua[0] == "abs" and len(ua[1]) == 1):
            return None
        d = ua[1][0]
        if same(d, delta) or same(d, -delta):
            return "moving"
        try:
            # a test made before the update sees the values the previous pass left: (r, r_old) = (T(x), x)
            dd = d.subs(shift)
        except Unsupported:
            return None
        return "moving" if same(dd, delta) or same(dd, -delta) else None

    def is_tol(b):
        if not rat(b) or b.is_zero():
            return False
        k = b / tol
        return k.is_const() and 0 < k.const_value() <= 1

    given = {a_.arg for a_ in fn.args.posonlyargs + fn.args.args + fn.args.kwonlyargs} | {"S", "prob", "tol", "pi"}      # what the function is handed

    def capped(*vs):
        """a test that only limits the number of passes: it involves a pass counter and, of what the loop changes, nothing else (the limit itself may
        be a literal, a module constant or a parameter)"""
        syms = set()
        for v in vs:
            if not rat(v) or opaque_calls(v):
                return False
            syms |= symbols(v)
        return bool(syms & counters) and (syms - counters) <= given

    def grade(t, shifted=False):
        if t[0] == "cmp":
            _, op, a, b = t
            if op in ("Gt", "GtE") and move_kind(a) and is_tol(b):
                return move_kind(a)
            if op in ("Lt", "LtE") and move_kind(b) and is_tol(a):
                return move_kind(b)
            if capped(a, b) or (rat(a) and rat(b) and const_truth(F.fn("cmp:" + op, a, b)) is True):
                return "cap"          # a limit on the number of passes - or a comparison of constants that always holds (a limit nobody steps towards)
            return "opaque" if (rat(a) and opaque_calls(a)) or (rat(b) and opaque_calls(b)) else "other"
        if t[0] == "any":
            return grade(t[1], shifted)
        if t[0] == "all":
            k = grade(t[1], shifted)
            return "all" if k == "moving" else k
        if t[0] == "and":
            ks = [grade(x, shifted) for x in t[1]]
            for k in ("all", "other", "opaque", "moving"):
                if k in ks:
                    return k
            return "cap"
        if t[0] == "or":
            ks = [grade(x, shifted) for x in t[1]]
            if "moving" in ks:
                return "moving"
            return "cap" if all(k == "cap" for k in ks) else ("all" if "all" in ks else ("other" if "other" in ks else "opaque"))
        if capped(t[1]):
            return "cap"
        if rat(t[1]) and opaque_calls(t[1]):
            return "opaque"
        if not shifted and rat(t[1]):
            # a flag that carries the outcome of the test from the end of one pass to the head of the next: its value at the end of the pass
            try:
                v2 = t[1].subs(shift)
            except Unsupported:
                return "other"
            if not same(v2, t[1]):
                return grade(_nnf(v2), True)
        return "other"

    graded = [[grade(_nnf(c_)) for c_ in cs] for cs in conds_by_path]
    grades = [k for ks in graded for k in ks]
    ok = all("moving" in ks and all(k in ("moving", "cap") for k in ks) for ks in graded)
    why = None
    if not ok:
        why = "np.all: the iteration would stop as soon as one element of a broadcast input has converged" if "all" in grades else \
            {"goes on while": [repr(c_) for c_ in conds]}
    text = "_getr: iteration continues while |r - r_old| exceeds the tolerance (for any element of an array-valued input)"
    if not ok and "all" not in grades and "other" not in grades and "opaque" in grades:
        ctx.error(text, loop, {"the loop test goes through a function the checker has no model of": [repr(c_) for c_ in conds]})
    else:
        ctx.check(ok, text, loop, why)
    # every way out of the function returns the iterate as it is where the loop is left
    ok, where, unknown = bool(exits) or any(q.ev.returns for q in leaving), fn, None
    for q in leaving:
        if q.ev.returns and not q.ev.raised and not same(q.value, q.ev.env.get(it)):
            ok, where = False, q.node
            unknown = unknown or (q.value if not rat(q.value) else None)
    for ex, stmts in exits:
        for q in enumerate_paths(W, lambda: _run_stmts(W, fn, stmts, ex)):
            if q.ev.raised:
                continue
            if not q.ev.returns or not same(q.value, ex[it]):
                ok, where = False, (q.node if q.ev.returns else fn)
                unknown = unknown or (q.value if q.ev.returns and not rat(q.value) else None)
    if not ok and unknown is not None:
        ctx.error("_getr: returns the converged iterate", where, _why(unknown))
    else:
        ctx.check(ok, "_getr: returns the converged iterate", where)
    for f_, ps in handed_on:
        bad = [q for q in ps if symname(q.value) != "<iterate>"]
        ctx.check(not bad, f"{f_.name}: returns the iterate its helper converged to, unchanged", (bad or ps)[0].node, None if not bad else _why(bad[0].value))
    # documentation only (not a condition on behaviour): the integral the docstring shows has the limits the residual uses.  Compared loosely
    # (blanks and case ignored); a docstring that spells the integral differently is not compared at all.
    doc = "".join((ast.get_docstring(fn) or "").lower().split())
    if "1/sqrt(n)+r" in doc and "1/sqrt(n)-r" in doc and "exp(-t^2/2)" in doc:
        ctx.ok("_getr: the docstring states the coverage integral with limits 1/sqrt(n) -/+ R", fn, nontrivial=False)
    else:
        ctx.note("_getr: the docstring does not show the coverage integral in the plain-text form 1/sqrt(n) -/+ R; documentation not compared")


def _nnf_nodes(t):
    yield t
    if t[0] in ("and", "or"):
        for x in t[1]:
            yield from _nnf_nodes(x)
    elif t[0] in ("any", "all"):
        yield from _nnf_nodes(t[1])


def _established(ctx, W, fn, before, env, loop):
    """Every value the solver returns is *established* by the convergence test of its iteration: the coverage equation Phi(1/sqrt(n) + R) -
    Phi(1/sqrt(n) - R) = prob has no closed-form root for a finite sample size, so a value handed back on a path that never reaches the loop (a fast
    path, a shortcut for large n, the initial guess) solves it to within `tol` only if the guard of that path says so.  A guard that compares nothing
    with `tol` (a threshold on n, on prob, on 1/sqrt(n)) does not bound the residual by tol: for every such threshold there are tolerances the value
    misses.  Not decided (exit 2): a guard that does involve `tol`, or one that singles out an exact special case by an equality test.
    Second obligation: a guard that reduces over the broadcast arguments (np.all / np.any) makes the value returned for one element depend on the
    other elements - the array call then disagrees with the element-wise calls."""
    paths = [q for q in enumerate_paths(W, lambda: _run_stmts(W, fn, before, env)) if q.returns]
    t1 = ("_getr: every value returned is established by the convergence test of the Newton iteration - nothing is returned on a path that does not "
          "reach the loop unless its guard bounds the residual of the coverage equation by tol")
    t2 = ("_getr: the value returned for one element of a broadcast input depends on that element only - no np.all / np.any over the arguments "
          "decides whether the iteration is skipped")
    if not paths:
        ctx.ok(t1, loop)
        ctx.ok(t2, loop)
        return
    for q in paths:
        tests = [(val, tv, node) for val, tv, node in q.decisions]
        unk = [tv for _, tv, _ in tests if not rat(tv)]
        if unk or not rat(q.value):
            ctx.error(t1, q.node, _why(unk[0] if unk else q.value))
            continue
        nodes = [x for val, tv, _ in tests for x in _nnf_nodes(_nnf(tv, not val))]
        cmps = [x for x in nodes if x[0] == "cmp"]
        with_tol = any("tol" in (symbols(x[2]) | symbols(x[3])) for x in cmps)
        exact = any(x[1] == "Eq" and not opaque_calls(x[2]) and not opaque_calls(x[3]) for x in cmps)
        opaque = any(x[0] == "other" and rat(x[1]) and (opaque_calls(x[1]) or "tol" in symbols(x[1])) for x in nodes)
        guard = [("" if val else "not ") + ast.unparse(node) if isinstance(node, ast.AST) else repr(tv) for val, tv, node in tests]
        if with_tol or exact or opaque:
            ctx.error(t1, q.node, {"returned ahead of the loop": repr(q.value), "guard": guard,
                                   "not decided": "whether this guard bounds the residual of the coverage equation by tol"})
            continue
        ctx.fail(t1, q.node, {"returned ahead of the loop": repr(q.value), "guard": guard or "none",
                              "why": "the guard compares nothing with tol: the value is not a root of Phi(1/sqrt(n) + R) - Phi(1/sqrt(n) - R) = prob to "
                                     "within tol (the result misses the tolerance and jumps where the guard switches)"})
        red = [x for x in nodes if x[0] in ("any", "all") and any(y[0] == "cmp" and ((symbols(y[2]) | symbols(y[3])) & {"S", "prob"}) for y in _nnf_nodes(x))]
        ctx.check(not red, t2, q.node, None if not red else {"guard": guard, "why": "one small n in the array switches the fast path off for all of them: "
                                                                       "_getr(array)[i] differs from _getr(array[i])"})


def _through_with(stmts):
    """the statements of a block with the bodies of `with` / `try` blocks in their place (a context manager does not change what is computed; the
    rules follow the path on which nothing is raised)"""
    out = []
    for st in stmts:
        if isinstance(st, ast.With):
            out.extend(_through_with(st.body))
        elif isinstance(st, ast.Try):
            out.extend(_through_with(list(st.body) + list(st.orelse) + list(st.finalbody)))
        else:
            out.append(st)
    return out


def _run_stmts(W, fn, stmts, env):
    ev = Ev(W, env=dict(env), fnode=fn)
    ev.run(stmts)
    return ev


# ---------------------------------------------------------------------------------------------------------------------------------
def r3_kdouble(ctx):
    fn = ctx.src.func(STATS, "kdouble")
    getr = _getr_fn(ctx)
    gp = _sig(getr)
    p, c, n = F.sym("p"), F.sym("c"), F.sym("n")
    seen = []

    def extra(nm, node, ev):
        if nm == getr.name:
            pos, kw = ev.args(node)
            seen.append((place(pos, kw, gp), node))
            return F.sym("R")
        return NotImplemented

    W = World(ctx, extra=extra, opaque=(getr.name,))
    paths = _returning(ctx, W, fn, {"p": p, "c": c, "n": n, "tol": F.sym("tol")}, "kdouble")
    bad = [q for q in paths if not rat(q.value)]
    if bad:
        ctx.error("kdouble: returned expression", bad[0].node, _why(bad[0].value))
        return
    want = F.sqrt((n - 1) / F.fn("chi2.ppf", 1 - c, n - 1)) * F.sym("R")
    wrong = [q for q in paths if not (same(q.value, want) or same(q.value * q.value, want * want))]
    text = "kdouble: k = r * sqrt((n - 1) / chi2_{1-c}(n - 1)): the coverage root scaled by the (1 - c)-quantile of chi-square with n - 1 degrees of freedom"
    if wrong and opaque_calls(wrong[0].value) and len(fn_atoms(wrong[0].value, "chi2.ppf")) == 1 and same(F.fn("chi2.ppf", *fn_atoms(wrong[0].value, "chi2.ppf")[0]), F.fn("chi2.ppf", 1 - c, n - 1)):
        # the quantile is the defined one; what is done to it goes through a call the checker has no model of
        ctx.error(text, wrong[0].node, {"code": repr(wrong[0].value), "not modelled": opaque_calls(wrong[0].value)})
    else:
        ctx.check(not wrong, text, (wrong or paths)[0].node, None if not wrong else {"code": repr(wrong[0].value), "definition": repr(want)})
    ok = bool(seen) and len({id(s[1]) for s in seen}) == 1 and all(same(s[0].get(gp[0]), n) and same(s[0].get(gp[1]), p) for s in seen)
    ctx.check(ok, "kdouble: the coverage root is computed for (n, p) - sample size and coverage in the positions _getr declares", seen[0][1] if seen else fn,
              None if ok else [{k: _why(x) for k, x in s[0].items()} for s in seen[:2]])
    ok = _sig(fn)[:3] == ["p", "c", "n"]
    ctx.check(ok, "kdouble(p, c, n): coverage, confidence, sample size in the documented order", fn)


# ---------------------------------------------------------------------------------------------------------------------------------
def _text_of_value(v):
    s_ = symname(v)
    if s_ and s_[:1] in "'\"":
        try:
            t = ast.literal_eval(s_)
        except (ValueError, SyntaxError):
            return None
        return t if isinstance(t, str) else None
    return None


def _text_of(node, ev):
    """the string a simple operand stands for: a literal, or a name whose *value* is a string (the dispatch argument itself, a copy of it, a
    module-level constant)"""
    if isinstance(node, ast.Constant):
        return node.value if isinstance(node.value, str) else None
    if isinstance(node, ast.Name):
        return _text_of_value(ev.env.get(node.id, ev.W.modenv.get(node.id)))
    return None


def _which_oracle(test, ev):
    """tests on the dispatch string are decided on values: `which == 'c'`, `'c' == which`, `which in ('r', 'c')`, a copy of `which`, a
    module-level tuple of letters; `!=`, `not in`, `not`, `and`, `or` are composed by the caller"""
    if isinstance(test, ast.Compare) and len(test.ops) == 1:
        a, b, op = test.left, test.comparators[0], test.ops[0]
        if isinstance(op, ast.Eq):
            x, y = _text_of(a, ev), _text_of(b, ev)
            if x is not None and y is not None and not (isinstance(a, ast.Constant) and isinstance(b, ast.Constant)):
                return x == y
        if isinstance(op, ast.In) and not isinstance(a, ast.Constant):
            x = _text_of(a, ev)
            if x is None:
                return None
            if isinstance(b, (ast.Tuple, ast.List, ast.Set)):
                ys = [_text_of(e, ev) for e in b.elts]
            elif isinstance(b, ast.Dict):
                ys = [_text_of(k, ev) if k is not None else None for k in b.keys]
            elif isinstance(b, ast.Name):
                v = ev.env.get(b.id, ev.W.modenv.get(b.id))
                ys = [_text_of_value(e) for e in v] if isinstance(v, tuple) else (list(v.d) if isinstance(v, DictValue) and all(isinstance(k, str) for k in v.d) else [None])
            elif isinstance(b, ast.Constant) and isinstance(b.value, str):
                return x in b.value
            else:
                return None
            if all(y is not None for y in ys):
                return x in ys
    return None


P, C, N, R = F.sym("p"), F.sym("c"), F.sym("n"), F.sym("r")
ARM_ENV = {"p": P, "c": C, "n": N, "r": R}


def _order_stats(ctx):
    """order_stats evaluated once per value of `which`: every path through the tests the dispatch leaves open"""
    cached = getattr(ctx, "_c20_order_stats", None)
    if cached is not None:
        return cached
    W = World(ctx)
    fn = ctx.src.func(STATS, "order_stats")
    sig = _sig(fn)
    which = sig[0] if sig else "which"
    arms = {}
    W.base = _which_oracle
    for letter in ("c", "n", "p", "r"):
        W.arm = letter
        env = dict(ARM_ENV)
        env[which] = F.sym(repr(letter))
        arms[letter] = enumerate_paths(W, lambda: _run(W, fn, env))
    W.base = None
    ctx._c20_order_stats = (W, fn, which, arms)
    return ctx._c20_order_stats


def _calls_of(paths):
    """distinct brentq call sites met on these paths (first record with a usable residual per site)"""
    out = {}
    for q in paths:
        for rec in q.brentq:
            k = id(rec["node"])
            if k not in out or (not rat(out[k]["g"]) and rat(rec["g"])):
                out[k] = rec
    return sorted(out.values(), key=lambda r_: (r_["node"].lineno, r_["node"].col_offset))


# scipy.optimize.brentq defaults
XTOL, RTOL = Fraction("2e-12"), Fraction("8.881784197001252e-16")


def peel(v):
    """c20_flow.peel, reading -floor(-x) as ceil(x) (the same integer for every real x): int(-floor(-each(x))) -> (['int', 'ceil', 'each'], x)"""
    names = []
    for _ in range(8):
        nm, v = _peel0(v)
        names += nm
        try:
            t = v.n.t if rat(v) and v.d.is_const() and v.d.const_value() == 1 else None
        except Exception:  # noqa
            t = None
        if not t or len(t) != 1:
            break
        (mono, c), = t.items()
        if c != -1 or len(mono) != 1 or mono[0][1] != 1 or F.atom_desc(mono[0][0])[:2] != ("fn", "floor"):
            break
        u = unfn(-v)
        if not u or u[0] != "floor" or len(u[1]) != 1 or not rat(u[1][0]):
            break
        names.append("ceil")
        v = -u[1][0]
    return names, v


def _lift_each(core, depth=0):
    """be + al * each(x) (al, be free of the element-wise wrapper) -> be + al * x: an affine map commutes with `for every element`.  Anything else is
    returned as it is (and is then not an affine function of the root for the caller)."""
    if depth > 4 or not rat(core):
        return core
    try:
        if not core.d.is_const():
            return core
        hits = [a for a in core.n.atoms() if F.atom_desc(a)[:2] == ("fn", "each")]
        if len(hits) != 1:
            return core
        a = hits[0]
        al, rest = None, {}
        for mono, c in core.n.t.items():
            if any(x == a for x, _ in mono):
                if mono != ((a, 1),):
                    return core
                al = c
            else:
                rest[mono] = c
        E = F.Rat(F.Poly({((a, 1),): 1}))
        u = unfn(E)
        if al is None or not u or len(u[1]) != 1 or not rat(u[1][0]):
            return core
        dc = core.d.const_value()
        out = F.Rat(F.Poly(dict(rest))) / dc + (F.const(al) / dc) * u[1][0]
        return _lift_each(peel(out)[1] if not peel(out)[0] else out, depth + 1)
    except Exception:  # noqa
        return core


def r4_order_stats(ctx):
    W, fn, which, arms = _order_stats(ctx)
    ok = all(any(q.returns for q in arms[k]) for k in arms)
    ctx.check(ok, "order_stats: one arm for each of p, c, n, r", fn, sorted(k for k in arms if any(q.returns for q in arms[k])))
    if not ok:
        return
    ret = {k: [q for q in arms[k] if q.returns] for k in arms}
    relation = F.fn("binom.cdf", R - 1, N, 1 - P)     # P(at most r - 1 of n samples exceed the p-quantile)

    # ---- c arm: direct
    unk = [q for q in ret["c"] if not rat(q.value)]
    if unk:
        ctx.error("order_stats('c'): returned value", unk[0].node, _why(unk[0].value))
        return
    bad = [q for q in ret["c"] if not (rat(q.value) and same(peel(q.value)[1], 1 - relation) and set(peel(q.value)[0]) <= {"each"})]
    ctx.check(not bad, "order_stats('c'): c = P(X >= r) = 1 - cdf(r - 1; n, 1 - p), X ~ Binomial(n, 1 - p) the number of samples above the p-quantile",
              (bad or ret["c"])[0].node, None if not bad else _why(bad[0].value))

    def root_arm(letter, unknown_sym, text):
        """arms solved by brentq: the residual handed to the root finder must be  (1 - c) - cdf(r - 1; n, 1 - p)  with the result as the unknown"""
        paths = ret[letter]
        for q in paths:
            if not rat(q.value):
                ctx.error(f"order_stats('{letter}'): returned value", q.node, _why(q.value))
                return None
        calls = _calls_of(arms[letter])
        if len(calls) != 1:
            ctx.error(f"order_stats('{letter}'): root finder call", fn, [ast.unparse(r_["node"]) for r_ in calls])
            return None
        rec = calls[0]
        g, xn = rec["g"], rec["Xname"]
        if not rat(g):
            ctx.error(f"order_stats('{letter}'): residual", rec["node"], _why(g))
            return None
        rooted = [q for q in paths if xn in symbols(q.value)]
        early = [q for q in paths if xn not in symbols(q.value)]
        if not rooted:
            ctx.error(f"order_stats('{letter}'): the root does not reach the result", rec["node"])
            return None
        inv = None        # the root as a function of the returned quantity
        for q in rooted:
            names, core = peel(q.value)
            core = _lift_each(core)
            # the result is an affine function of the root (the root itself, or its complement 1 - root): invert it
            try:
                al = core.diff(xn)
                be = core - al * rec["X"]
            except Unsupported:
                al = be = None
            if al is None or not al.is_const() or al.is_zero() or xn in symbols(be):
                ctx.error(f"order_stats('{letter}'): result is not an affine function of the root", q.node, repr(q.value))
                return None
            k = (unknown_sym - be) / al
            if inv is not None and not same(inv, k):
                ctx.error(f"order_stats('{letter}'): paths disagree on the result", q.node, repr(q.value))
                return None
            inv = k
        g2 = g.subs({xn: inv})
        want = (1 - C) - relation
        sigma = 1 if same(g2, want) else (-1 if same(g2, -want) else 0)
        ctx.check(sigma != 0, f"order_stats('{letter}'): {text} solves (1 - c) = cdf(r - 1; n, 1 - p) - the same relation as the 'c' arm", rec["node"],
                  None if sigma else {"residual": repr(g2), "relation": repr(want)})
        # any other exit returns a point at which the residual has just been found non-negative (the answer is already met there)
        for q in early:
            names, v = peel(q.value)
            try:
                gv = g.subs({xn: inv.subs({_name(unknown_sym): v})})
            except Unsupported:
                gv = None
            ok = False
            for val, tv, _node in q.decisions:
                if gv is None or not rat(tv) or not sigma:
                    continue
                alts = literals(tv, val)
                hit = []
                for alt in alts:
                    h = False
                    for lit in alt:
                        if lit[0] != "rel":
                            continue
                        s_ = 1 if same(lit[1], gv) else (-1 if same(lit[1], -gv) else 0)
                        if s_ and (lit[2] if s_ * sigma > 0 else flip(lit[2])) == "ge0":
                            h = True
                    hit.append(h)
                if hit and all(hit):
                    ok = True
            ctx.check(ok, f"order_stats('{letter}'): the early exit returns the point whose residual was just tested non-negative", q.node, repr(q.value))
            if letter == "n":
                # "smallest n meeting the confidence": a point returned without a root search is the answer only when nothing smaller is admissible -
                # it is the least member of the domain (n >= r: r-th largest of n samples), or the residual one sample below was tested negative
                least = same(v, R)
                if not least and sigma:
                    try:
                        gb = g.subs({xn: inv.subs({_name(unknown_sym): v - 1})})
                    except Unsupported:
                        gb = None
                    for val, tv, _node in q.decisions:
                        if gb is None or not rat(tv):
                            continue
                        alts = literals(tv, val)
                        hit = []
                        for alt in alts:
                            h = False
                            for lit in alt:
                                if lit[0] != "rel":
                                    continue
                                s_ = 1 if same(lit[1], gb) else (-1 if same(lit[1], -gb) else 0)
                                if s_ and (lit[2] if s_ * sigma > 0 else flip(lit[2])) == "le0":
                                    h = True
                            hit.append(h)
                        if hit and all(hit):
                            least = True
                ctx.check(least, "order_stats('n'): a sample size returned without a root search is the least admissible one (n = r), or the residual one sample "
                                 "below it was tested negative - otherwise a smaller n may already meet the confidence", q.node, None if least else repr(v))
        return rec, rooted

    rn = root_arm("n", N, "the sample size")
    root_arm("p", P, "the coverage")
    # ---- n arm: rounding up, at the root finder's full precision
    if rn:
        rec, rooted = rn
        ok = all("ceil" in peel(q.value)[0] and set(peel(q.value)[0]) <= {"ceil", "int", "each"} for q in rooted)
        ctx.check(ok, "order_stats('n'): the real root is rounded UP (smallest integer sample size meeting the confidence; the confidence increases with n)",
                  rooted[0].node, None if ok else [repr(q.value) for q in rooted])
        loose = {}
        for k, dflt in (("xtol", XTOL), ("rtol", RTOL)):
            v = rec["vals"].get(k)
            if v is None:
                continue
            cv = const_value(v)
            if cv is None:
                ctx.error(f"order_stats('n'): brentq {k}", rec["node"], _why(v))
            elif cv > dflt:
                loose[k] = float(cv)
        ctx.check(not loose, "order_stats('n'): the root that is rounded up to a whole sample size is computed to the root finder's default precision or better "
                             "(a root known only to within a visible fraction of a sample is rounded to the wrong integer whenever it lies that close to one)",
                  rec["node"], loose or None)
    # ---- r arm: generalised inverse of the same cdf in the count argument
    want = F.fn("binom.ppf", 1 - C, N, 1 - P)
    bad = [q for q in ret["r"] if not rat(q.value)]
    if bad:
        ctx.error("order_stats('r'): returned value", bad[0].node, _why(bad[0].value))
        return
    wrong = [q for q in ret["r"] if not (len(fn_atoms(q.value, "binom.ppf")) == 1 and same(F.fn("binom.ppf", *fn_atoms(q.value, "binom.ppf")[0]), want))]
    ctx.check(not wrong, "order_stats('r'): r = ppf(1 - c; n, 1 - p) = the smallest k with cdf(k) >= 1 - c, i.e. confidence(r) = 1 - cdf(r - 1) > c >= confidence(r + 1): "
                         "the largest rank that still meets the confidence under the 'c' arm's relation", (wrong or ret["r"])[0].node,
              None if not wrong else repr(wrong[0].value))
    wrong = [q for q in ret["r"] if not ("int" in peel(q.value)[0] and set(peel(q.value)[0]) <= {"int", "each"} and same(peel(q.value)[1], want))]
    ctx.check(not wrong, "order_stats('r'): the quantile is returned as an integer without offset", (wrong or ret["r"])[0].node,
              None if not wrong else repr(wrong[0].value))


def _name(s):
    return symname(s)


# ---------------------------------------------------------------------------------------------------------------------------------
def r5_brackets(ctx):
    """scipy.optimize.brentq(f, a, b) needs f(a) and f(b) of opposite sign.  Every bracket end must therefore be *established*: a literal end of the
    unknown's whole domain, or a value at which the sign of the residual was tested on every path that reaches the call."""
    W, fn, which, arms = _order_stats(ctx)
    calls = _calls_of([q for k in sorted(arms) for q in arms[k]])
    for rec in calls:
        call = rec["node"]
        ends = [("lower", rec["a"], 0), ("upper", rec["b"], 1)]
        if any(v is None for _, v, _ in ends):
            ctx.error("brentq call shape", call, ast.unparse(call))
            continue
        variable = [e for e in ends if const_value(e[1]) is None]
        misplaced = [w for w, v, _ in ends if W.function(symname(v)) is not None]
        if misplaced or (rat(rec["vals"].get("f")) and const_value(rec["vals"]["f"]) is not None):
            ctx.fail("order_stats: brentq(f, a, b) is given the residual function first and the two bracket ends after it", call, ast.unparse(call))
            continue
        for w, v, dom in ends:
            if const_value(v) is not None:
                ctx.check(const_value(v) == dom, f"order_stats: literal {w} bracket end is the end of the probability domain (0, 1)", call, float(const_value(v)))
        if not variable:
            continue
        if not rat(rec["g"]):
            ctx.error("order_stats: residual handed to brentq", call, _why(rec["g"]))
            continue
        # the function that holds the call - or, when the search for the bracket was split between functions (the sign test at the lower end in
        # the caller, the doubling loop in a helper that also calls the root finder), the nearest caller from which every end is established
        frames = rec["ev"].frames()
        if not frames:
            ctx.error("order_stats: function holding the brentq call", call)
            continue
        W.base = _which_oracle
        B = known = None
        try:
            for k, (holder, entry) in enumerate(frames):
                try:
                    cand = Bracket(W, rec, holder, entry).run()
                except Unsupported:
                    if k == 0:
                        raise
                    continue
                if not cand.observed:
                    continue
                if B is None:
                    B = cand
                if known is None and all(rat(v) for _, av_, bv_, _, _ in cand.observed for v in (av_, bv_)):
                    known = cand         # the nearest function from which the values of both ends are visible (not handed in as parameters)
                if all(const_value(v) is not None or any(st_.has(v, rel) for rel in RELS) for st_, av_, bv_, _, _ in cand.observed for v in (av_, bv_)):
                    B = known = cand
                    break
            B = known or B
        finally:
            W.base = None
        if B is None:
            ctx.error("order_stats: brentq call not reached by the abstract execution", call)
            continue
        # every other evaluation of the residual in this scope passes the same parameters as the root finder
        for cn, res, x0 in sorted(B.probes.values(), key=lambda t: (t[0].lineno, t[0].col_offset)):
            if not rat(res) or not rat(x0):
                ctx.error(f"order_stats: bracket probe `{ast.unparse(cn.func)}(...)`", cn, _why(res if not rat(res) else x0))
                continue
            ok = same(res, B.at(x0))
            ctx.check(ok, f"order_stats: bracket probe `{ast.unparse(cn.func)}(...)` uses the parameters the root finder is given", cn,
                      None if ok else {"probe": _why(res), "brentq residual there": repr(B.at(x0)) if rat(x0) else None})
        if not B.observed:
            ctx.error("order_stats: brentq call not reached by the abstract execution", call)
            continue
        # one observation for every way the call is reached (the ways a helper returned are kept apart): an end is established when it is on each
        est = {}
        for w, k in (("lower", 1), ("upper", 2)):
            node = B.observed[-1][k + 2]
            vals = [(o[0], o[k]) for o in B.observed]
            if all(const_value(v) is not None for _, v in vals):
                continue
            bad = [v for _, v in vals if not rat(v)]
            if bad:
                ctx.error(f"order_stats: value of the {w} bracket end `{ast.unparse(node) if node is not None else '?'}`", call, _why(bad[0]))
                est[w] = ["unknown"]
                continue
            est[w] = [rel for rel in RELS if all(const_value(v) is None and st.has(v, rel) for st, v in vals)]
            nm = node.id if isinstance(node, ast.Name) else None
            defs = sorted({d for st, _ in vals for d in st.defs.get(nm, ())}, key=lambda d: (d.lineno, d.col_offset)) if nm else []
            # when an end is not established, the definitions that lose the sign fact are named - but only when one of them is among the
            # definitions reported here (a definition inside a helper whose result is unpacked later is not): otherwise every definition fails
            blamed = (B.culprits.get(nm, set()) if nm else set()) & set(defs)
            why = ("brentq raises ValueError when f(a) and f(b) have the same sign: e.g. when `r` samples already meet the requested confidence "
                   "(f(r) >= 0), order_stats('n', ...) fails instead of returning r")
            if not defs:
                ok = bool(est[w])
                ctx.check(ok, f"order_stats: {w} bracket end `{ast.unparse(node)}` has the sign of its residual tested before the root finder is called" if ok
                          else f"order_stats: {w} bracket end `{ast.unparse(node)}` reaches brentq without any test of the residual's sign there", call,
                          None if ok else why)
            for d in defs:
                ok = bool(est[w]) or (bool(blamed) and d not in blamed)
                txt = ast.unparse(d)
                val = ast.unparse(d.value) if isinstance(d, (ast.Assign, ast.AugAssign, ast.AnnAssign)) and d.value is not None else txt
                if isinstance(d, ast.Assign) and len(d.targets) == 1 and isinstance(d.targets[0], (ast.Tuple, ast.List)) and isinstance(d.value, (ast.Tuple, ast.List)) \
                        and len(d.value.elts) == len(d.targets[0].elts):
                    # a simultaneous assignment: the component that defines this name, as the sequential form would spell it
                    for t_, v_ in zip(d.targets[0].elts, d.value.elts):
                        if isinstance(t_, ast.Name) and t_.id == nm:
                            val = ast.unparse(v_)
                            txt = f"{nm} = {val}"
                ctx.check(ok, f"order_stats: {w} bracket end `{nm}` defined by `{txt}` has the sign of its residual tested before the root finder is called"
                          if ok else f"order_stats: {w} bracket end `{nm}` defined by `{txt}` reaches brentq without any test of the residual's sign there",
                          d, None if ok else why, key=f"C20-R5|order_stats|{w} end {nm} = {val} untested")
        if len(est) == 2 and all(est.values()) and not any("unknown" in e_ for e_ in est.values()):
            ok = ("le0" in est["lower"] and "ge0" in est["upper"]) or ("ge0" in est["lower"] and "le0" in est["upper"])
            ctx.check(ok, "order_stats: the two bracket ends are established with opposite signs of the residual", call, None if ok else est)
    ctx.check(len(calls) >= 2, "order_stats: two root-finder calls (sample size, coverage)", fn, len(calls), nontrivial=False)


RULES = [
    ("C20-R1", r1_ksingle, 3),
    ("C20-R2", r2_getr, 8),
    ("C20-R3", r3_kdouble, 3),
    ("C20-R4", r4_order_stats, 7),
    ("C20-R5", r5_brackets, 7),
]
LEVEL = "other"
EXPLANATION = ("Static: the compositions of library quantile / tail functions in stats.ksingle, kdouble, _getr and the four arms of order_stats are extracted "
               "as values (imports and aliases resolved, temporaries / module constants substituted, helpers, closures, lambdas and partial objects followed, "
               "sf/isf/betainc/frozen/scipy.special forms rewritten to cdf/ppf, every spelling of the element-wise application over np.broadcast read as one "
               "construct) and compared with the definitions the property states; the Newton denominator is checked to be the derivative of the residual; the "
               "four order_stats arms are checked to share one binomial relation; every brentq bracket end has the sign of the residual established.")
MANIFEST = {
    "text": "Thin partial claim decided statically: (R1) ksingle is nct.ppf(c; n-1, sqrt(n) z_p)/sqrt(n); (R2) _getr's Newton residual is the documented coverage "
            "equation Phi(1/sqrt n + r) - Phi(1/sqrt n - r) = prob, its denominator is the residual's derivative, the step is not confined to unestablished "
            "limits, the loop goes on while any element moves by more than tol; (R3) kdouble scales that root by "
            "sqrt((n-1)/chi2.ppf(1-c, n-1)) and passes (n, p) in _getr's order; (R4) the c, n, p and r arms of order_stats all express 1 - c = cdf(r - 1; n, 1 - p) "
            "(sf, betainc and ppf forms rewritten), n is rounded up from a root of full precision, r is the integer quantile; (R5) brentq brackets are sign-tested. "
            "Not decided: values of nct/chi2/binom/betainc, convergence of the "
            "Newton and brentq iterations, monotonicity in p and c, the large-n limit.",
    "note": "Trusted: CPython ast; verifier/e2_formula.py; the identities sf = 1 - cdf, isf(q) = ppf(1 - q), 1 - I_x(s+1, n-s) = binom.cdf(s; n, x). "
            "Iteration caps (loop counters) are not modelled.",
    "technique": "static extraction of library-call compositions into normal forms and comparison with the defining formulas; symbolic derivative check of the Newton step; sibling agreement of the four order_stats arms; sign-fact abstract execution of the bracket search",
}
