"""C08 effect analysis: which arrays does the code that runs *after* construction store into in place?

A solver object is built once and then used for any number of solutions (tsolve, generator + sends + finalize, get_f2x).  Every solution
reads the matrices and coefficients the constructor computed (self.bo, self.pc.*, self.invm, self.P ...).  A method reachable from the
solution entry points that stores *in place* into one of those arrays changes every later solution of the same object - the generator
then no longer reproduces the batch solution "for the force history finally in effect" of the solver the caller built.

The analysis is a forward may-alias pass per function: a local may name (a view of) an attribute array (`b = self.bo`, `pc = self.pc;
F = pc.F`, `.T`, `.ravel()`, basic slicing), `.copy()` / arithmetic / constructors break the alias.  In-place stores are subscript stores,
augmented assignments, `out=` arguments, np.fill_diagonal / np.copyto / ndarray.fill ... and calls of functions of the same classes that
store into a parameter (summaries, computed transitively)."""
from __future__ import annotations

import ast

from .e1_srcmodel import dotted, walk_no_nested

VIEW_METHODS = {"ravel", "reshape", "view", "transpose", "squeeze", "swapaxes", "diagonal"}
VIEW_FUNCS = {"np.asarray", "np.atleast_1d", "np.atleast_2d", "np.ravel", "np.transpose", "np.squeeze", "np.real", "np.imag", "np.asfortranarray",
              "np.ascontiguousarray", "np.reshape", "np.swapaxes", "np.diagonal"}
INPLACE_ARG0 = {"np.fill_diagonal", "np.copyto", "np.put", "np.place", "np.putmask", "np.put_along_axis"}
INPLACE_METHODS = {"fill", "sort", "resize", "itemset", "put", "partition", "setfield", "byteswap_inplace"}
ARRAY_EVIDENCE_METHODS = {"copy", "ravel", "reshape", "dot", "transpose", "astype", "conj", "fill", "sum", "any", "all"}
ARRAY_EVIDENCE_ATTRS = {"T", "shape", "real", "imag", "size", "ndim", "dtype"}


class Program:
    def __init__(self, ctx, files):
        self.ctx = ctx
        self.classes = {}       # name -> (ClassDef, rel, [base names])
        self.modfuncs = {}      # (rel, name) -> FunctionDef
        for rel in files:
            try:
                m = ctx.src.mod(rel)
            except Exception:  # noqa
                continue
            for st in m.tree.body:
                if isinstance(st, ast.ClassDef):
                    self.classes[st.name] = (st, rel, [dotted(b) for b in st.bases if dotted(b)])
                elif isinstance(st, (ast.FunctionDef,)):
                    self.modfuncs[(rel, st.name)] = st
        self._summ = {}
        self._busy = set()

    def mro(self, cls):
        out, todo = [], [cls]
        while todo:
            c = todo.pop(0)
            if c in out or c not in self.classes:
                continue
            out.append(c)
            todo.extend(self.classes[c][2])
        return out

    def method(self, cls, name, after=None):
        """(FunctionDef, defining class) of cls.name by the class hierarchy; `after`: start after that class (super())"""
        order = self.mro(cls)
        if after is not None and after in order:
            order = order[order.index(after) + 1:]
        for c in order:
            for st in self.classes[c][0].body:
                if isinstance(st, ast.FunctionDef) and st.name == name:
                    return st, c
        return None, None

    # ---- calls of a function that we can follow
    def callees(self, fn, cls, defcls):
        """[(call node, FunctionDef, class context or None, defining class or None, receiver is self)]"""
        rel = self.classes[defcls][1] if defcls in self.classes else getattr(getattr(fn, "_vmod", None), "rel", None)
        out = []
        for n in walk_no_nested(fn):
            if not isinstance(n, ast.Call):
                continue
            f = n.func
            if isinstance(f, ast.Attribute) and isinstance(f.value, ast.Name) and f.value.id == "self" and cls is not None:
                m, dc = self.method(cls, f.attr)
                if m is not None:
                    out.append((n, m, cls, dc, True))
            elif isinstance(f, ast.Attribute) and isinstance(f.value, ast.Call) and dotted(f.value.func) == "super" and cls is not None:
                m, dc = self.method(cls, f.attr, after=defcls)
                if m is not None:
                    out.append((n, m, cls, dc, True))
            elif isinstance(f, ast.Name) and (rel, f.id) in self.modfuncs:
                out.append((n, self.modfuncs[(rel, f.id)], None, None, False))
        return out

    def reachable(self, cls, roots):
        seen, order = {}, []
        todo = []
        for r in roots:
            m, dc = self.method(cls, r)
            if m is not None:
                todo.append((m, cls, dc))
        while todo:
            fn, c, dc = todo.pop()
            if id(fn) in seen:
                continue
            seen[id(fn)] = True
            order.append((fn, c, dc))
            for _, m, c2, dc2, _ in self.callees(fn, c, dc):
                todo.append((m, c2 if c2 is not None else None, dc2))
        return order

    def ctor_attrs(self, cls):
        """first components of the attribute paths assigned (self.X = ..., setattr(self, 'X', ..)) by code reachable from __init__"""
        out = set()
        for fn, c, dc in self.reachable(cls, ["__init__"]):
            for n in walk_no_nested(fn):
                tg = []
                if isinstance(n, ast.Assign):
                    tg = n.targets
                elif isinstance(n, (ast.AugAssign, ast.AnnAssign)):
                    tg = [n.target]
                for t in tg:
                    for e in (t.elts if isinstance(t, (ast.Tuple, ast.List)) else [t]):
                        d = dotted(e)
                        if d and d.startswith("self.") and isinstance(e, ast.Attribute):
                            out.add(d.split(".")[1])
                if isinstance(n, ast.Call) and dotted(n.func) == "setattr" and len(n.args) == 3 and dotted(n.args[0]) == "self" \
                        and isinstance(n.args[1], ast.Constant) and isinstance(n.args[1].value, str):
                    out.add(n.args[1].value)
        return out

    def array_evidence(self, files):
        """attribute paths (self.a.b) used somewhere as arrays: subscripted, matrix-multiplied, or with an ndarray method / attribute"""
        ev = set()
        for rel in files:
            try:
                tree = self.ctx.src.mod(rel).tree
            except Exception:  # noqa
                continue
            alias = {}
            assigns = [n for n in ast.walk(tree) if isinstance(n, ast.Assign) and len(n.targets) == 1 and isinstance(n.targets[0], ast.Name)
                       and dotted(n.value)]
            for _ in range(3):          # `pc = self.pc` then `A = pc.A`: names are resolved per module, which is enough for "is used as an array"
                for n in assigns:
                    d = dotted(n.value)
                    if d.startswith("self."):
                        alias.setdefault(n.targets[0].id, set()).add(d)
                    else:
                        root, _, rest = d.partition(".")
                        for a in list(alias.get(root, ())):
                            alias.setdefault(n.targets[0].id, set()).add(a + ("." + rest if rest else ""))

            def paths(e):
                d = dotted(e)
                if d is None:
                    return set()
                if d.startswith("self."):
                    return {d}
                root, _, rest = d.partition(".")
                return {a + ("." + rest if rest else "") for a in alias.get(root, ())}

            for n in ast.walk(tree):
                if isinstance(n, ast.Subscript):
                    ev |= paths(n.value)
                elif isinstance(n, ast.BinOp) and isinstance(n.op, ast.MatMult):
                    ev |= paths(n.left) | paths(n.right)
                elif isinstance(n, ast.Attribute) and n.attr in ARRAY_EVIDENCE_ATTRS:
                    ev |= paths(n.value)
                elif isinstance(n, ast.Call) and isinstance(n.func, ast.Attribute) and n.func.attr in ARRAY_EVIDENCE_METHODS:
                    ev |= paths(n.func.value)
        return ev

    # ---- per-function alias pass
    def analyse(self, fn, cls, defcls):
        """-> (writes: [(origin, node, how)], param indices written) ; origin = ('attr', path) | ('param', k)"""
        key = (id(fn), cls)
        if key in self._summ:
            return self._summ[key]
        if key in self._busy:
            return [], set()
        self._busy.add(key)
        params = [a.arg for a in fn.args.posonlyargs + fn.args.args]
        is_method = bool(params) and params[0] == "self" and cls is not None
        state = {}
        for k, p_ in enumerate(params):
            if is_method and k == 0:
                continue
            state[p_] = {("param", k)}
        writes = []
        callmap = {id(n): (m, c2, dc2, recv) for n, m, c2, dc2, recv in self.callees(fn, cls, defcls)}
        prog = self

        def attr_path(e):
            """('attr', path) origins of an attribute chain"""
            parts = []
            n = e
            while isinstance(n, ast.Attribute):
                parts.append(n.attr)
                n = n.value
            if not isinstance(n, ast.Name):
                return None
            rest = ".".join(parts[::-1])
            if n.id == "self" and is_method:
                return {("attr", "self." + rest)}
            out = set()
            for o in state.get(n.id, ()):
                if o[0] == "attr":
                    out.add(("attr", o[1] + "." + rest))
            return out

        def origins(e):
            if isinstance(e, ast.Name):
                return set(state.get(e.id, ()))
            if isinstance(e, ast.Attribute):
                if e.attr in ("T", "real", "imag", "flat"):
                    return origins(e.value)
                return attr_path(e) or set()
            if isinstance(e, ast.Subscript):
                sl = e.slice
                elts = sl.elts if isinstance(sl, ast.Tuple) else [sl]
                basic = all(isinstance(x, ast.Slice) or (isinstance(x, ast.Constant) and (x.value is None or x.value is Ellipsis or isinstance(x.value, int)))
                            for x in elts)
                return origins(e.value) if basic else set()
            if isinstance(e, ast.IfExp):
                return origins(e.body) | origins(e.orelse)
            if isinstance(e, ast.BoolOp):
                out = set()
                for v in e.values:
                    out |= origins(v)
                return out
            if isinstance(e, ast.NamedExpr):
                o = origins(e.value)
                state[e.target.id] = o
                return o
            if isinstance(e, ast.Call):
                d = dotted(e.func) or ""
                if d in VIEW_FUNCS and e.args:
                    return origins(e.args[0])
                if isinstance(e.func, ast.Attribute) and e.func.attr in VIEW_METHODS:
                    return origins(e.func.value)
                if d == "getattr" and len(e.args) >= 2 and dotted(e.args[0]) == "self" and isinstance(e.args[1], ast.Constant) \
                        and isinstance(e.args[1].value, str):
                    return {("attr", "self." + e.args[1].value)}
                return set()
            return set()

        def write(e, node, how):
            for o in origins(e):
                writes.append((o, node, how))

        def root_of_store(t):
            """the array expression a subscript / attribute-of-element store modifies"""
            while isinstance(t, ast.Subscript):
                t = t.value
            return t

        def calls_in(node):
            if isinstance(node, ast.Call):
                yield node
            for n in walk_no_nested(node):
                if isinstance(n, ast.Call):
                    yield n

        def do_calls(node):
            for c in calls_in(node):
                d = dotted(c.func) or ""
                if d in INPLACE_ARG0 and c.args:
                    write(c.args[0], c, d)
                for k in c.keywords:
                    if k.arg == "out":
                        for x in (k.value.elts if isinstance(k.value, (ast.Tuple, ast.List)) else [k.value]):
                            write(x, c, "out=")
                    if k.arg in ("overwrite_b", "overwrite_a") and isinstance(k.value, ast.Constant) and k.value.value:
                        idx = 1 if k.arg == "overwrite_b" else 0
                        if len(c.args) > idx:
                            write(c.args[idx], c, k.arg)
                if isinstance(c.func, ast.Attribute) and c.func.attr in INPLACE_METHODS:
                    write(c.func.value, c, "." + c.func.attr + "()")
                if id(c) in callmap:
                    m, c2, dc2, recv = callmap[id(c)]
                    _, pw = prog.analyse(m, c2, dc2)
                    mp = [a.arg for a in m.args.posonlyargs + m.args.args]
                    off = 1 if (recv and mp and mp[0] == "self") else 0
                    for k in pw:
                        ai = k - off
                        if 0 <= ai < len(c.args) and not isinstance(c.args[ai], ast.Starred):
                            write(c.args[ai], c, f"argument of {m.name}")
                        else:
                            for kw in c.keywords:
                                if kw.arg == mp[k]:
                                    write(kw.value, c, f"argument of {m.name}")

        def assign(t, value_node, value_or):
            if isinstance(t, ast.Name):
                state[t.id] = set(value_or)
            elif isinstance(t, (ast.Tuple, ast.List)):
                if isinstance(value_node, (ast.Tuple, ast.List)) and len(value_node.elts) == len(t.elts):
                    for a, b in zip(t.elts, value_node.elts):
                        assign(a, b, origins(b))
                else:
                    for a in t.elts:
                        assign(a, None, set())
            elif isinstance(t, ast.Subscript):
                write(root_of_store(t), t, "subscript store")

        def run(stmts):
            for st in stmts:
                if isinstance(st, ast.Assign):
                    do_calls(st.value)
                    o = origins(st.value)
                    for t in st.targets:
                        assign(t, st.value, o)
                elif isinstance(st, ast.AnnAssign) and st.value is not None:
                    do_calls(st.value)
                    assign(st.target, st.value, origins(st.value))
                elif isinstance(st, ast.AugAssign):
                    do_calls(st.value)
                    if isinstance(st.target, ast.Subscript):
                        write(root_of_store(st.target), st, "augmented subscript store")
                    elif isinstance(st.target, (ast.Name, ast.Attribute)):
                        for o in origins(st.target):
                            writes.append((o, st, "augmented assignment (in place for an array)"))
                elif isinstance(st, ast.If):
                    do_calls(st.test)
                    s0 = {k: set(v) for k, v in state.items()}
                    run(st.body)
                    s1 = {k: set(v) for k, v in state.items()}
                    state.clear()
                    state.update(s0)
                    run(st.orelse)
                    for k, v in s1.items():
                        state[k] = state.get(k, set()) | v
                elif isinstance(st, (ast.For, ast.While)):
                    if isinstance(st, ast.For):
                        do_calls(st.iter)
                        assign(st.target, None, set())
                    else:
                        do_calls(st.test)
                    for _ in range(2):
                        s0 = {k: set(v) for k, v in state.items()}
                        run(st.body)
                        for k, v in s0.items():
                            state[k] = state.get(k, set()) | v
                    run(st.orelse)
                elif isinstance(st, ast.With):
                    run(st.body)
                elif isinstance(st, ast.Try):
                    run(st.body)
                    for h in st.handlers:
                        run(h.body)
                    run(st.orelse)
                    run(st.finalbody)
                elif isinstance(st, (ast.Expr, ast.Return)):
                    if st.value is not None:
                        do_calls(st.value)
                elif isinstance(st, (ast.FunctionDef, ast.AsyncFunctionDef)):
                    # a function defined here sees the locals of this one (its own parameters shadow them): its stores are stores of this function
                    nested.append(st)
                    run_nested(st)
                elif isinstance(st, (ast.Raise, ast.Assert, ast.Delete)):
                    continue

        nested = []

        def run_nested(fdef):
            saved = {k: set(v) for k, v in state.items()}
            for a in fdef.args.posonlyargs + fdef.args.args + fdef.args.kwonlyargs:
                state[a.arg] = set()
            run(fdef.body)
            state.clear()
            state.update(saved)

        run(fn.body)
        for fdef in list(nested):
            run_nested(fdef)            # late binding: once more with what the enclosing function has bound by its end
        # several passes are not needed: writes are collected while the state evolves
        seen, uniq = set(), []
        for o, node, how in writes:
            k = (o, id(node))
            if k not in seen:
                seen.add(k)
                uniq.append((o, node, how))
        pw = {o[1] for o, _, _ in uniq if o[0] == "param"}
        self._busy.discard(key)
        self._summ[key] = (uniq, pw)
        return uniq, pw
