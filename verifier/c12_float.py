"""C12 helper -- analysis of format_float8/16 (interval leaves x decade x rounding regime) and of the scientific helpers."""
from __future__ import annotations

import ast
from fractions import Fraction

from .core import Unsupported
from .c12_str import (Unk, Param, Neg, Abs, Round, IntOf, FloatOf, Len, Opaque, Lit, Fmt, Cat, Strip, Replace, Slice, Piece, StrOf, CaseOf,
                      CallS, Choice, is_num, as_int)
from .c12_exec import Engine, Interval, Leaf, State, walk_value, _num_cmp
from .c12_model import Reg, Cols, fixed_models, precisions_in, width_bounds

BULK = "pyyeti/nastran/bulk.py"
KMIN, KMAX = -323, 309        # decades of finite non-zero doubles: 10^(k-1) <= |x| < 10^k
SCI = {"_format_scientific8": 8, "_format_scientific16": 16}


# ---------------------------------------------------------------------- helper expansion
def _subst(v, old, new):
    if v is old or v == old:
        return new
    if hasattr(v, "__dataclass_fields__"):
        ch = {}
        for f in v.__dataclass_fields__:
            x = getattr(v, f)
            if hasattr(x, "__dataclass_fields__") and not type(x).__name__ == "Spec":
                y = _subst(x, old, new)
                if y is not x:
                    ch[f] = y
            elif isinstance(x, tuple):
                y = tuple(_subst(e, old, new) if hasattr(e, "__dataclass_fields__") else e for e in x)
                if any(a is not b for a, b in zip(x, y)):
                    ch[f] = y
        if ch:
            return type(v)(**{**{f: getattr(v, f) for f in v.__dataclass_fields__}, **ch})
    return v


def expand_helpers(ctx, leaves, param, known, depth=3, inline=None, hooks=None):
    """a leaf whose value calls another function of the module on the float parameter (an extracted ladder, an extracted arm) is replaced
    by the leaves of that function on the leaf's interval"""
    mod = ctx.src.mod(BULK)
    out = []
    work = [(lf, depth) for lf in leaves]
    while work:
        lf, d = work.pop(0)
        target = None
        if lf.kind == "return" and d > 0:
            for n in walk_value(lf.value):
                if isinstance(n, CallS) and n.name not in known and n.name in mod.funcs and not any(isinstance(x, Unk) for a in n.args for x in walk_value(a)):
                    target = n
                    break
        if target is None:
            out.append(lf)
            continue
        callee = ctx.src.func(BULK, target.name)
        names = [a.arg for a in callee.args.args]
        if len(names) < len(target.args):
            out.append(lf)
            continue
        env = {nm: val for nm, val in zip(names, target.args)}
        eng = Engine(ctx, BULK, callee, param=param, env=env, inline=inline, **(hooks or {}))
        st = State(dict(env), lf.iv, lf.state.facts, lf.state.effects)
        for a in callee.args.args[len(target.args):]:
            st.env[a.arg] = Opaque("default:" + a.arg, ())
        for sub in eng.run(state=st):
            if sub.kind != "return":
                out.append(sub)
                continue
            work.append((Leaf(sub.state, "return", _subst(lf.value, target, sub.value), lf.node), d - 1))
    return out


# ---------------------------------------------------------------------- regimes of a leaf
def _abs_range(iv, neg):
    """|x| range of the negative / non-negative part of an interval -> (lo, lo_closed, hi, hi_closed) or None"""
    zero = Fraction(0)
    if neg:
        part = iv.below(zero, False)
        if part.empty():
            return None
        lo, lc = (-part.hi, part.hc)
        hi, hc = (None, False) if part.lo is None else (-part.lo, part.lc)
        return lo, lc, hi, hc
    part = iv.above(zero, False)
    if part.empty():
        return None
    return part.lo, part.lc, part.hi, part.hc


def _meets(rng, a, b):
    """does [a, b) intersect the range"""
    lo, lc, hi, hc = rng
    if a >= b:
        return False
    if hi is not None and (a > hi or (a == hi and not hc)):
        return False
    if b < lo or b == lo:
        return False
    return True


def decades(rng):
    lo, lc, hi, hc = rng
    out = []
    for k in range(KMIN, KMAX + 1):
        if _meets(rng, Fraction(10) ** (k - 1), Fraction(10) ** k):
            out.append(k)
    return out


POINT = 99          # carry_upto of the regime "|x| is 10^k exactly"


def regimes(rng, k, precs, neg):
    """feasible rounding regimes of decade k inside the range: [(Reg, sample text)]"""
    a, b = Fraction(10) ** (k - 1), Fraction(10) ** k
    if rng[2] is not None and rng[2] == a and rng[3]:
        # the range ends *at* the lower edge of the decade (`value <= 10.0` where the ladder says `<`): the one value of the decade on
        # the path is the power of ten itself - a first digit 1 and nothing but zeros at every precision, which is what a value of the
        # decade below looks like when it rounds up (POINT: at every precision)
        return [Reg(neg, k - 1, POINT)]
    ps = sorted(p for p in precs if p >= -k)
    cuts = [(b - Fraction(1, 2) / Fraction(10) ** p) for p in ps]
    out = []
    lo = a
    cu = -1
    for p, t in zip(ps, cuts):
        if t > lo:
            if _meets(rng, lo, t):
                out.append(Reg(neg, k, cu))
            lo = t
        cu = p
    if _meets(rng, lo, b):
        out.append(Reg(neg, k, cu))
    return out


def _fact_num(v, reg, param):
    if is_num(v):
        return v
    if isinstance(v, Opaque) and v.name in (".index", ".find", ".rfind", ".rindex") and len(v.args) == 2 and v.args[1] == Lit("."):
        ms = fixed_models(v.args[0], reg, param)
        if ms and len(ms) == 1 and ms[0].point and not ms[0].corrupt:
            return Fraction(ms[0].point_index)
        if ms and len(ms) == 1 and not ms[0].point and not ms[0].corrupt and v.name in (".find", ".rfind"):
            return Fraction(-1)
    return None


def _fact_text_eq(a, b, reg, param):
    """value == literal text, decided on the columns: a rendering whose digits are all zero has a known text, any other rendering holds
    a non-zero digit"""
    if isinstance(a, Lit) and not isinstance(b, Lit):
        a, b = b, a
    if not isinstance(b, Lit) or isinstance(a, Lit):
        return None
    ms = fixed_models(a, reg, param)
    if not ms or len(ms) != 1 or ms[0].corrupt:
        return None
    t = ms[0].text()
    if t is not None:
        return t == b.s
    if not any(ch in "123456789" for ch in b.s):
        return False
    return None


def _fact_truth(vals, reg, param):
    """truth of a recorded test (op, a, b) on the columns of the regime, None when the columns do not decide it"""
    if not vals:
        return None
    op, a, b = vals
    if op == "truth":
        x = _fact_num(a, reg, param)
        if x is not None:
            return x != 0
        if isinstance(a, Opaque) and a.name == ".count" and len(a.args) == 2 and a.args[1] == Lit("."):
            ms = fixed_models(a.args[0], reg, param)
            if ms and len(ms) == 1 and not ms[0].corrupt:
                return bool(ms[0].point)
        return None
    if isinstance(op, (ast.Eq, ast.NotEq)):
        r = _fact_text_eq(a, b, reg, param)
        if r is not None:
            return r == isinstance(op, ast.Eq)
    if isinstance(op, (ast.In, ast.NotIn)) and isinstance(a, Lit) and a.s in (".", "-"):
        # does the rendering (or its first n columns) hold the decimal point / a minus sign
        ms = fixed_models(b, reg, param)
        if ms and len(ms) == 1 and ms[0].corrupt in ("", "integer digits are cut off"):      # (a cut keeps the columns before it)
            return bool(ms[0].point if a.s == "." else ms[0].sign) == isinstance(op, ast.In)
        return None
    x, y = _fact_num(a, reg, param), _fact_num(b, reg, param)
    if x is None or y is None:
        return None
    try:
        return _num_cmp(op, x, y)
    except Unsupported:
        return None


def feasible(leaf, reg, param):
    """False when a recorded test outcome contradicts the columns of the regime (e.g. `field.index('.') < 8`, `field2 == '.'`)"""
    for f in leaf.state.facts:
        r = _fact_truth(f[3] if len(f) > 3 else None, reg, param)
        if r is not None and r != f[1]:
            return False
    return True


def open_tests(leaf, reg, param):
    """source text of the recorded tests of the path that the columns of the regime do not decide: the path may or may not be one that
    a value of the regime takes, so nothing can be *proved* wrong on it"""
    return [f[0] for f in leaf.state.facts if _fact_truth(f[3] if len(f) > 3 else None, reg, param) is None]


def fact_precisions(leaf, param):
    acc = set()
    for f in leaf.state.facts:
        vals = f[3] if len(f) > 3 else None
        if vals:
            for v in vals[1:]:
                if not is_num(v) and not isinstance(v, Lit):
                    precisions_in(v, param, acc)
    return acc


def inner_of(v):
    """the text before the final justification"""
    if isinstance(v, Fmt) and v.spec.typ in ("s", None) and v.spec.conv is None and v.spec.prec is None:
        return v.arg
    return v


class FloatAnalysis:
    """leaves of format_float<W> with, per leaf, the (sign, decade, regime) cases and their column models"""

    def __init__(self, ctx, q, W):
        self.ctx, self.q, self.W = ctx, q, W
        self.fn = ctx.src.func(BULK, q)
        if not self.fn.args.args:
            raise Unsupported(f"{q}: no parameter")
        self.param = self.fn.args.args[0].arg
        known = set(SCI) | {q}
        follow = lambda name: name not in known          # noqa: E731  (the scientific helpers stay calls: C12-R2 decides them)
        eng = Engine(ctx, BULK, self.fn, param=self.param, inline=follow, strict_locals=True)
        eng.index_errors = True              # `table[position]` past the end of a literal table takes the code's own `except IndexError`
        leaves = eng.run()
        self.leaves = expand_helpers(ctx, leaves, self.param, known, inline=follow)
        self.cases = {}          # id(leaf) -> [(Reg, final models or None, inner models or None)]
        for lf in self.leaves:
            self.cases[id(lf)] = self._cases(lf) if lf.kind == "return" else []

    def helper_width(self, name):
        return SCI.get(name) if SCI.get(name) == self.W else None

    def is_fixed(self, lf):
        return fixed_models(lf.value, Reg(False, 1), self.param) is not None

    def _cases(self, lf):
        if not self.is_fixed(lf):
            return []
        precs = precisions_in(lf.value, self.param) | fact_precisions(lf, self.param)
        out = []
        for neg in (False, True):
            rng = _abs_range(lf.iv, neg)
            if rng is None:
                continue
            for k in decades(rng):
                for reg in regimes(rng, k, precs, neg):
                    if not feasible(lf, reg, self.param):
                        continue
                    out.append((reg, fixed_models(lf.value, reg, self.param), fixed_models(inner_of(lf.value), reg, self.param)))
        return out

    def feasible_decades(self, lf):
        """[(neg, k)] in which some rounding case satisfies the recorded tests of the path"""
        out = []
        precs = precisions_in(lf.value, self.param) | fact_precisions(lf, self.param)
        for neg in (False, True):
            rng = _abs_range(lf.iv, neg)
            if rng is None:
                continue
            for k in decades(rng):
                if any(feasible(lf, reg, self.param) for reg in regimes(rng, k, precs, neg)):
                    out.append((neg, k))
        return out

    def covering(self, neg, k, pk):
        """[(leaf, Reg, final models, inner models)] of every leaf feasible somewhere in the decade; a leaf that is not fixed notation gives
        (leaf, Reg, None, None) for every feasible rounding regime (pk: the precision the decade allows, so that values which round up to
        10^k at that precision are told apart)"""
        out = []
        a, b = Fraction(10) ** (k - 1), Fraction(10) ** k
        for lf in self.leaves:
            rng = _abs_range(lf.iv, neg)
            if rng is None or not _meets(rng, a, b):
                continue
            if lf.kind == "return" and self.is_fixed(lf):
                cs = [c for c in self.cases[id(lf)] if c[0].neg == neg and c[0].k == k]
                out.extend((lf, c[0], c[1], c[2]) for c in cs)
                continue
            precs = fact_precisions(lf, self.param) | {pk}
            for reg in regimes(rng, k, precs, neg):
                if feasible(lf, reg, self.param):
                    out.append((lf, reg, None, None))
        return out


def describe(v, param=None):
    """short text of a value for messages"""
    if isinstance(v, Lit):
        return repr(v.s)
    if is_num(v):
        return str(v)
    if isinstance(v, Param):
        return v.name
    if isinstance(v, Round):
        return f"round({describe(v.x)})"
    if isinstance(v, IntOf):
        return f"int({describe(v.x)})"
    if isinstance(v, FloatOf):
        return f"float({describe(v.s)})"
    if isinstance(v, Fmt):
        sp = v.spec
        t = (sp.align or "") + ("0" if sp.zero else "") + ("" if sp.width is None else describe(sp.width)) + \
            ("" if sp.prec is None else "." + describe(sp.prec)) + (sp.typ or "")
        return "{" + describe(v.arg) + ":" + t + "}"
    if isinstance(v, Cat):
        return " + ".join(describe(p) for p in v.parts)
    if isinstance(v, Strip):
        return f"{describe(v.s)}.{ {'b': '', 'l': 'l', 'r': 'r'}[v.side]}strip({v.chars!r})"
    if isinstance(v, Replace):
        return f"{describe(v.s)}.replace({v.old!r}, {v.new!r})"
    if isinstance(v, Slice):
        return f"{describe(v.s)}[{'' if v.lo is None else describe(v.lo)}:{'' if v.hi is None else describe(v.hi)}]"
    if isinstance(v, CallS):
        return f"{v.name}({', '.join(describe(a) for a in v.args)})"
    if isinstance(v, Piece):
        return f"{describe(v.s)}.split({v.sep!r})[{0 if v.which == 'head' else 1}]"
    if isinstance(v, StrOf):
        return f"str({describe(v.x)})"
    if isinstance(v, Choice):
        return f"({describe(v.a)} if {v.test} else {describe(v.b)})"
    return type(v).__name__


# ---------------------------------------------------------------------- scientific helpers
def _unwrap_text(v):
    while isinstance(v, (Strip, CaseOf)):
        v = v.s
    return v


def efmt_of(v, param):
    """Piece of an exponent-format rendering of the parameter -> that Fmt, else None"""
    if not isinstance(v, Piece) or v.sep not in ("e", "E"):
        return None
    s = v.s
    lowered = False
    while isinstance(s, (Strip, CaseOf)):
        if isinstance(s, CaseOf):
            lowered = s.how == "lower"
        elif s.chars is not None and s.chars.strip(" ") != "":
            return None
        s = s.s
    if isinstance(s, Fmt) and s.spec.typ in ("e", "E") and s.arg == Param(param) and s.spec.conv is None:
        if (s.spec.typ == "e" or lowered) == (v.sep == "e"):
            return s
    return None


def exp_int(v, param):
    return isinstance(v, IntOf) and isinstance(v.x, Piece) and v.x.which == "tail" and efmt_of(v.x, param) is not None


def exp_unsigned_text(v, param):
    """the exponent text of an exponent-format rendering without its sign ('05', '125'): `tail[1:]`, `tail.lstrip('+-')`"""
    if isinstance(v, Slice) and as_int(v.lo) == 1 and v.hi is None:
        v = v.s
    elif isinstance(v, Strip) and v.side in ("b", "l") and v.chars is not None and v.chars and set(v.chars) <= set("+- "):
        v = v.s
    else:
        return False
    return isinstance(v, Piece) and v.which == "tail" and efmt_of(v, param) is not None


def exp_digits_or_empty(v, param):
    """the digits of |exponent| read off the exponent text with the leading zeros stripped: '' when the exponent is 0"""
    if isinstance(v, Strip) and v.side in ("b", "l") and v.chars is not None and "0" in v.chars:
        if set(v.chars) == {"0"} and exp_unsigned_text(v.s, param):
            return True
        if {"+", "-", "0"} <= set(v.chars) and set(v.chars) <= set("+-0 ") and isinstance(v.s, Piece) and v.s.which == "tail" and efmt_of(v.s, param) is not None:
            return True
    return False


def exp_digits(v, param):
    """text of |exponent| without sign and leading zeros"""
    from .c12_str import _int_piece
    ip0 = _int_piece(v)
    if isinstance(ip0, IntOf) and exp_unsigned_text(ip0.x, param):
        return True                                  # str(int(tail[1:]))
    if exp_digits_or_empty(v, param):
        return True                                  # (the empty case is decided by the rule's oracle before the text is used)
    if isinstance(v, Strip) and v.side in ("b", "l") and v.chars is not None and "-" in v.chars and set(v.chars) <= set("-+ "):
        ip = _int_piece(v.s)                         # str(e), '%d' % e, f'{e}', '{:d}'.format(e) ... are the same text
        if ip is not None and exp_int(ip, param):
            return True
    ip = _int_piece(v)
    if isinstance(ip, Abs) and exp_int(ip.x, param):
        return True
    return False


def mantissa_kind(param):
    def kind(v):
        if isinstance(v, FloatOf):
            p = _unwrap_text(v.s)
            if isinstance(p, Piece) and p.which == "head" and efmt_of(p, param) is not None:
                return "x"
        return None
    return kind


def first_stage_precision(v, param):
    """precision of the exponent-format rendering the mantissa was read from (None: no such stage)"""
    ps = set()
    for n in walk_value(v):
        if isinstance(n, FloatOf):
            p = _unwrap_text(n.s)
            if isinstance(p, Piece) and p.which == "head":
                f = efmt_of(p, param)
                if f is not None:
                    ps.add(as_int(f.spec.prec) if f.spec.prec is not None else 6)
    return ps


SCI_INTERVALS = [
    # (label, interval, negative, |x| < 1, exponent is 0)
    ("negative, |x| >= 10", Interval(None, False, Fraction(-10), True), True, False, False),
    ("negative, 1 <= |x| < 10", Interval(Fraction(-10), False, Fraction(-1), True), True, False, True),
    ("negative, |x| < 1", Interval(Fraction(-1), False, Fraction(0), False), True, True, False),
    ("positive, |x| < 1", Interval(Fraction(0), False, Fraction(1), False), False, True, False),
    ("positive, 1 <= |x| < 10", Interval(Fraction(1), True, Fraction(10), False), False, False, True),
    ("positive, |x| >= 10", Interval(Fraction(10), True, None, False), False, False, False),
]


class SciRun:
    """one evaluation of a scientific formatter: sign, |x| < 1 or not, number of exponent digits"""

    def __init__(self, ctx, q, label, iv, neg, small, e):
        self.q, self.label, self.neg, self.small, self.e = q, label, neg, small, e
        fn = ctx.src.func(BULK, q)
        self.fn = fn
        self.param = param = fn.args.args[0].arg

        one, ten = Fraction(1), Fraction(10)
        expzero = iv.lo is not None and iv.hi is not None and ((iv.lo >= one and iv.hi <= ten) or (iv.lo >= -ten and iv.hi <= -one))
        self.expzero = expzero

        def length(v, st, eng):
            if expzero and exp_digits_or_empty(v, param):
                return Fraction(0)                   # the exponent is 0: nothing is left of its text once the zeros are stripped
            if exp_digits(v, param):
                return Fraction(e)
            from .c12_str import _int_piece
            ip = _int_piece(v)
            if ip is not None and exp_int(ip, param):
                return Fraction(e + (1 if small else 0))
            return None

        def cmp(op, a, b, st, eng):
            # sign of the decimal exponent: negative exactly when |x| < 1 (up to the value that rounds to 1.0, where both spellings parse alike)
            if exp_int(a, param) and is_num(b) and b == 0:
                if isinstance(op, (ast.Lt, ast.GtE)):
                    return small == isinstance(op, ast.Lt)
            if exp_int(b, param) and is_num(a) and a == 0:
                if isinstance(op, (ast.Gt, ast.LtE)):
                    return small == isinstance(op, ast.Gt)
            # the same read off the exponent text ('-05' / '+05': the exponent format always prints the sign)
            if isinstance(op, (ast.Eq, ast.NotEq)):
                if isinstance(a, Lit):
                    a, b = b, a
                if sign_char(a) and isinstance(b, Lit) and b.s in ("-", "+"):
                    return (small == (b.s == "-")) == isinstance(op, ast.Eq)
            if isinstance(op, (ast.In, ast.NotIn)) and isinstance(a, Lit) and a.s in ("-", "+") and exp_text(b):
                return (small == (a.s == "-")) == isinstance(op, ast.In)
            return None

        def exp_text(v):
            return isinstance(v, Piece) and v.which == "tail" and efmt_of(v, param) is not None

        def sign_char(v):
            return isinstance(v, Slice) and v.lo is None and as_int(v.hi) == 1 and exp_text(v.s)


        def cond(test, st, eng):
            if isinstance(test, (ast.Name, ast.Subscript, ast.Call, ast.Attribute)):
                v = eng.ev(test, st)
                if exp_digits_or_empty(v, param):
                    return not expzero               # the digit text is empty exactly when the exponent is 0
            if isinstance(test, ast.Compare) and len(test.ops) == 1 and isinstance(test.ops[0], (ast.Eq, ast.NotEq)):
                a, b = eng.ev(test.left, st), eng.ev(test.comparators[0], st)
                if isinstance(a, Lit):
                    a, b = b, a
                if exp_digits_or_empty(a, param) and b == Lit(""):
                    return expzero == isinstance(test.ops[0], ast.Eq)
            if isinstance(test, ast.Call) and isinstance(test.func, ast.Attribute) and test.func.attr == "startswith" and len(test.args) == 1:
                v = eng.ev(test, st)
                if isinstance(v, Opaque) and v.name == ".startswith" and len(v.args) == 2 and exp_text(v.args[0]) and v.args[1] in (Lit("-"), Lit("+")):
                    return small == (v.args[1].s == "-")
            return None
        follow = lambda name: True                        # noqa: E731
        hooks = {"length": length, "cmp": cmp, "cond": cond}
        eng = Engine(ctx, BULK, fn, param=param, inline=follow, **hooks)
        self.leaves = expand_helpers(ctx, eng.run(iv), param, set(), inline=follow, hooks=hooks)

    def width(self, v, carry):
        """characters of a string value in this regime (worst case: nothing to strip but what the regime guarantees) or None"""
        param = self.param
        if isinstance(v, Lit):
            return len(v.s)
        if isinstance(v, Cat):
            tot = 0
            for p in v.parts:
                w = self.width(p, carry)
                if w is None:
                    return None
                tot += w
            return tot
        if self.expzero and exp_digits_or_empty(v, param):
            return 0
        if exp_digits(v, param):
            return self.e
        from .c12_str import _int_piece
        ip = _int_piece(v)
        if ip is not None and exp_int(ip, param):
            return self.e + (1 if self.small else 0)
        ms = fixed_models(v, Reg(self.neg, 1, 99 if carry else -1), mantissa_kind(param))
        if ms is not None:
            if any(m.corrupt for m in ms):
                return None
            return max(m.width for m in ms)
        if isinstance(v, Fmt) and v.spec.typ in ("s", None) and v.spec.conv is None and v.spec.prec is None:
            w = self.width(v.arg, carry)
            n = 0 if v.spec.width is None else as_int(v.spec.width)
            if w is None or n is None:
                return None
            return max(w, n)
        return None

    def mantissa_precision(self, v):
        ps = set()
        for n in walk_value(v):
            if isinstance(n, Fmt) and n.spec.typ in ("f", "F") and mantissa_kind(self.param)(n.arg) == "x":
                ps.add(as_int(n.spec.prec) if n.spec.prec is not None else 6)
        return ps

    def pieces(self, v):
        """flattened concatenation classified as ('mantissa', node) / ('lit', text) / ('exp', node) / ('other', node)"""
        v = inner_of(v)
        parts = v.parts if isinstance(v, Cat) else (v,)
        out = []
        for p in parts:
            if isinstance(p, Lit):
                out.append(("lit", p.s))
            elif self.expzero and exp_digits_or_empty(p, self.param):
                out.append(("no exponent digit", p))      # the exponent 0 stripped to nothing
            elif exp_digits(p, self.param):
                out.append(("exp", p))
            elif fixed_models(p, Reg(self.neg, 1), mantissa_kind(self.param)) is not None:
                out.append(("mantissa", p))
            else:
                out.append(("other", p))
        return out
