"""C02 -- frequency-domain solvers (partial claim)."""
from __future__ import annotations

import ast

from . import e2_formula as F
from . import ode_spaces as O
from .core import AnchorError, Unsupported
from .e1_srcmodel import dotted, walk_no_nested, parent, ancestors, utext
from .e2_eval import Evaluator, is_unknown, need

UTIL = "pyyeti/ode/_utilities.py"
W = F.sym("W")            # circular frequency 2 pi f
TWO_PI_F = 2 * F.sym("pi") * F.sym("freq")


def _mk_eval(ctx, m_none, extra_env=None, cond_extra=None, call_extra=None):
    env = {"self.b": F.sym("b"), "self.k": F.sym("k"), "self.m": F.sym("m"), "freq": F.sym("freq"),
           "force": F.sym("Frc"), "b": F.sym("b"), "k": F.sym("k"), "m": F.sym("m")}
    if m_none:
        env["self.m"] = None
        env["m"] = None
    if extra_env:
        env.update(extra_env)

    def cond(test, ev):
        t = utext(test)
        if t in ("self.misNone", "misNone"):
            return m_none
        if t in ("self.misnotNone", "misnotNone"):
            return not m_none
        if cond_extra:
            return cond_extra(t)
        return None

    def call(node, ev):
        d = dotted(node.func)
        if d in ("la.solve", "la.lu_solve", "np.linalg.solve") and len(node.args) >= 2:
            a, b = ev.ev(node.args[0]), ev.ev(node.args[1])
            if is_unknown(a) or is_unknown(b):
                return a if is_unknown(a) else b
            return need(b) / need(a)
        if d == "self._init_dva":
            return (F.sym("d_"), F.sym("v_"), F.sym("a_"), ev.ev(node.args[0]))
        if d == "np.eye":
            return F.const(1)
        if d == "np.ones":
            return F.const(1)
        if call_extra:
            return call_extra(node, ev)
        return NotImplemented

    return Evaluator(env=env, cond=cond, src=ctx.src, call=call)


def _to_W(r):
    """express a formula in W = 2 pi freq"""
    return need(r).subs({"freq": W / (2 * F.sym("pi"))})


def r1_dynamic_stiffness(ctx):
    b, k, m = F.sym("b"), F.sym("k"), F.sym("m")
    sites = []
    # SolveUnc._solve_freq_unc
    fn = ctx.src.func(O.UNC, "SolveUnc._solve_freq_unc")
    for m_none in (True, False):
        ev = _mk_eval(ctx, m_none, cond_extra=lambda t: True if t == "self.elsize" else None)
        ev.run(fn.body)
        st = [s for s in ev.stores if s[0] == "d"]
        if not st:
            ctx.error(f"_solve_freq_unc(m {'None' if m_none else 'given'}): store to d", fn)
            continue
        sites.append((f"SolveUnc._solve_freq_unc (m {'None' if m_none else 'given'})", st[-1][2], m_none, st[-1][3]))
    # FreqDirect.fsolve, uncoupled and coupled
    fn = ctx.src.func(O.FD, "FreqDirect.fsolve")
    for unc in (True, False):
        for m_none in (True, False):
            ev = _mk_eval(ctx, m_none, cond_extra=lambda t, unc=unc: unc if t == "self.unc" else (False if t == "self.ksize==0" else None))
            ev.env["self.kdof"] = F.sym("kdof")
            # the coupled arm loops `for i, O in enumerate(Omega)`: evaluate the loop body once with O := Omega
            body = []
            for s in fn.body:
                body.append(s)
            ev2 = ev
            ev2.run([s for s in fn.body if not isinstance(s, ast.If) or True])
            st = [s for s in ev2.stores if s[0] == "d" and not (is_unknown(s[2]))]
            if not unc:
                # evaluate the loop body explicitly
                loops = [n for n in walk_no_nested(fn) if isinstance(n, ast.For) and "enumerate(Omega)" in ast.unparse(n.iter)]
                if not loops:
                    ctx.error("FreqDirect.fsolve: coupled loop", fn)
                    continue
                om = ev2.env.get("Omega")
                ev3 = _mk_eval(ctx, m_none)
                ev3.env.update({k_: v for k_, v in ev2.env.items() if not is_unknown(v)})
                if m_none:
                    ev3.env["m"] = F.const(1)   # m = np.eye(ksize)
                ev3.env[loops[0].target.elts[1].id] = om
                ev3.run(loops[0].body)
                st = [s for s in ev3.stores if s[0] == "d"]
            if not st:
                ctx.error(f"FreqDirect.fsolve ({'uncoupled' if unc else 'coupled'}, m {'None' if m_none else 'given'}): store to d", fn)
                continue
            sites.append((f"FreqDirect.fsolve ({'uncoupled' if unc else 'coupled'}, m {'None' if m_none else 'given'})",
                          st[-1][2], m_none, st[-1][3]))
    for tag, val, m_none, node in sites:
        if is_unknown(val):
            ctx.error(f"{tag}: displacement formula", node, repr(val))
            continue
        try:
            H = F.sym("Frc") / _to_W(val)
            mm = F.const(1) if m_none else m
            want = F.I * W * b + k - W * W * mm
            ok = H.equals(want)
        except Unsupported as e:
            ctx.error(f"{tag}: normal form", node, str(e))
            continue
        ctx.check(ok, f"{tag}: d = F / (i W b + k - W^2 m) with W = 2 pi freq", node,
                  None if ok else {"F/d": repr(H), "want": repr(want)})
    # coupled modal path: H = i W - lambda
    fn = ctx.src.func(O.UNC, "SolveUnc._solve_freq_coup")
    ev = _mk_eval(ctx, False, extra_env={"pc.lam": F.sym("lam"), "pc.ur_inv_v": F.sym("Uinv"), "pc.ur_d": F.sym("Ud"),
                                          "self.invm": F.sym("m")},
                  cond_extra=lambda t: True if t in ("self.ksize",) else None)
    ev.run(fn.body)
    H = ev.env.get("H")
    if H is None or is_unknown(H):
        ctx.error("_solve_freq_coup: H", fn, repr(H))
    else:
        ok = _to_W(H).equals(F.I * W - F.sym("lam"))
        ctx.check(ok, "SolveUnc._solve_freq_coup: modal denominator H = i W - lambda", fn, None if ok else repr(H))
        st = [s for s in ev.stores if s[0] == "d"]
        if st and not is_unknown(st[-1][2]):
            want = F.sym("Ud") * (F.sym("Uinv") * F.sym("Frc") / F.sym("m")) / (F.I * W - F.sym("lam"))
            ok = _to_W(st[-1][2]).equals(want)
            ctx.check(ok, "SolveUnc._solve_freq_coup: d = ur_d (ur_inv_v M^-1 F / H)  (displacement rows of the right eigenvectors, "
                          "velocity columns of the inverse)", st[-1][3], None if ok else repr(st[-1][2]))
        else:
            ctx.error("_solve_freq_coup: store to d", fn)


def _derivative_sites(ctx):
    return [
        (O.BASE, "_BaseODE._init_dva", "rf"),
        (O.UNC, "SolveUnc._solve_freq_unc", "el"),
        (O.UNC, "SolveUnc._solve_freq_coup", "kdof"),
        (O.FD, "FreqDirect.fsolve", "kdof"),
    ]


def r2_derivative_relations(ctx):
    for rel, q, part in _derivative_sites(ctx):
        fn = ctx.src.func(rel, q)
        # find the statements  a[X] = <expr in d[X]> ; v[X] = ...
        found = {}
        for st in walk_no_nested(fn):
            if isinstance(st, ast.Assign) and isinstance(st.targets[0], ast.Subscript) and isinstance(st.targets[0].value, ast.Name) \
                    and st.targets[0].value.id in ("a", "v"):
                tgt = st.targets[0]
                idx = ast.unparse(tgt.slice)
                dref = f"d[{idx}]"
                if dref in ast.unparse(st.value):
                    found[tgt.value.id] = (st, idx)
        for which, factor, txt in (("v", F.I * W, "v = i W d"), ("a", -W * W, "a = -W^2 d")):
            if which not in found:
                ctx.fail(f"{q}: `{which}` is derived from `d` on the same partition", fn, f"no statement {which}[X] = f(d[X]) found")
                continue
            st, idx = found[which]
            D = F.sym("D")

            def sub(node, ev, idx=idx):
                if isinstance(node.value, ast.Name) and node.value.id == "d" and ast.unparse(node.slice) == idx:
                    return D
                return NotImplemented

            ev = Evaluator(env={"freq": F.sym("freq")}, src=ctx.src, subscript=sub)
            # definitions of freqw / freqw2 / Omega in this function
            for s2 in walk_no_nested(fn):
                if isinstance(s2, ast.Assign) and isinstance(s2.targets[0], ast.Name) and s2.targets[0].id in ("freqw", "freqw2", "Omega", "fw", "fw2") \
                        and s2.lineno < st.lineno:
                    ev.stmt(s2)
            val = ev.ev(st.value)
            if is_unknown(val):
                ctx.error(f"{q}: {txt}", st, repr(val))
                continue
            ok = _to_W(val).equals(factor * D)
            ctx.check(ok, f"{q}: {txt} on partition `{idx}`", st, None if ok else repr(val))
        # both use the same partition as the d store
        if "a" in found and "v" in found:
            ok = found["a"][1] == found["v"][1]
            ctx.check(ok, f"{q}: v and a are derived on the same partition", found["a"][0], nontrivial=False)
    # rigid-body arm: a is primary;  v = a/(iW), d = -a/W^2, masked by W != 0
    fn = ctx.src.func(O.UNC, "SolveUnc._solve_freq_rb")
    A = F.sym("A")
    nrb = 0
    for st in walk_no_nested(fn):
        if isinstance(st, ast.Assign) and isinstance(st.targets[0], ast.Subscript) and isinstance(st.targets[0].value, ast.Name) \
                and "a_rb" in ast.unparse(st.value) and "pvnz" in ast.unparse(st.targets[0].slice):
            base = st.targets[0].value.id
            which = base[0]
            if which not in "vd":
                continue
            nrb += 1
            ev = Evaluator(env={"a_rb": A, "freqw": W, "freqw2": W * W}, src=ctx.src)
            val = ev.ev(st.value)
            want = A / (F.I * W) if which == "v" else -A / (W * W)
            if is_unknown(val):
                ctx.error(f"_solve_freq_rb: {which}", st, repr(val))
                continue
            ok = val.equals(want)
            ctx.check(ok, f"_solve_freq_rb: rigid-body {which} = a {'/(i W)' if which == 'v' else '* (-1/W^2)'}", st, None if ok else repr(val))
            # masked by pvnz on both sides
            ok = "[pvnz]" in ast.unparse(st.value) and "a_rb[:, pvnz]" in ast.unparse(st.value)
            ctx.check(ok, f"_solve_freq_rb: the {which} write is restricted to non-zero frequencies on both sides", st)
            # the value reaches the solution array on the rb rows, and only under the option that names it
            if base != which:
                fin = [s2 for s2 in walk_no_nested(fn) if isinstance(s2, ast.Assign) and ast.unparse(s2.targets[0]).replace(" ", "") == f"{which}[rb]"
                       and ast.unparse(s2.value) == base]
                zero = [s2 for s2 in walk_no_nested(fn) if isinstance(s2, ast.Assign) and ast.unparse(s2.targets[0]) == base
                        and "np.zeros" in ast.unparse(s2.value)]
                ok = len(fin) == 1 and len(zero) == 1
                ctx.check(ok, f"_solve_freq_rb: `{base}` starts as zeros (0 Hz entries stay zero) and is stored to {which}[rb]", st)
    ctx.check(nrb == 2, "_solve_freq_rb: rigid-body v and d relations bound", fn, nontrivial=False)
    pv = [s for s in walk_no_nested(fn) if isinstance(s, ast.Assign) and ast.unparse(s.targets[0]) == "pvnz"]
    ok = bool(pv) and ast.unparse(pv[0].value).replace(" ", "") == "freqw!=0"
    ctx.check(ok, "_solve_freq_rb: pvnz = (freqw != 0)", pv[0] if pv else fn)
    # caller passes freqw2 = freqw**2, freqw = 2 pi freq
    for q in ("SolveUnc._solve_freq_unc", "SolveUnc._solve_freq_coup"):
        f2 = ctx.src.func(O.UNC, q)
        ev = Evaluator(env={"freq": F.sym("freq")}, src=ctx.src)
        for s2 in f2.body:
            if isinstance(s2, ast.Assign) and isinstance(s2.targets[0], ast.Name) and s2.targets[0].id in ("freqw", "freqw2"):
                ev.stmt(s2)
        fw, fw2 = ev.env.get("freqw"), ev.env.get("freqw2")
        ok = fw is not None and fw2 is not None and not is_unknown(fw) and not is_unknown(fw2) and fw.equals(TWO_PI_F) and fw2.equals(TWO_PI_F * TWO_PI_F)
        ctx.check(ok, f"{q}: freqw = 2 pi freq, freqw2 = freqw^2", f2)
        calls = [n for n in walk_no_nested(f2) if isinstance(n, ast.Call) and dotted(n.func) == "self._solve_freq_rb"]
        unc_flag = "True" if q.endswith("unc") else "False"
        ok = len(calls) == 1 and [ast.unparse(a) for a in calls[0].args] == ["d", "v", "a", "force", "freqw", "freqw2", "incrb", unc_flag]
        ctx.check(ok, f"{q}: calls _solve_freq_rb(d, v, a, force, freqw, freqw2, incrb, {unc_flag})", calls[0] if calls else f2)


def _dominating_tests(node):
    out = []
    n = node
    for a in ancestors(node):
        if isinstance(a, ast.If):
            inbody = any(n is x or any(n is y for y in ast.walk(x)) for x in a.body)
            out.append((ast.unparse(a.test).replace(" ", "").replace("'", '"').replace("(", "").replace(")", ""), inbody))
        n = a if False else n
    return out


def r3_option_gating(ctx):
    fn = ctx.src.func(O.UNC, "SolveUnc._solve_freq_rb")
    n = 0
    for st in walk_no_nested(fn):
        if isinstance(st, ast.Assign) and isinstance(st.targets[0], ast.Subscript) and isinstance(st.targets[0].value, ast.Name) \
                and st.targets[0].value.id in "dva" and "rb" in ast.unparse(st.targets[0].slice):
            letter = st.targets[0].value.id
            doms = _dominating_tests(st)
            ok = (f'"{letter}"inincrb', True) in doms
            n += 1
            ctx.check(ok, f"_solve_freq_rb: the rigid-body `{letter}` store is dominated by `\"{letter}\" in incrb`", st, doms)
    ctx.check(n == 3, "_solve_freq_rb: three gated rigid-body stores (d, v, a)", fn, nontrivial=False)
    top = [s for s in fn.body if isinstance(s, ast.If)]
    ok = bool(top) and ast.unparse(top[0].test).replace(" ", "") == "self.rbsizeandincrb"
    ctx.check(ok, "_solve_freq_rb: skipped entirely when there are no rb modes or incrb is empty", top[0] if top else fn)
    # FreqDirect: zeroes x[self.rb] under `"x" not in incrb`
    fn = ctx.src.func(O.FD, "FreqDirect.fsolve")
    n = 0
    for st in walk_no_nested(fn):
        if isinstance(st, ast.Assign) and isinstance(st.targets[0], ast.Subscript) and ast.unparse(st.targets[0].slice) == "self.rb" \
                and isinstance(st.value, ast.Constant) and st.value.value == 0:
            letter = ast.unparse(st.targets[0].value)
            doms = _dominating_tests(st)
            ok = (f'"{letter}"notinincrb', True) in doms
            n += 1
            ctx.check(ok, f"FreqDirect.fsolve: `{letter}[self.rb] = 0` exactly under `\"{letter}\" not in incrb`", st, doms)
    ctx.check(n == 3, "FreqDirect.fsolve: three gated rigid-body zeroings", fn, nontrivial=False)
    # rf: v, a stores dominated by `not rf_disp_only` (and not istime); d store is not
    fn = ctx.src.func(O.BASE, "_BaseODE._init_dva")
    for st in walk_no_nested(fn):
        if isinstance(st, ast.Assign) and isinstance(st.targets[0], ast.Subscript) and ast.unparse(st.targets[0].slice) == "rf":
            letter = ast.unparse(st.targets[0].value)
            doms = _dominating_tests(st)
            gated = any(t == "notistimeandnotrf_disp_only" and inb for t, inb in doms)
            if letter == "d":
                ctx.check(not gated, "_init_dva: the static rf displacement is computed regardless of rf_disp_only", st, doms)
            else:
                ctx.check(gated, f"_init_dva: rf `{letter}` is computed only when `not istime and not rf_disp_only`", st, doms)
    # fsolve passes incrb / rf_disp_only through
    for rel, q in ((O.UNC, "SolveUnc.fsolve"), (O.FD, "FreqDirect.fsolve")):
        f2 = ctx.src.func(rel, q)
        calls = [n for n in walk_no_nested(f2) if isinstance(n, ast.Call) and dotted(n.func) == "self._init_dva"]
        ok = len(calls) == 1 and any(k.arg == "rf_disp_only" and ast.unparse(k.value) == "rf_disp_only" for k in calls[0].keywords) \
            and any(k.arg == "istime" and ast.unparse(k.value) == "False" for k in calls[0].keywords) \
            and any(k.arg == "freq" and ast.unparse(k.value) == "freq" for k in calls[0].keywords)
        ctx.check(ok, f"{q}: _init_dva receives istime=False, freq=freq, rf_disp_only=rf_disp_only", calls[0] if calls else f2)


def r4_partition_typing(ctx):
    U, E = O.mode_U(), O.mode_E()
    plan = [
        (O.UNC, "SolveUnc._solve_freq_rb", U, "mode U"), (O.UNC, "SolveUnc._solve_freq_rb", E, "mode E"),
        (O.UNC, "SolveUnc._solve_freq_unc", U, "mode U"), (O.UNC, "SolveUnc._solve_freq_unc", E, "mode E"),
        (O.UNC, "SolveUnc._solve_freq_coup", E, "mode E"),
        (O.FD, "FreqDirect.fsolve", U, "mode U"),
        (O.BASE, "_BaseODE._init_dva", U, "mode U"),
    ]
    for rel, q, attrs, label in plan:
        attrs = dict(attrs)
        if q.endswith("_solve_freq_rb") and label == "mode E":
            # in mode E the `unc` flag can be either (complex diagonal systems are uncoupled but go through get_su_eig)
            pass
        cond = None
        if q.endswith("_solve_freq_rb"):
            # `unc` is a parameter here: the caller passes True only from _solve_freq_unc
            cond = {"self.systypeisfloat": label == "mode U"}
        O.type_function(ctx, rel, q, attrs, label, rule="C02-R4", cond=cond)


def r5_solvepsd(ctx):
    fn = ctx.src.func(UTIL, "solvepsd")
    # tuple position <-> solution attribute
    loops = [n for n in walk_no_nested(fn) if isinstance(n, ast.For) and "drmlist" in ast.unparse(n.iter)]
    if len(loops) != 1:
        raise AnchorError("solvepsd: drmlist loop")
    lp = loops[0]
    tup = lp.target.elts[1]
    names = [e.id for e in tup.elts]
    ctx.check(len(names) == 4, "solvepsd: each drmlist entry unpacks to four matrices (a, v, d, f)", lp, names, nontrivial=False)
    want_attr = dict(zip(names, ("sol.a", "sol.v", "sol.d", None)))
    A, V, D = F.sym("sol_a"), F.sym("sol_v"), F.sym("sol_d")
    env = {"sol.a": A, "sol.v": V, "sol.d": D, "unitforce": F.const(1)}
    for nm in names:
        env[nm] = F.sym(nm)
    ev = Evaluator(env=env, src=ctx.src, cond=lambda t, ev: True if "isnotNone" in utext(t) else None)
    body = [s for s in lp.body]
    ev.run(body[:-1] if isinstance(body[-1], ast.AugAssign) else body)
    frf = ev.env.get("frf")
    if frf is None or is_unknown(frf):
        ctx.error("solvepsd: frf", lp, repr(frf))
    else:
        want = F.sym(names[0]) * A + F.sym(names[1]) * V + F.sym(names[2]) * D + F.sym(names[3])
        ok = frf.equals(want)
        ctx.check(ok, f"solvepsd: frf = {names[0]}*a + {names[1]}*v + {names[2]}*d + {names[3]}[:, i]*1 (tuple position matches solution attribute)",
                  lp, None if ok else repr(frf))
    acc = [s for s in lp.body if isinstance(s, ast.AugAssign)]
    ok = len(acc) == 1 and isinstance(acc[0].op, ast.Add) and ast.unparse(acc[0].target) == "psd[j]" \
        and ast.unparse(acc[0].value).replace(" ", "") in ("forcepsd[i]*abs(frf)**2", "abs(frf)**2*forcepsd[i]")
    ctx.check(ok, "solvepsd: psd[j] accumulates forcepsd[i] * |frf|^2 over the forces", acc[0] if acc else lp)
    # each drm guarded by its own `is not None`
    for st in lp.body:
        if isinstance(st, ast.If):
            t = ast.unparse(st.test).replace(" ", "")
            nm = t.replace("isnotNone", "")
            inner = ast.unparse(st.body[0]) if st.body else ""
            ok = nm in names and nm in inner and (want_attr[nm] is None or want_attr[nm] in inner)
            ctx.check(ok, f"solvepsd: `{nm}` multiplies {want_attr.get(nm) or 'the unit force'} under its own None-check", st)
    # the unit FRF: genforce = t_frc[:, i:i+1] @ unitforce ; fsolve(genforce, freq)
    outer = [n for n in fn.body if isinstance(n, ast.For) and ast.unparse(n.iter).replace(" ", "") == "range(rpsd)"]
    ok = bool(outer) and any(utext(s) == "genforce=t_frc[:,i:i+1]@unitforce" for s in outer[0].body) \
        and any(utext(s) == "sol=fs.fsolve(genforce,freq,**kwargs)" for s in outer[0].body)
    ctx.check(ok, "solvepsd: one unit-amplitude FRF per force column (t_frc[:, i] at every frequency)", outer[0] if outer else fn)
    # rms^2 = trapezoidal area of the PSD over the frequency vector: evaluated on a generic 4-point grid
    # (symbolic f0..f3, p0..p3), so any algebraically equivalent formulation is accepted
    NF = 4
    fr = tuple(F.sym(f"f{i}") for i in range(NF))
    pp = tuple(F.sym(f"p{i}") for i in range(NF))

    def sub(node, ev):
        if utext(node) == "psd[j]":
            return pp
        return NotImplemented

    ev = Evaluator(env={"freq": fr}, src=ctx.src, subscript=sub)
    loops = [n for n in fn.body if isinstance(n, ast.For)]
    if not loops:
        raise AnchorError("solvepsd: loops")
    tail = fn.body[fn.body.index(loops[0]) + 1:]
    for s_ in tail:
        if isinstance(s_, ast.For):
            ev.run(s_.body)
        elif not isinstance(s_, ast.Return):
            ev.stmt(s_)
    st = [x for x in ev.stores if x[0] == "rms"]
    if not st or is_unknown(st[-1][2]) or isinstance(st[-1][2], tuple):
        ctx.error("solvepsd: rms formula", tail[0] if tail else fn, repr(st[-1][2]) if st else None)
    else:
        val = st[-1][2]
        want = F.const(0)
        for i in range(NF - 1):
            want = want + (fr[i + 1] - fr[i]) * (pp[i] + pp[i + 1]) / 2
        ok = (val * val).equals(want)
        ctx.check(ok, "solvepsd: rms^2 = sum_k (f_{k+1} - f_k)(p_k + p_{k+1})/2 on a generic non-uniform grid (trapezoidal area)", st[-1][3],
                  None if ok else {"rms^2": repr(val * val), "trapezoid": repr(want)})



PARTITION_NAMES = {"rb", "el", "rf", "kdof", "nonrf", "_rb", "_el"}


def r6_paired_advanced_indices(ctx):
    """A partition vector is an index *array* whenever the partitions are interleaved (self.slices False).  Two array-valued
    index elements in one subscript are paired element-wise by numpy instead of selecting the rows x columns grid, so such a
    subscript is only valid through np.ix_ or under a `self.slices` guard."""
    n = 0
    for rel in (O.BASE, O.UNC, O.FD, O.SE2, O.NM):
        m = ctx.src.mod(rel)
        for q, fn in sorted(m.funcs.items()):
            # local names bound to partition vectors / boolean masks
            part, mask = set(), set()
            for st in ast.walk(fn):
                if isinstance(st, ast.Assign) and len(st.targets) == 1 and isinstance(st.targets[0], ast.Name):
                    v = st.value
                    d = dotted(v)
                    if d and d.startswith("self.") and d[5:] in PARTITION_NAMES:
                        part.add(st.targets[0].id)
                    if isinstance(v, ast.Compare):
                        mask.add(st.targets[0].id)
            for sub in ast.walk(fn):
                if not (isinstance(sub, ast.Subscript) and isinstance(sub.slice, ast.Tuple)):
                    continue
                kinds = []
                for e in sub.slice.elts:
                    d = dotted(e)
                    if d and ((d.startswith("self.") and d[5:] in PARTITION_NAMES) or d in part):
                        kinds.append("P")
                    elif d and d in mask:
                        kinds.append("M")
                    else:
                        kinds.append("-")
                if kinds.count("P") + kinds.count("M") < 2:
                    continue
                n += 1
                guarded = False
                for a in ancestors(sub):
                    if isinstance(a, ast.If) and ast.unparse(a.test).replace(" ", "") == "self.slices" and \
                            any(sub is y for x in a.body for y in ast.walk(x)):
                        guarded = True
                ctx.check(guarded, f"{q}: `{ast.unparse(sub)}` combines two array-valued indices only where the partitions are known to be slices", sub,
                          None if guarded else "a partition vector is an index array when rb/el/rf modes are interleaved; numpy then pairs the two index "
                                               "arrays element-wise (shape-mismatch ValueError, or silently the wrong elements): use np.ix_ or index in two steps; "
                                               "witness: SolveUnc(m, b, k=[0, 5e3, 0, 8e4]).fsolve(F, freq) raises",
                          key=f"C02-R6|{q}|{ast.unparse(sub)}")
    ctx.check(n >= 1, f"paired-index rule bound to {n} subscripts", O.UNC + ":1", nontrivial=False)


def r7_every_force_counts(ctx):
    """solvepsd: the response PSD is the sum over ALL forces of PSD_i |H_i|^2, and H_i contains a direct term (drmf[:, i]) that does not pass
    through the equations of motion.  Hence no force may be skipped on the grounds that it does not load the equations: inside the loop over the
    forces the accumulation must be reached on every path whose skip condition is not implied by a vanishing force PSD itself."""
    fn = ctx.src.func("pyyeti/ode/_utilities.py", "solvepsd")
    accs = [n for n in ast.walk(fn) if isinstance(n, ast.AugAssign) and isinstance(n.op, ast.Add) and isinstance(n.target, ast.Subscript)
            and dotted(n.target.value) == "psd"]
    if not accs:
        # accumulate spelled as psd[j] = psd[j] + ...
        accs = [n for n in ast.walk(fn) if isinstance(n, ast.Assign) and isinstance(n.targets[0], ast.Subscript) and dotted(n.targets[0].value) == "psd"
                and any(isinstance(x, ast.Subscript) and dotted(x.value) == "psd" for x in ast.walk(n.value))]
    if len(accs) != 1:
        raise AnchorError("solvepsd: the PSD accumulation")
    acc = accs[0]
    loops = [a for a in ancestors(acc) if isinstance(a, (ast.For, ast.While))]
    if len(loops) < 2:
        raise AnchorError("solvepsd: force loop around the recovery-matrix loop")
    outer = loops[-1]
    allowed = {"forcepsd", "i", "np", "abs"} | {a.arg for a in fn.args.args if a.arg in ("forcepsd",)}
    it = outer.target.id if isinstance(outer.target, ast.Name) else None
    bad = []
    n_paths = 0
    # (a) tests that dominate the accumulation inside the force loop
    for a in ancestors(acc):
        if a is outer:
            break
        if isinstance(a, ast.If):
            n_paths += 1
            names = {x.id for x in ast.walk(a.test) if isinstance(x, ast.Name)}
            # None-checks of the recovery matrices are the documented way of leaving a term out; they guard single terms, not the accumulation
            if not names <= {"forcepsd", it, "np", "abs"}:
                bad.append((a, "the accumulation is executed only under `%s`" % ast.unparse(a.test)))
    # (b) early exits of an iteration before the accumulation is reached
    for n in ast.walk(outer):
        if isinstance(n, (ast.Continue, ast.Break)) and n.lineno < acc.lineno:
            inner_loops = [a for a in ancestors(n) if isinstance(a, (ast.For, ast.While))]
            if inner_loops and inner_loops[0] is not outer:
                continue
            guard = next((a for a in ancestors(n) if isinstance(a, ast.If)), None)
            n_paths += 1
            names = {x.id for x in ast.walk(guard.test) if isinstance(x, ast.Name)} if guard is not None else set()
            if guard is None or not names <= {"forcepsd", it, "np", "abs"}:
                bad.append((n, "force `%s` is skipped under `%s`" % (it, ast.unparse(guard.test) if guard is not None else "no condition")))
    for node, why in bad:
        ctx.fail("solvepsd: every force contributes PSD_i |H_i|^2, including its direct term drmf[:, i]", node,
                 why + ": a force whose t_frc column is zero still reaches the response through drmf", key=f"C02-R7|solvepsd|{why[:60]}")
    if not bad:
        ctx.ok("solvepsd: every force contributes PSD_i |H_i|^2 - no iteration of the force loop can leave before the accumulation (except for a vanishing force PSD)", outer)
    ctx.ok("solvepsd: accumulation `psd[j] += ...` sits in the recovery-matrix loop inside the force loop", acc, nontrivial=False)


def r8_structure_assumption(ctx):
    """A structure hint given to the linear solver for the dynamic stiffness H = i W b + k - W^2 m (scipy's assume_a / sym_pos) must be
    justified by ALL matrices H is made of: it is read from the code that computes the hint (followed through attributes and methods of the
    class).  No hint (the general driver) is always right."""
    fn = ctx.src.func(O.FD, "FreqDirect.fsolve")
    mod = ctx.src.mod(O.FD)
    calls = [c for c in ast.walk(fn) if isinstance(c, ast.Call) and (dotted(c.func) or "").endswith("solve") and dotted(c.func) not in ("self.fsolve",)]
    n = 0
    for c in calls:
        hints = [k for k in c.keywords if k.arg in ("assume_a", "sym_pos")]
        n += 1
        if not hints:
            ctx.ok(f"FreqDirect.fsolve: `{ast.unparse(c.func)}` is called without a structure assumption (general driver)", c)
            continue
        for k in hints:
            v = k.value
            if isinstance(v, ast.Constant) and v.value in ("gen", "general", False, None):
                ctx.ok("FreqDirect.fsolve: explicit general driver", c)
                continue
            # follow self.<attr> to its assignments in the class and the methods they call
            seen_funcs, names = set(), set()
            work = [v]
            for _ in range(6):
                nxt = []
                for e in work:
                    for x in ast.walk(e):
                        d = dotted(x) if isinstance(x, ast.Attribute) else None
                        if d and d.startswith("self."):
                            names.add(d)
                            for q, f in mod.funcs.items():
                                if q.startswith("FreqDirect.") or q.startswith("_BaseODE."):
                                    for st in ast.walk(f):
                                        if isinstance(st, ast.Assign) and any(dotted(t) == d for t in st.targets) and id(st) not in seen_funcs:
                                            seen_funcs.add(id(st))
                                            nxt.append(st.value)
                        if isinstance(x, ast.Call) and (dotted(x.func) or "").startswith("self."):
                            q = "FreqDirect." + dotted(x.func)[5:]
                            f = mod.funcs.get(q)
                            if f is not None and id(f) not in seen_funcs:
                                seen_funcs.add(id(f))
                                nxt.append(f)
                work = nxt
                if not work:
                    break
            need_ = {"self.b", "self.k"}
            ok = need_ <= names
            ctx.check(ok, "FreqDirect.fsolve: the structure assumption passed to the solver is derived from every matrix of the dynamic stiffness "
                          "(m, b and k)", c, None if ok else {"hint": ast.unparse(v), "depends on": sorted(names),
                                                              "consequence": "an unsymmetric damping matrix makes H unsymmetric whatever m and k are"},
                      key="C02-R8|FreqDirect.fsolve|structure assumption ignores a matrix of H")
    ctx.check(n >= 1, "FreqDirect.fsolve: the coupled arm solves H d = F once per frequency", fn, n, nontrivial=False)


def r9_conjugate_set_guards(ctx):
    """The coupled frequency response sums over the FULL set of complex modes; the time-domain recurrence keeps one mode of each conjugate pair.
    SolveUnc._addconj restores the full set before a frequency solve, _delconj reduces it before a time solve.  The two guards must split the
    possible states into exactly two classes: `_delconj` acts when the set is full (an equality between two sizes), `_addconj` must act in every
    other state - its guard has to be the negation of that very equality (`!=`, or the strict inequality the size invariant allows) between the
    same two quantities.  Otherwise a half set of intermediate size (a mix of real roots and complex pairs) is left unexpanded."""
    from .sem import Sem, unfn
    fa = ctx.src.func(O.UNC, "SolveUnc._addconj")
    fd = ctx.src.func(O.UNC, "SolveUnc._delconj")

    def guard(fn, callee):
        for n in walk_no_nested(fn):
            if isinstance(n, ast.If) and any(isinstance(c, ast.Call) and dotted(c.func) == callee for b in n.body for c in ast.walk(b)):
                return n
        raise AnchorError(f"{fn.name}: guard of the call to {callee}")

    ga, gd = guard(fa, "addconj"), guard(fd, "delconj")
    Sa, Sd = Sem(ctx, fa, run=False), Sem(ctx, fd, run=False)
    for S, fn, g in ((Sa, fa, ga), (Sd, fd, gd)):
        for st in fn.body:
            if st is g:
                break
            S.ev.stmt(st)
    va, vd = Sa.ev.ev(ga.test), Sd.ev.ev(gd.test)
    ua, ud = unfn(va), unfn(vd)
    if ua is None or ud is None or not ua[0].startswith("cmp:") or not ud[0].startswith("cmp:"):
        ctx.error("_addconj / _delconj: guards are single comparisons", ga, [repr(va), repr(vd)])
        return
    ok = ud[0] == "cmp:Eq"
    ctx.check(ok, "_delconj: acts exactly when the stored set is the full set (an equality of two sizes)", gd, ud[0])
    if not ok:
        return
    X, Y = ud[1]
    opa, (P, Q) = ua[0], ua[1]
    same_pair = (P.equals(X) and Q.equals(Y)) or (P.equals(Y) and Q.equals(X))
    ok = same_pair and opa in ("cmp:NotEq", "cmp:Gt", "cmp:Lt")
    ctx.check(ok, "_addconj: acts in every state in which _delconj does not - its guard negates _delconj's equality between the same two sizes", ga,
              None if ok else {"_addconj": repr(va), "_delconj": repr(vd),
                               "consequence": "a half set whose size is neither of the two tested values (real roots mixed with complex pairs) is not expanded: "
                                              "fsolve sums over half of the conjugate pairs"},
              key="C02-R9|SolveUnc._addconj|guard is not the negation of _delconj's")


RULES = [
    ("C02-R6", r6_paired_advanced_indices, 2),
    ("C02-R1", r1_dynamic_stiffness, 8),
    ("C02-R2", r2_derivative_relations, 17),
    ("C02-R3", r3_option_gating, 12),
    ("C02-R4", r4_partition_typing, 30),
    ("C02-R5", r5_solvepsd, 9),
    ("C02-R7", r7_every_force_counts, 2),
    ("C02-R8", r8_structure_assumption, 2),
    ("C02-R9", r9_conjugate_set_guards, 2),
]
LEVEL = "other"
EXPLANATION = ("Static: every frequency-domain path divides by the same dynamic stiffness i W b + k - W^2 m (exact normal forms), derives v and a "
               "from d by i W and -W^2 on the same partition, gates rigid-body / rf terms by the option that names them (dominance on the AST), "
               "uses each partition in its own index space (E3 typing in both SolveUnc modes), and solvepsd accumulates PSD_i |H_i|^2 with the "
               "tuple positions matching the solution attributes and takes the trapezoidal area.")
MANIFEST = {
    "text": "Partial claim decided statically: (R1) the denominators of SolveUnc._solve_freq_unc (m None/given), FreqDirect.fsolve uncoupled and coupled "
            "(m None/given) all equal i W b + k - W^2 m with W = 2 pi f, and the modal path uses i W - lambda with the d-rows / v-columns of the eigenvectors; "
            "(R2) v = i W d, a = -W^2 d on each partition, rigid-body v = a/(iW), d = -a/W^2 masked at W = 0; (R3) incrb / rf_disp_only gating by dominance; "
            "(R4) partition-space typing of the frequency functions in both SolveUnc modes; (R5) solvepsd formula and trapezoid; (R6) paired advanced indices; (R7) every force reaches the PSD accumulation (must-pass-through in the "
            "force loop: only a vanishing force PSD may skip an iteration, because the direct term drmf[:, i] bypasses the equations); (R8) a structure "
            "assumption handed to the solver of the dynamic stiffness must be derived from every matrix of H; (R9) the guards of SolveUnc._addconj / _delconj are complementary (the full conjugate set is restored "
            "before every frequency solve unless it is already full). "
            "Not decided: accuracy of the complex-mode path, singular H, library solves.",
    "note": "Trusted: CPython ast; verifier/e2_formula.py (commutative normal forms: matrix products are abstracted to scalar products), verifier/e3_spaces.py "
            "with the attribute table of verifier/ode_spaces.py (read from _BaseODE, one reason per line).",
    "technique": "static formula extraction to exact normal forms + dominance checks on the AST + partition-space type inference",
}
