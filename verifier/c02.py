"""C02 -- frequency-domain solvers (partial claim).

R1-R5 and R8-R9 decide on *values*: the public entry points (`SolveUnc.fsolve`, `FreqDirect.fsolve`, `solvepsd`) are evaluated on symbols
once per configuration (m None / given, real-uncoupled / complex-uncoupled / coupled, which letters are in `incrb`, rf_disp_only) by
`c02_sem.PathEval`, which follows the helpers of the class and of the module, decides every test by its value and records every store
into d, v, a as a cell (array identity, evaluated index, stored value).  The rules read that trace; how the source spells the path
(temporaries, renamed locals, guard clauses, swapped arms, extracted or inlined helpers, module constants, np.matmul / np.negative,
keyword arguments, loops <-> comprehensions, dispatch through a bound-method variable, set algebra on the option string) is not visible in it.

Soundness of the negative conclusions ("no store of v on these rows is reached", "the rigid-body rows stay zero", "addconj is not reached", "a force
never reaches the accumulation"): they are drawn only from a trace in which every write was followed.  `_untraced` lists what the evaluator
could not follow on a path (stores through unknown values, arrays handed to code that is not followed, ...); a configuration with such an entry
is unusable (analysis error).  A formula that fails an identity but mentions an atom the rule has no meaning for (a constant that could not be
folded, an unmodelled call) is an analysis error as well (`_refutable`).  What a result array holds on given rows is the effect of all stores in
order, whole-array updates (`v *= f`) included (`_content`, `_rb_state`).

A test the configuration cannot decide (a test on solver state such as "is the full conjugate set present", inlined from SolveUnc._addconj) is
taken both ways (`Run.paths`); the configuration is usable when the stores into d, v, a and the returned value are the same on every
combination.  R9 reads the guard of the call of `addconj` wherever it lives, and the condition under which fsolve reaches it.

(pass 4) The rigid-body part of R2 no longer reads the shape of the code (an array of its own filled on the selected columns / a masked write): it asks
what the rigid-body rows hold in each class of frequencies W > 0, W < 0, W = 0 (`c02_world`: a selection is true, false or mixed in a class; stores
are replayed in program order), so a mask, its index form, a vector of integration factors, np.where are one thing.  R10 closes the two limits of the
dynamic stiffness the solvers treat apart (k_rf d = F on the rf rows, m_rb a = F on the rigid-body rows), reading what the precomputed state
(`ikrf`, `invm`, `imrb` or whatever the use site names) holds from the methods that assign it.  R1 also refuses a frequency / force column picked at a
position computed from the loop counter that is not the position of the stored column."""
from __future__ import annotations

import ast

from . import e2_formula as F
from . import ode_spaces as O
from .core import AnchorError, Unsupported
from .e1_srcmodel import dotted, ancestors, walk_no_nested
from .e2_eval import is_unknown, need
from .e3_spaces import Arr, Idx
from .sem import unfn
from . import c02_sem as S
from .c02_types import ValueTyper
from .c02_world import World, WORLDS
from . import c02_modal as MD

UTIL = "pyyeti/ode/_utilities.py"
I = F.I
PI = F.sym("pi")
FREQ = F.sym("freq")
W = 2 * PI * FREQ                 # circular frequency
FORCE = F.sym("force")

# ------------------------------------------------------------------------------------------------ configurations
_BASE = {"self.nonrfsz": True, "self.cdforces": False, "self.rbsize": True, "self.elsize": True, "self.ksize": True, "self.rfsize": True,
         "self.pre_eig": False, "self.slices": False, "self.n": True, "len(freq)": True, "freq.size": True,
         "len(self.rb)": True, "self.rb.size": True, "len(self.rf)": True, "self.rf.size": True, "len(self.el)": True, "self.el.size": True,
         "len(self.kdof)": True, "self.kdof.size": True, "len(self.nonrf)": True, "self.nonrf.size": True, "incrb": True, '"d" in incrb': True, '"v" in incrb': True, '"a" in incrb': True, "rf_disp_only": False}


def _identity_model(ev, node):
    # _process_incrb(incrb): validates; returns the string form unchanged (R3 checks exactly that on its body)
    return ev.ev(node.args[0]) if len(node.args) == 1 and not node.keywords else NotImplemented


def _entry(ctx, solver, follow_state=False):
    if solver == "SolveUnc":
        fn = ctx.src.func(O.UNC, "SolveUnc.fsolve")
        # (the method that restores the full conjugate set works on solver state, not on d, v, a: an opaque call for the formula rules;
        #  R9 follows it to read the condition under which `addconj` is reached from fsolve)
        opts = S.Opts(classes=[(O.UNC, "SolveUnc"), (O.BASE, "_BaseODE")],
                      exclude={"self._delconj", "self._solution_freq"} | (set() if follow_state else {"self._addconj"}),
                      erase_loop_index=True, models={"_process_incrb": _identity_model}, erase_T=False)
    else:
        fn = ctx.src.func(O.FD, "FreqDirect.fsolve")
        opts = S.Opts(classes=[(O.FD, "FreqDirect"), (O.BASE, "_BaseODE")], exclude={"self._solution_freq"},
                      erase_loop_index=True, models={"_process_incrb": _identity_model}, erase_T=False)
    return fn, opts


# (key, label, solver, overrides, attribute table)
def _families():
    U, E = O.mode_U(), O.mode_E()
    return [
        ("su-real", "SolveUnc real uncoupled", "SolveUnc", {"self.unc": True, "self.systype is float": True}, U),
        ("su-cplx", "SolveUnc complex uncoupled", "SolveUnc", {"self.unc": True, "self.systype is float": False}, E),
        ("su-coup", "SolveUnc coupled", "SolveUnc", {"self.unc": False, "self.systype is float": True}, E),
        ("fd-unc", "FreqDirect uncoupled", "FreqDirect", {"self.unc": True}, U),
        ("fd-coup", "FreqDirect coupled", "FreqDirect", {"self.unc": False}, U),
    ]


class Run:
    """one evaluated configuration: trace + value typer + classification of the cells by the partition their index selects"""

    def __init__(self, ctx, fam, m_none, extra=None, tag="", follow_state=False):
        key, label, solver, over, attrs = fam
        self.family = key
        self.solver = solver
        self.m_none = m_none
        self.label = f"{label}, m {'None' if m_none else 'given'}" + (f", {tag}" if tag else "")
        table = dict(_BASE)
        table.update(over)
        table["self.m is None"] = m_none
        if extra:
            table.update(extra)
        self.fn, opts = _entry(ctx, solver, follow_state)
        # A test the configuration does not decide (a test on solver *state* such as "is the full conjugate set present", a flag the rule
        # knows nothing about) is taken both ways.  The configuration stays usable when what is stored into d, v, a and what is returned is
        # the same on every combination; otherwise the open tests are reported as analysis errors (`problems`).
        self.open_tests = []
        solver_, table_ = solver, dict(table)

        def is_none(attr):
            """`self.<attr> is None`, from the values the class assigns to that attribute under this configuration (None: not known)"""
            if f"self.{attr}" in table_ or f"self.{attr} is None" in table_:
                return None
            keys = {k: v for k, v in table_.items() if k in ("self.unc", "self.m is None", "self.rfsize", "self.ksize", "self.rbsize", "self.elsize")}
            try:
                vals = _state_meaning(ctx, solver_, attr, keys)
            except Exception:  # noqa
                return None
            if not vals:
                return None
            nones = [S.sym_name(v) == "None" for v in vals]
            return True if all(nones) else (False if not any(nones) else None)

        class _Cfg(S._ForkConfig):
            none_oracle = staticmethod(is_none)
        try:
            found = S.explore(ctx, self.fn, table, opts, cfg_cls=_Cfg)
        except Unsupported as e:
            tr, ev = S.run_entry(ctx, self.fn, table, opts, self.label)
            found = [([], tr, ev)]
            if not tr.undecided:
                self.open_tests.append((self.fn, f"{self.label}: {e}"))
        # a combination that ends in an exception returns nothing: the property says nothing about it
        alive = [f for f in found if not f[1].raised]
        if alive:
            found = alive
        else:
            st, f = found[0][1].raised
            self.open_tests.append((st, f"{self.label}: every evaluated path ends in the `raise` in {f}"))
        self.paths = [(dec, tr) for dec, tr, _ in found]
        idss = [_result_arrays(ctx, self.solver, self.fn, tr) for _, tr in self.paths]
        sigs = [_observable(self.fn, tr, ids) for (_, tr), ids in zip(self.paths, idss)]
        k = min(range(len(found)), key=lambda i: (len(found[i][1].cells), i))
        self.trace, self.ev, self.ids = found[k][1], found[k][2], idss[k]
        if any(sg != sigs[0] for sg in sigs[1:]):
            seen = set()
            for i, (dec, tr) in enumerate(self.paths):
                nodes = {kk: (n, f) for n, f, kk in tr.forked}
                for v, b in dec:
                    kk = S.vkey(v)
                    if kk in seen:
                        continue
                    # the test matters when two combinations that differ in it store different things
                    other = [j for j, (dec2, _) in enumerate(self.paths) if any(S.vkey(v2) == kk and b2 != b for v2, b2 in dec2)]
                    if any(sigs[j] != sigs[i] for j in other):
                        seen.add(kk)
                        n, f = nodes.get(kk, (self.fn, self.fn.name))
                        text = ast.unparse(n) if kk in nodes else repr(v)
                        self.open_tests.append((n, f"{self.label}: the test `{text}` in {f} cannot be decided in this configuration "
                                                   "(what is stored into d, v, a depends on it)"))
            if not self.open_tests:
                self.open_tests.append((self.fn, f"{self.label}: the stores into d, v, a differ between the combinations of the tests left open"))
        types = dict(attrs)
        types["force"] = Arr("N", None)
        for x in "dva":
            types[self.ids[x]] = Arr("N", None, x)
        self.typer = ValueTyper(types, self.trace, self.label)
        self.coupled = over.get("self.unc") is False
        self.pre_eig = bool(table.get("self.pre_eig"))

    def sym(self, letter):
        return F.sym(self.ids[letter])

    def cells_of(self, letter):
        return self.trace.cells_of(self.ids[letter])

    def problems(self):
        """what makes the trace unusable: tests that could not be decided, constructs that are not lowered, the result arrays not found"""
        out = list(self.open_tests)
        for t, f in self.trace.undecided:
            if isinstance(t, ast.stmt):
                out.append((t, f"{self.label}: a `{type(t).__name__.lower()}` statement in {f} is not lowered"))
            else:
                out.append((t, f"{self.label}: the test `{ast.unparse(t)}` in {f} cannot be decided in this configuration"))
        seen = set()
        for _, tr in self.paths:
            for c in tr.cells:
                if c[0] in tr.opaque and id(c[3]) not in seen:
                    seen.add(id(c[3]))
                    out.append((c[3], f"{self.label}: a store through `{c[0]}`, which is bound to `{tr.init.get(c[0])!r}`, cannot be attributed to an array"))
            out.extend(_untraced(tr, self.label, seen))
        for x in "dva":
            if self.ids[x] not in self.trace.idents:
                out.append((self.fn, f"{self.label}: the field `{x}` of the solution fsolve returns is not one of the arrays filled on the evaluated path"))
            for c in self.cells_of(x):
                if is_unknown(c[1]) or is_unknown(c[2]) or isinstance(c[2], tuple):
                    out.append((c[3], f"{self.label}: a store into `{x}` cannot be evaluated ({c[1] if is_unknown(c[1]) else c[2]!r})"))
                elif self.part(c[1]) is None and not isinstance(self.typer.ty(c[1]), Idx):
                    # (an index vector that is relative to another space than the full set is a typing violation: R4 reports it, the cell is
                    #  no store on a partition of the full set for the other rules)
                    out.append((c[3], f"{self.label}: the rows `{c[1]!r}` of `{x}` that are stored into are not a partition the rule knows"))
        return out

    def part(self, ix):
        """the partition an index value selects out of the full equation set: 'RF' | 'RB' | 'EL' | 'K' | None (whole array: 'ALL')"""
        if ix is None:
            return "ALL"
        if is_unknown(ix):
            return None
        t = self.typer.ty(ix)
        if t is None:
            u = unfn(ix)
            if u is not None and u[0] == "tuple":
                parts = [a for a in u[1] if not isinstance(a, str)]
                t = self.typer.ty(parts[0]) if parts else None
        if isinstance(t, Idx) and t.dom == "N":
            return t.cod
        return None

    def cells(self, ident, parts=None):
        out = []
        for c in self.cells_of(ident):
            p = self.part(c[1])
            if parts is None or p in parts:
                out.append((p,) + tuple(c))
        return out      # (partition, ident, index, value, node, clock)


def _untraced(tr, label, seen=None):
    """[(node, message)]: writes the evaluated path may make that are not in its trace - a store through a value the evaluator does not know, an
    array handed to code that was not followed.  With one of these no rule may conclude that an array (or a part of it) was left as it was."""
    seen = set() if seen is None else seen
    out = []
    for node, f, why in tr.lost:
        if id(node) not in seen:
            seen.add(id(node))
            out.append((node, f"{label}: {why} (in {f}): it cannot be attributed to an array"))
    for node, f, callee, ids in tr.escaped:
        if id(node) not in seen:
            seen.add(id(node))
            what = "a value the evaluator does not know" if ids == ["?"] else "the array(s) " + ", ".join(f"`{i}`" for i in ids if i != "?")
            out.append((node, f"{label}: `{callee}` (called in {f}) is handed {what} and is not followed: what it stores is missing from the trace"))
    return out


def _classes(solver):
    return [(O.UNC if solver == "SolveUnc" else O.FD, solver), (O.BASE, "_BaseODE")]


def _result_arrays(ctx, solver, fn, trace):
    """identities of the arrays that become the fields d, v, a of the returned solution: read from the call of _solution_freq that ends
    fsolve and from the fields that function fills (the public names sol.d / sol.v / sol.a are the anchor, not the names of locals)"""
    from .sem import split_call, place
    ids = {x: f"<no array behind the field {x} of the returned solution>" for x in "dva"}
    try:
        rets = trace.returns.get(fn.name) or []
        sc = split_call(rets[-1]) if rets and not is_unknown(rets[-1]) and not isinstance(rets[-1], tuple) else None
        if sc is not None and sc[0] in S._NAMESPACES:
            # the solution record is built in fsolve itself (no pre_eig in the evaluated configurations): its fields are the arrays
            for x in "dva":
                fv = sc[2].get(x) if sc[2].get(x) is not None and not is_unknown(sc[2].get(x)) and not isinstance(sc[2].get(x), tuple) else None
                nm = S.sym_name(fv) if fv is not None else None
                if nm is None and fv is not None:
                    # (pre_eig: the field is the array of the path transformed back to physical coordinates, Phi @ d; the transformation is kept
                    #  for `_force_of`)
                    cands = sorted(n for n in _symbols(fv) if n in trace.idents)
                    if len(cands) == 1:
                        q = need(fv) / F.sym(cands[0])
                        if cands[0] not in _symbols(q):
                            nm = cands[0]
                            trace.__dict__.setdefault("c02_transform", {})[x] = q
                if nm is not None and nm in trace.idents:
                    ids[x] = nm
            return ids
        if sc is None or not sc[0].endswith("_solution_freq"):
            return ids
        sf = None
        for rel, cls in _classes(solver):
            sf = sf or ctx.src.mod(rel).funcs.get(f"{cls}._solution_freq")
        if sf is None:
            return ids
        params = [a.arg for a in sf.args.args if a.arg != "self"]
        got = place(sc[1], sc[2], params)
        fields = _solution_fields(ctx, sf, False, _classes(solver))
        for x in "dva":
            pn = S.sym_name(fields.get(x)) if fields else None
            nm = S.sym_name(got.get(pn)) if pn in got else None
            if nm is not None and nm in trace.idents:
                ids[x] = nm
    except Unsupported:
        pass
    return ids


def _vk(v):
    if v is None:
        return None
    if is_unknown(v):
        return ("?", v.why)
    if isinstance(v, tuple):
        return tuple(_vk(x) for x in v)
    try:
        return S.vkey(v)
    except Exception:  # noqa
        return ("?", repr(v))


def _observable(fn, trace, ids):
    """what a caller of fsolve can see of one evaluated path: the stores into the result arrays and into every array that reaches them
    (ident, index, value in order), what those arrays were created from, and the returned value"""
    keep = set(ids.values())
    grow = True
    while grow:
        grow = False
        for c in trace.cells:
            if c[0] not in keep:
                continue
            for val in (c[1], c[2]):
                if val is None or is_unknown(val) or isinstance(val, tuple):
                    continue
                try:
                    for nm in _symbols(val):
                        if nm in trace.idents and nm not in keep:
                            keep.add(nm)
                            grow = True
                except Unsupported:
                    pass
    sig = [(c[0], _vk(c[1]), _vk(c[2])) for c in trace.cells if c[0] in keep]
    sig.append(("<init>", tuple(sorted((i, _vk(trace.init.get(i))) for i in keep if i in trace.init))))
    sig.append(("<return>", tuple(_vk(v) for v in trace.returns.get(fn.name) or [])))
    sig.append(("<open>", tuple(sorted(ast.dump(t) if not isinstance(t, ast.stmt) else type(t).__name__ for t, _ in trace.undecided))))
    return sig


def _solution_fields(ctx, sf, pre, classes=None):
    """fields of the namespace returned by _solution_freq, as values over its parameters (None when it cannot be read); helpers of the class
    it calls (a transformation extracted into a method) are followed"""
    from .sem import split_call
    cache = ctx.__dict__.setdefault("_c02_fields", {})
    k = (id(sf), pre)
    if k in cache:
        return cache[k][0] if cache[k] else None
    cache[k] = None
    tr, ev = S.run_entry(ctx, sf, {"self.pre_eig": pre}, S.Opts(classes=classes or [(O.BASE, "_BaseODE")], erase_T=False), "_solution_freq")
    if tr.undecided or not ev.returns:
        return None
    val, node = ev.returns[-1]
    fields = {}
    sc = split_call(val) if val is not None and not is_unknown(val) and not isinstance(val, tuple) else None
    if sc is not None:
        fields.update(sc[2])
    if isinstance(node.value, ast.Name):
        for x in ("d", "v", "a", "f"):
            if f"{node.value.id}.{x}" in ev.env:
                fields[x] = ev.env[f"{node.value.id}.{x}"]
    cache[k] = (fields, node)
    return cache[k][0]


def _run(ctx, famkey, m_none, extra=None, tag="", follow_state=False):
    cache = ctx.__dict__.setdefault("_c02_runs", {})
    k = (famkey, m_none, tuple(sorted((extra or {}).items())), follow_state)
    if k not in cache:
        fam = next(f for f in _families() if f[0] == famkey)
        cache[k] = Run(ctx, fam, m_none, extra, tag, follow_state)
    return cache[k]


def _crashes(ctx, traces, label):
    """a name read on an evaluated path that no construct binds: the path ends in a NameError - a violation, reported once per rule and place"""
    seen = ctx.__dict__.setdefault("_c02_failed", set())
    hit = False
    for tr in traces:
        for node, f, name in tr.unbound:
            hit = True
            k = (ctx.rule, id(node), "unbound")
            if k in seen:
                continue
            seen.add(k)
            ctx.fail(f"{label}: every name read on the evaluated path is bound", node, f"`{name}` is read in {f} but nothing binds it: NameError on this path",
                     key=f"C02|unbound name|{f}|{name}")
    return hit


def _usable(ctx, run):
    if _crashes(ctx, [tr for _, tr in run.paths], run.label):
        return False
    bad = run.problems()
    for node, msg in bad:
        ctx.error(msg, node)
    return not bad


DYN = ("EL", "K")


def _configs():
    """(family, m_none, extra, tag) of the configurations the formula rules evaluate: every family with m None / given in physical coordinates, and
    every family in the `pre_eig` regime (the solver works in modal coordinates; `_do_pre_eig` leaves m None there)"""
    for fam in _families():
        for m_none in (True, False):
            yield fam, m_none, None, ""
    for fam in _families():
        if _has_pre_eig(fam[2]):
            yield fam, True, {"self.pre_eig": True}, "pre_eig"


_PRE_EIG = {}


def _has_pre_eig(solver):
    """the solver can be built with the `pre_eig` option (its constructor has that parameter): the regime exists for it"""
    return _PRE_EIG.get(solver, True)


def _force_of(ctx, run, node=None):
    """the right-hand side F of the equations the solver works on, in the coordinates its rows live in: the force handed to fsolve, or - under
    pre_eig, where the returned responses are Phi q - the modal force Phi^T F (pre-multiply (-W^2 M + i W B + K) Phi q = F by Phi^T; the solver's
    matrices are Phi^T M Phi = 1, Phi^T B Phi, Phi^T K Phi).  Phi is read from what `_solution_freq` does to d under pre_eig.  None (after an
    analysis error) when it cannot be read."""
    if not run.pre_eig:
        return FORCE
    cache = ctx.__dict__.setdefault("_c02_modal_force", {})
    own = run.trace.__dict__.get("c02_transform")
    if own and run.solver not in cache:
        # the solution record is built in fsolve itself: the transformation is the one applied there
        cache[run.solver] = None
        try:
            phi = MD.push_T(own["d"]) if "d" in own else None
            if phi is not None and not phi.is_zero() and not (_symbols(phi) & run.trace.idents):
                cache[run.solver] = MD.push_T(MD.transpose(phi) * FORCE)
                cache[run.solver, "phi"] = _symbols(phi)
        except Unsupported:
            pass
    if run.solver not in cache:
        cache[run.solver] = None
        sf = None
        for rel, cls in _classes(run.solver):
            sf = sf or ctx.src.mod(rel).funcs.get(f"{cls}._solution_freq")
        try:
            plain = _solution_fields(ctx, sf, False, _classes(run.solver)) if sf is not None else None
            modal = _solution_fields(ctx, sf, True, _classes(run.solver)) if sf is not None else None
            pn = S.sym_name(plain.get("d")) if plain else None
            dv = modal.get("d") if modal else None
            if pn is not None and dv is not None and not is_unknown(dv) and not isinstance(dv, tuple):
                phi = MD.push_T(need(dv) / F.sym(pn))
                if pn not in _symbols(phi) and not phi.is_zero():
                    cache[run.solver] = MD.push_T(MD.transpose(phi) * FORCE)
                    cache[run.solver, "phi"] = _symbols(phi)
        except Unsupported:
            pass
    if cache[run.solver] is None:
        ctx.error(f"{run.label}: the transformation `_solution_freq` applies to the modal responses under pre_eig cannot be read (the modal force is its "
                  "transpose times the force)", node or run.fn)
    return cache[run.solver]


def _refutable_modal(ctx, run, ok, text, node, *values):
    """under pre_eig a right-hand side written through a solve with the transformation (Phi^-1 ... instead of Phi^T ...) may be the modal force
    in another spelling (Phi^T M Phi = 1): not refuted by the comparison with Phi^T F - an analysis error"""
    if ok or not run.pre_eig:
        return True
    for v in values:
        if v is None or is_unknown(v) or isinstance(v, tuple):
            continue
        for name in ("solve", "lu_solve", "call:la.inv", "call:np.linalg.inv", "call:la.pinv", "call:np.linalg.pinv", "call:la.lstsq", "call:np.linalg.lstsq"):
            for args in S.atoms_of(v, name):
                if args and not isinstance(args[0], str) and (_symbols(args[0]) & ctx.__dict__.get("_c02_modal_force", {}).get((run.solver, "phi"), {"self.phi"})):
                    ctx.error(f"{text}: the right-hand side is written through a solve with the modal transformation, which the rule cannot compare with "
                              "Phi^T F", node, repr(v))
                    return False
    return True


def _check_once(ctx, ok, text, node, detail=None, key=None, tag=None):
    """ctx.check, but one source statement that fails the same obligation in several configurations is reported once"""
    if not ok:
        seen = ctx.__dict__.setdefault("_c02_failed", set())
        k = (ctx.rule, id(node), tag)
        if k in seen:
            return ok
        seen.add(k)
    ctx.check(ok, text, node, detail, key=key)
    return ok


_KNOWN_SYMS = {"freq", "pi", "I", "force", "None", "True", "False", ":", "<what the rows held>"}
_KNOWN_FNS = {"idx", "solve", "lu_solve", "abs", "tuple", "slice", "not", "invert", "mask:BitAnd", "mask:BitOr", "s_", "star"}


def _state_attrs(ctx, solver):
    """names X for which `self.X` is solver state: assigned through `self.` (or setattr on self) somewhere in the class or its base, or listed in
    the attribute tables of ode_spaces"""
    cache = ctx.__dict__.setdefault("_c02_state_attrs", {})
    if solver not in cache:
        out = {k.split(".")[1] for t in (O.mode_U(), O.mode_E()) for k in t if k.startswith("self.")}
        for rel, cls in _classes(solver):
            for x in ast.walk(ctx.src.mod(rel).tree):
                if isinstance(x, ast.Attribute) and isinstance(x.ctx, ast.Store) and isinstance(x.value, ast.Name) and x.value.id == "self":
                    out.add(x.attr)
        cache[solver] = out
    return cache[solver]


def _foreign(ctx, run, *values):
    """what a formula mentions that the rule has no meaning for: a name that is neither the frequency, the force, solver state nor an array of
    the trace (a constant the evaluator could not fold, a parameter, ...) or a call it does not model.  A formula with such an atom cannot be
    refuted - an identity that does not hold for it is an analysis error, not a violation."""
    attrs = _state_attrs(ctx, run.solver)
    out = set()

    def f(kind, name, args):
        if kind == "s":
            if name in _KNOWN_SYMS or name in run.trace.idents or name[:1] in "'\"<":
                return NotImplemented
            parts = name.split(".")
            if parts[0] in ("self", "pc") and len(parts) >= 2 and (parts[1] in attrs or parts[0] == "pc"):
                return NotImplemented
            out.add(name)
        elif kind == "fn":
            if not (name in _KNOWN_FNS or name.startswith(("cmp:", "ax", "attr:", "kw:", "bool:"))):
                out.add(name + "(...)")
        return NotImplemented
    for v in values:
        if v is None or is_unknown(v) or isinstance(v, tuple):
            continue
        try:
            S.rewrite(v, f)
        except Unsupported:
            out.add("<a term the algebra cannot walk>")
    return sorted(out)


def _no_such_attr(ctx, solver, name):
    """`self.X` where nothing in the class or its base provides X (no assignment through self, no method / property / class-level name, no
    __getattr__, setattr or __dict__ tricks in those modules): reading it raises AttributeError - a defect, not something to interpret"""
    parts = name.split(".")
    if len(parts) < 2 or parts[0] != "self" or parts[1] in _state_attrs(ctx, solver):
        return False
    cache = ctx.__dict__.setdefault("_c02_class_names", {})
    if solver not in cache:
        names, dynamic = set(), False
        for rel, cls in _classes(solver):
            tree = ctx.src.mod(rel).tree
            for x in ast.walk(tree):
                if isinstance(x, ast.Call) and dotted(x.func) in ("setattr", "vars", "object.__setattr__"):
                    dynamic = True
                if isinstance(x, ast.Attribute) and x.attr in ("__dict__", "__getattr__", "__getattribute__"):
                    dynamic = True
                if isinstance(x, ast.FunctionDef) and x.name in ("__getattr__", "__getattribute__"):
                    dynamic = True
            for c in tree.body:
                if isinstance(c, ast.ClassDef) and c.name == cls:
                    if any(not (isinstance(b_, ast.Name) and b_.id in {k for _, k in _classes(solver)} | {"object"}) for b_ in c.bases):
                        dynamic = True          # a base class the rule does not read
                    for st in c.body:
                        if isinstance(st, (ast.FunctionDef, ast.ClassDef)):
                            names.add(st.name)
                        for y in ast.walk(st) if isinstance(st, (ast.Assign, ast.AnnAssign, ast.AugAssign)) else ():
                            if isinstance(y, ast.Name) and isinstance(y.ctx, ast.Store):
                                names.add(y.id)
        cache[solver] = (names, dynamic)
    names, dynamic = cache[solver]
    return not dynamic and parts[1] not in names


def _refutable(ctx, run, ok, text, node, *values):
    """False (and an analysis error is recorded) when `ok` is False but the compared formulas contain atoms the rule has no meaning for"""
    if ok:
        return True
    bad = [b for b in _foreign(ctx, run, *values) if not _no_such_attr(ctx, run.solver, b)]
    if bad:
        ctx.error(f"{text}: the formula contains {', '.join('`' + b + '`' for b in bad)}, which the rule cannot interpret", node, [repr(v) for v in values][:2])
        return False
    return True


def _zero(v):
    return v is not None and not is_unknown(v) and not isinstance(v, tuple) and need(v).is_zero()


def _starts_zero(trace, ident, before=None):
    """the array is all zeros before anything else is stored into it (before the clock `before`): created as zeros, or overwritten as a whole
    with zeros by the first store it receives"""
    if _zero(trace.init.get(ident)):
        return True
    cs = [c for c in trace.cells_of(ident) if before is None or c[4] < before]
    return bool(cs) and cs[0][1] is None and _zero(cs[0][2])


def _eq(a, b):
    if a is None or b is None or is_unknown(a) or is_unknown(b) or isinstance(a, tuple) or isinstance(b, tuple):
        return False
    try:
        return need(a).equals(need(b))
    except Unsupported:
        return False


# ------------------------------------------------------------------------------------------------ R1
def _read_pre_eig(ctx):
    for solver in ("SolveUnc", "FreqDirect"):
        rel = O.UNC if solver == "SolveUnc" else O.FD
        init = ctx.src.mod(rel).funcs.get(f"{solver}.__init__")
        _PRE_EIG[solver] = init is None or init.args.kwarg is not None or any(
            a.arg == "pre_eig" for a in init.args.posonlyargs + init.args.args + init.args.kwonlyargs)


def r1_dynamic_stiffness(ctx):
    _read_pre_eig(ctx)
    b, k, m = F.sym("self.b"), F.sym("self.k"), F.sym("self.m")
    for fam, m_none, extra, tag in _configs():
        if True:
            run = _run(ctx, fam[0], m_none, extra, tag)
            if not _usable(ctx, run):
                continue
            FORCE = _force_of(ctx, run)
            if FORCE is None:
                continue
            cs = run.cells("d", DYN)
            if not cs:
                ctx.error(f"{run.label}: no store into the dynamic (elastic / non-rf) rows of d found", run.fn)
                continue
            p, _, ix, val, node, clk0 = cs[-1]
            if is_unknown(val) or isinstance(val, tuple):
                ctx.error(f"{run.label}: displacement formula", node, repr(val))
                continue
            try:
                if any(w[1] is None and w[4] > clk0 for w in run.cells_of("d")):
                    val = _content(run, "d", ix)          # the whole array is updated afterwards (`d *= f`): what the rows hold in the end
                # the response at one frequency is computed from that frequency: no entry of a frequency-dependent vector picked at a fixed position
                fixed = []
                for base, jx in S.atoms_of(val, "idx"):
                    if isinstance(base, str) or isinstance(jx, str):
                        continue
                    axis, sel = _unwrap_axis(jx)
                    if sel is not None and not is_unknown(sel) and sel.is_const():
                        syms = _symbols(S.erase_idx(base))
                        if "freq" in syms or ("force" in syms and (axis >= 1 or axis == -1)):
                            fixed.append(f"{base!r}[{'..., ' if axis else ''}{sel!r}]")
                    elif sel is not None and not is_unknown(sel) and (_symbols(sel) & run.trace.loop_syms):
                        # a position computed from the loop counter (k - 1, k + 1, n - k): it must be the position of the column that is stored
                        syms = _symbols(S.erase_idx(base))
                        if "freq" in syms or ("force" in syms and (axis >= 1 or axis == -1)):
                            tcol = _store_column(ix)
                            if tcol is None or not _eq(tcol, sel):
                                fixed.append(f"{base!r}[{'..., ' if axis else ''}{sel!r}] for the column {tcol!r}")
                if not _refutable(ctx, run, not fixed, f"{run.label}: the displacement at each frequency is computed from that frequency", node, val):
                    continue
                ctx.check(not fixed, f"{run.label}: the displacement at each frequency is computed from that frequency and that column of the force (no fixed "
                                     "entry of a frequency vector, no fixed column of the force)", node, None if not fixed else fixed)
                V = S.erase_idx(val)
                if run.pre_eig:
                    V = MD.push_T(V)
                    if not _refutable_modal(ctx, run, False, f"{run.label}: dynamic stiffness", node, V):
                        continue
                mm = F.const(1) if m_none else m
                H = I * W * b + k - W * W * mm
                if run.family == "su-coup":
                    lam, urd, uriv = F.sym("self.pc.lam"), F.sym("self.pc.ur_d"), F.sym("self.pc.ur_inv_v")
                    # modal path: the response of mode j is (row j of ur_inv_v M^-1 F) / (i W - lambda_j), recombined with the displacement rows of ur
                    Q = V * (I * W - lam)
                    ok = Q.diff("freq").is_zero() and not Q.is_zero()      # no gcd in the algebra: d/dfreq = 0 by cross-multiplication
                    if not _refutable(ctx, run, ok and V.equals(urd * (uriv * (FORCE if m_none else F.fn("lu_solve", F.sym("self.invm"), FORCE))) / (I * W - lam)),
                                      f"{run.label}: modal response", node, V):
                        continue
                    ctx.check(ok, f"{run.label}: the only frequency dependence of the modal response is the denominator i W - lambda with W = 2 pi freq", node,
                              None if ok else {"d * (i W - lambda)": repr(Q)})
                    imf = FORCE if m_none else F.fn("lu_solve", F.sym("self.invm"), FORCE)
                    want = urd * (uriv * imf) / (I * W - lam)
                    ok = V.equals(want)
                    ctx.check(ok, f"{run.label}: d = ur_d (ur_inv_v M^-1 F / (i W - lambda))  (displacement rows of the right eigenvectors, velocity "
                                  "columns of the inverse, mass-normalised force)", node, None if ok else {"d": repr(V), "want": repr(want)})
                elif run.family == "fd-coup":
                    u = unfn(V)
                    if u is None or u[0] != "solve":
                        ctx.error(f"{run.label}: the displacement is not the solution of one linear system per frequency", node, repr(V))
                        continue
                    Hi, rhs = u[1]
                    ok = Hi.equals(H) and rhs.equals(FORCE)
                    if not _refutable(ctx, run, ok, f"{run.label}: dynamic stiffness", node, Hi, rhs):
                        continue
                    ctx.check(ok, f"{run.label}: d solves (i W b + k - W^2 m) d = F with W = 2 pi freq", node,
                              None if ok else {"matrix": repr(Hi), "want": repr(H), "rhs": repr(rhs)})
                else:
                    ok = (V * H).equals(FORCE)
                    if not _refutable(ctx, run, ok, f"{run.label}: dynamic stiffness", node, V):
                        continue
                    ctx.check(ok, f"{run.label}: d = F / (i W b + k - W^2 m) with W = 2 pi freq", node,
                              None if ok else {"F/d": repr(FORCE / V) if not V.is_zero() else "d = 0", "want": repr(H)})
            except Unsupported as e:
                ctx.error(f"{run.label}: normal form", node, str(e))
    # the two solvers agree on uncoupled equations: same per-equation formula
    for m_none in (True, False):
        a, c = _run(ctx, "su-real", m_none), _run(ctx, "fd-unc", m_none)
        ca, cc = a.cells("d", DYN), c.cells("d", DYN)
        if ca and cc and not a.problems() and not c.problems():
            ok = _eq(S.erase_idx(ca[-1][3]), S.erase_idx(cc[-1][3]))
            if not (_refutable(ctx, a, ok, f"{a.label}: per-equation formula", ca[-1][4], ca[-1][3]) and _refutable(ctx, c, ok, f"{c.label}: per-equation formula", cc[-1][4], cc[-1][3])):
                continue
            ctx.check(ok, f"SolveUnc.fsolve and FreqDirect.fsolve use the same per-equation formula on uncoupled equations (m {'None' if m_none else 'given'})",
                      ca[-1][4], None if ok else {"SolveUnc": repr(ca[-1][3]), "FreqDirect": repr(cc[-1][3])})


# ------------------------------------------------------------------------------------------------ R2
def _d_candidates(run, ix, before):
    """what `d` on the rows `ix` can be written as: the read-back d[ix], or the value last stored there"""
    d_id = run.sym("d")
    out = [d_id if ix is None else F.fn("idx", d_id, ix)]
    for c in run.cells_of("d"):
        if c[4] < before and ((c[1] is None and ix is None) or (c[1] is not None and ix is not None and not is_unknown(c[1]) and _eq(c[1], ix))):
            if not is_unknown(c[2]) and not isinstance(c[2], tuple):
                out.append(c[2])
    return out


def _symbols(v):
    out = set()

    def f(kind, name, args):
        if kind == "s":
            out.add(name)
        return NotImplemented
    S.rewrite(v, f)
    return out


def _unwrap_axis(ix):
    """ax<k>(M) -> (k, M);  axL(M) -> (-1, M) (the last axis, whichever that is);  M -> (0, M)"""
    u = unfn(ix) if ix is not None and not is_unknown(ix) else None
    if u is not None and u[0] == "axL" and len(u[1]) == 1 and not isinstance(u[1][0], str):
        return -1, u[1][0]
    if u is not None and u[0].startswith("ax") and u[0][2:].isdigit() and len(u[1]) == 1 and not isinstance(u[1][0], str):
        return int(u[0][2:]), u[1][0]
    return 0, ix


def _store_column(ix):
    """(rows, column) -> column;  anything else -> None"""
    u = unfn(ix) if ix is not None and not is_unknown(ix) else None
    if u is not None and u[0] == "tuple" and len(u[1]) == 2 and not isinstance(u[1][1], str):
        return u[1][1]
    if u is not None and u[0] in ("ax1", "axL") and len(u[1]) == 1 and not isinstance(u[1][0], str):
        return u[1][0]
    return None


def _forward(run, val, before, depth=0):
    """the value with every read-back d[X] / v[X] / a[X] replaced by what was last stored there before the clock `before`"""
    if depth > 6:
        return val

    def f(kind, name, args):
        if kind == "fn" and name == "idx" and len(args) == 2 and not isinstance(args[0], str) and not isinstance(args[1], str):
            nm = S.sym_name(args[0])
            if nm in run.ids.values():
                hit = None
                for c in run.trace.cells_of(nm):
                    if c[4] < before and c[1] is not None and not is_unknown(c[1]) and _eq(c[1], args[1]) and not is_unknown(c[2]) and not isinstance(c[2], tuple):
                        hit = c
                if hit is not None:
                    return _forward(run, hit[2], hit[4], depth + 1)
        return NotImplemented
    return S.rewrite(val, f)


def _row_selector(ix):
    """(rows, columns ...) -> rows;  anything else -> itself"""
    u = unfn(ix) if ix is not None and not is_unknown(ix) else None
    if u is not None and u[0] == "tuple" and u[1] and not isinstance(u[1][0], str) and S.sym_name(u[1][0]) != ":":
        return u[1][0]
    return ix


def _content(run, letter, ix, before=None, depth=0):
    """what the rows `ix` of a result array hold just before the clock `before` (None: when fsolve returns): the value last stored on exactly these
    rows or on the whole array, with the read-backs of d, v, a in it resolved the same way at the time of that store; a store on the whole array
    written in terms of an array (`x *= f`) is applied to what the rows of that array held"""
    if depth > 8:
        raise Unsupported("read-backs nested too deeply")
    ident = run.ids[letter]
    hit = None
    for c in run.trace.cells_of(ident):
        if before is not None and c[4] >= before:
            continue
        if c[1] is None or (ix is not None and not is_unknown(c[1]) and (_eq(c[1], ix) or _eq(_row_selector(c[1]), ix))):
            hit = c          # (the same rows, filled column by column for a generic column, are these rows)
    if hit is None:
        init = run.trace.init.get(ident)
        if _zero(init):
            return init
        return F.sym(ident) if ix is None else F.fn("idx", F.sym(ident), ix)
    if is_unknown(hit[2]) or isinstance(hit[2], tuple) or hit[2] is None:
        raise Unsupported("a stored value that is not known")
    letters = {i: x for x, i in run.ids.items()}

    def f(kind, name, args):
        if kind == "fn" and name == "idx" and len(args) == 2 and not isinstance(args[0], str) and not isinstance(args[1], str):
            nm = S.sym_name(args[0])
            if nm in letters:
                return _content(run, letters[nm], args[1], hit[4], depth + 1)
        if kind == "s" and hit[1] is None and name in letters:
            return _content(run, letters[name], ix, hit[4], depth + 1)
        return NotImplemented
    return S.rewrite(hit[2], f)


def _freq_mask(ctx, run, M, node, which):
    """the frequency selection of a rigid-body write must be `W != 0`: one obligation"""
    u = unfn(M) if M is not None and not is_unknown(M) else None
    op, x, c0 = None, None, None
    if u is not None and u[0] in ("invert", "not") and not isinstance(u[1][0], str):
        u2 = unfn(u[1][0])
        if u2 is not None and u2[0] == "cmp:Eq":
            u = ("cmp:NotEq", u2[1])
    if u is not None and u[0].startswith("cmp:") and len(u[1]) == 2 and not any(isinstance(z, str) for z in u[1]):
        a, c = u[1]
        if c.is_const():
            op, x, c0 = u[0][4:], a, c.const_value()
        elif a.is_const():
            op, x, c0 = {"Gt": "Lt", "Lt": "Gt", "GtE": "LtE", "LtE": "GtE"}.get(u[0][4:], u[0][4:]), c, a.const_value()
    if op is None:
        ctx.error(f"{run.label}: the rigid-body {which} is written under a frequency selection the rule cannot read", node, repr(M))
        return
    try:
        xe = S.erase_idx(x)
        prop = not xe.is_zero() and any((xe / (FREQ ** n)).diff("freq").is_zero() for n in (1, 2))
    except Unsupported:
        prop = False
    if not prop:
        ctx.error(f"{run.label}: the rigid-body {which} is written under a selection that is not a comparison of the frequency with a constant", node, repr(M))
        return
    ok = op == "NotEq" and c0 == 0
    _check_once(ctx, ok, f"{run.label}: the rigid-body {which} is filled at every frequency except 0 Hz (selection `W != 0`)", node,
                None if ok else {"selection": repr(M), "consequence": "frequencies that are excluded without being zero keep a zero response although a = F/m is returned there"},
                key=f"C02-R2|{run.family}|{run.m_none}|rb {which} frequency selection", tag="mask")


def r2_derivative_relations(ctx):
    _read_pre_eig(ctx)
    for fam, m_none, extra, tag in _configs():
        if True:
            run = _run(ctx, fam[0], m_none, extra, tag)
            if not _usable(ctx, run):
                continue
            tr = run.trace
            dparts = []
            for p, _, ix, val, node, clk in run.cells("d", ("RF",) + DYN):
                if not any(_eq(ix, j) for _, j in dparts):
                    dparts.append((p, ix))
            if not dparts:
                ctx.error(f"{run.label}: no displacement store on the rf / dynamic rows", run.fn)
                continue
            for which, factor, txt in (("v", I * W, "v = i W d"), ("a", -W * W, "a = -W^2 d")):
                for p, ix in dparts:
                    dclk = max(d[4] for d in run.cells_of("d") if d[1] is not None and not is_unknown(d[1]) and _eq(d[1], ix))
                    cs = [c for c in run.cells_of(which) if c[1] is not None and not is_unknown(c[1]) and _eq(c[1], ix)]
                    if not cs and not _eq(_row_selector(ix), ix):
                        # d was stored column by column (rows, column): a store on all columns of the same rows, made afterwards, covers them
                        cs = [c for c in run.cells_of(which) if c[1] is not None and not is_unknown(c[1]) and _eq(c[1], _row_selector(ix)) and c[4] > dclk]
                    if not cs:
                        # a store on the whole array after the displacement of these rows is known covers them
                        cs = [c for c in run.cells_of(which) if c[1] is None and c[4] > dclk]
                    if not cs:
                        ctx.fail(f"{run.label}: `{which}` is derived from `d` on the rows `{S.sym_name(ix) or repr(ix)}`", run.fn,
                                 f"d is stored on these rows but no store of {which} on the same rows is reached (it stays zero)",
                                 key=f"C02-R2|{run.family}|{run.m_none}|{which} missing on {p}")
                        continue
                    c = cs[-1]
                    val = c[2]
                    if is_unknown(val) or isinstance(val, tuple):
                        ctx.error(f"{run.label}: {txt}", c[3], repr(val))
                        continue
                    # (an update of a whole array made afterwards - `v *= f`, `d[:] = ...` - changes what these rows hold)
                    later = [w for w in run.cells_of(which) if w[1] is None and w[4] > c[4]] + [w for w in run.cells_of("d") if w[1] is None and w[4] > max(dclk, c[4])]
                    # (a read-back d[rows] in the value is the displacement only if it was stored before: otherwise the rows still held zeros)
                    early = not any((w[1] is None or (c[1] is not None and not is_unknown(w[1]) and (_eq(w[1], c[1]) or _eq(_row_selector(w[1]), c[1]))))
                                    and w[4] < c[4] for w in run.cells_of("d"))
                    later = later or early
                    ok = not later and any(_eq(val, factor * D) for D in _d_candidates(run, c[1], c[4]))
                    if not ok and not later:
                        # written through another stored response (a = i W v): compare with every read-back resolved
                        try:
                            d0 = run.sym("d") if c[1] is None else F.fn("idx", run.sym("d"), c[1])
                            ok = _eq(_forward(run, val, c[4]), factor * _forward(run, d0, c[4]))
                        except Unsupported:
                            ok = False
                    if not ok:
                        # what the rows of both arrays hold in the end, every store and read-back applied in order
                        try:
                            got = _content(run, which, c[1] if c[1] is not None else ix)
                            ok = _eq(got, factor * _content(run, "d", ix))
                            if later:
                                val = got
                        except Unsupported:
                            ok = False
                    at = max(later, key=lambda w: w[4])[3] if isinstance(later, list) and later and not ok else c[3]
                    if not _refutable(ctx, run, ok, f"{run.label}: {txt}", at, val):
                        continue
                    _check_once(ctx, ok, f"{run.label}: {txt} on the rows `{S.sym_name(ix) or repr(ix)}` ({'residual-flexibility' if p == 'RF' else 'dynamic'} equations), "
                                    "from the displacement stored on the same rows", at, None if ok else {which: repr(val)}, tag=which)
            if run.solver != "SolveUnc":
                continue
            # ---- rigid-body rows: the acceleration is primary; v = a / (i W), d = -a / W^2 wherever W != 0, zero at 0 Hz.
            # Decided by what the rows hold in each class of frequencies (W > 0, W < 0, W = 0; c02_world): a mask, its index form, a vector of
            # integration factors filled under the mask, np.where, an array of its own or a masked write into the result are the same thing there.
            acs = run.cells("a", ("RB",))
            if not acs or is_unknown(acs[-1][3]):
                ctx.error(f"{run.label}: rigid-body acceleration store", run.fn)
                continue
            worlds = {w: World(run, w) for w in WORLDS}
            try:
                rbix = _row_selector(acs[-1][2])
                Aw = {w: worlds[w].rows("a", rbix, None) for w in WORLDS}
                if any(len(Aw[w]) != 1 for w in WORLDS) or not all(_eq(Aw[w][0], Aw["pos"][0]) for w in WORLDS):
                    raise Unsupported("it is not one formula at every frequency: " + repr({w: [repr(x) for x in Aw[w]] for w in WORLDS}))
                Ae = Aw["pos"][0]
            except Unsupported as e:
                ctx.error(f"{run.label}: rigid-body acceleration", acs[-1][4], str(e))
                continue
            for which, want, txt in (("v", Ae / (I * W), "v = a / (i W)"), ("d", -Ae / (W * W), "d = -a / W^2")):
                cs = run.cells(which, ("RB",))
                if not cs:
                    ctx.error(f"{run.label}: rigid-body {which} store", run.fn)
                    continue
                _, _, ix, val, node, clk = cs[-1]
                for w in WORLDS:
                    worlds[w].selections = []
                try:
                    cont = {w: worlds[w].rows(which, _row_selector(ix), None) for w in WORLDS}
                except Unsupported as e:
                    ctx.error(f"{run.label}: what the rigid-body rows of {which} hold at the non-zero frequencies and at 0 Hz cannot be evaluated", node, str(e))
                    continue
                # the store(s) that carry the formula: where the obligations are reported
                fnodes = [n for _, _, _, n, is_store in worlds["pos"].selections if is_store and n is not None]
                fnode = fnodes[-1] if fnodes else node
                nz = cont["pos"] + cont["neg"]
                filled = [x for x in nz if not _zero(x)]
                if not filled:
                    _check_once(ctx, False, f"{run.label}: rigid-body {txt} (from the acceleration stored on the same rows)", node,
                                f"nothing is stored into the rigid-body rows of {which} at a non-zero frequency: they stay zero at every frequency", tag=("rb", which))
                    continue
                ok = all(_eq(x, want) for x in filled)
                if not _refutable(ctx, run, ok, f"{run.label}: rigid-body {txt}", fnode, *(filled + [Ae])):
                    continue
                _check_once(ctx, ok, f"{run.label}: rigid-body {txt} (from the acceleration stored on the same rows)", fnode,
                            None if ok else {which: [repr(x) for x in filled], "a": repr(Ae)}, tag=("rb", which))
                # filled at every non-zero frequency, not at 0 Hz
                uninit = lambda z: S.sym_name(z) == "<uninitialised memory>"      # noqa: E731
                ok = all(not _zero(x) for x in nz) and all(_zero(z) or uninit(z) for z in cont["zero"])
                if _refutable(ctx, run, ok, f"{run.label}: rigid-body {which} frequency selection", fnode, *(nz + cont["zero"])):
                    _check_once(ctx, ok, f"{run.label}: the rigid-body {which} is filled at every frequency except 0 Hz (selection `W != 0`)", fnode,
                                None if ok else {"W > 0": [repr(x) for x in cont["pos"]], "W < 0": [repr(x) for x in cont["neg"]], "W = 0": [repr(x) for x in cont["zero"]],
                                                 "consequence": "frequencies that are excluded without being zero keep a zero response although a = F/m is returned there; "
                                                                "at 0 Hz the response must stay zero"},
                                key=f"C02-R2|{run.family}|{run.m_none}|rb {which} frequency selection", tag="mask")
                # the selection restricts the frequency axis of each operand: columns of a response, entries of a frequency vector
                bad = []
                for base, ax, M, n_, is_store in list(worlds["pos"].selections):          # (a copy: evaluating the bases below meets selections again)
                    try:
                        vals = worlds["pos"].value(base, None) if not is_store else worlds["pos"].array(S.sym_name(base), None) \
                            if S.sym_name(base) not in run.ids.values() else None
                        freq_only = vals is not None and all(_symbols(x) <= {"freq", "pi", "I"} for x in vals) and not all(_zero(x) for x in vals)
                    except Unsupported:
                        continue
                    if ax != -1 and (ax == 0) != freq_only:
                        bad.append(f"`{base!r}` is restricted along axis {ax}")
                if _refutable(ctx, run, not bad, f"{run.label}: rigid-body {which} write", fnode, val):
                    _check_once(ctx, not bad, f"{run.label}: the rigid-body {which} write is restricted to the non-zero frequencies on both sides (columns of the response, "
                                              "entries of the frequency vector)", fnode, None if not bad else sorted(set(bad)), tag=("rbaxis", which))
                ok = all(_zero(z) for z in cont["zero"])
                if _refutable(ctx, run, ok, f"{run.label}: rigid-body {which} at 0 Hz", node, *cont["zero"]):
                    ctx.check(ok, f"{run.label}: the rigid-body {which} starts as zeros, so the 0 Hz entries stay zero", node, None if ok else [repr(z) for z in cont["zero"]])
    _returned_solution(ctx)


def _returned_solution(ctx):
    """what fsolve hands back: the namespace built by _solution_freq from the arrays handed to it (transformed by phi under pre_eig).  Which
    arrays of the evaluated path are `the` d, v, a is read from this chain (`_result_arrays`); the derivative relations above are then
    statements about the fields of the returned solution."""
    sf = ctx.src.func(O.BASE, "_BaseODE._solution_freq")
    params = [a.arg for a in sf.args.args if a.arg != "self"]
    for pre in (False, True):
        fields = _solution_fields(ctx, sf, pre)
        node = ctx.__dict__["_c02_fields"].get((id(sf), pre))
        node = node[1] if node else sf
        if not fields or not all(x in fields for x in ("d", "v", "a", "f")) or len(params) != 4 or any(is_unknown(v) or isinstance(v, tuple) for v in fields.values()):
            ctx.error(f"_solution_freq (pre_eig {pre}): fields d, v, a, f of the returned namespace", node, repr(fields))
            continue
        phi = F.sym("self.phi")
        # each field is (the transform of) a distinct parameter, the frequency field is the last parameter
        srcs = []
        for x in "dva":
            v = fields[x]
            hit = [p_ for p_ in params if _eq(v, (phi * F.sym(p_)) if pre else F.sym(p_))]
            srcs.append(hit[0] if len(hit) == 1 else None)
        ok = None not in srcs and len(set(srcs)) == 3 and srcs == params[:3] and _eq(fields["f"], F.sym(params[3]))
        ctx.check(ok, f"_solution_freq ({'pre_eig: each response is transformed back by phi' if pre else 'no pre_eig'}): the fields d, v, a, f of the solution "
                      "are its first, second, third and fourth argument", node, None if ok else {k: repr(v) for k, v in fields.items()})
    for famkey, solver in (("su-real", "SolveUnc"), ("fd-unc", "FreqDirect")):
        run = _run(ctx, famkey, False)
        if run.problems():
            continue
        ids = run.ids
        inits = [run.trace.init.get(ids[x]) for x in "dva"]
        ok = len(set(ids.values())) == 3 and all(_starts_zero(run.trace, ids[x]) for x in "dva")
        ctx.check(ok, f"{solver}.fsolve: the fields d, v, a of the returned solution are three distinct arrays that start as zeros (rows no rule above fills stay zero)",
                  run.fn, None if ok else {"arrays": ids, "created from": [repr(v) for v in inits]})


# ------------------------------------------------------------------------------------------------ R3
_LETTERS = ("d", "v", "a")


def _incrb_table(present):
    t = {f'"{x}" in incrb': (x in present) for x in _LETTERS}
    t["incrb"] = bool(present)
    return t


def _rb_state(run, letter, parts=("RB", "K", "ALL")):
    """what the configuration leaves in the rigid-body rows (or the rows of the partitions `parts`) of one result array:
    ('filled' | 'zero' | 'untouched' | 'unknown', node).
    The rb rows are also part of the non-rf rows: a later store on those (FreqDirect solves all non-rf equations at once) fills them.  A store on
    the whole array that is written in terms of the array itself (`x *= f`, `x[:] = g(x)`) is applied to what the rows held before."""
    state, at = "untouched", None
    me = run.sym(letter)
    for p, _, ix, val, node, clk in run.cells(letter, parts):
        if is_unknown(val) or isinstance(val, tuple) or val is None:
            state, at = "unknown", node
            continue
        try:
            if p == "ALL" and S.sym_name(me) in _symbols(val):
                if state == "unknown":
                    at = node
                    continue
                if _eq(val, me):
                    continue                      # x[:] = x, x += 0: nothing changes
                before = F.const(0) if state in ("zero", "untouched") else F.sym("<what the rows held>")
                val = S.rewrite(val, lambda kind, name, args: before if kind == "s" and name == S.sym_name(me) else NotImplemented)
        except Unsupported:
            state, at = "unknown", node
            continue
        state, at = ("zero" if _zero(val) else "filled"), node
    return state, at


def _state_is(ctx, run, states, want, text, node, key=None):
    """one obligation on the state(s) of rigid-body rows; a state that could not be determined is an analysis error, never a verdict"""
    if any(st == "unknown" for _, st in states):
        ctx.error(f"{text}: what the rows hold could not be determined", node, states)
        return
    ok = all(st in want for _, st in states)
    ctx.check(ok, text, node, None if ok else (states[0][1] if len(states) == 1 else [list(x) for x in states]), key=key)


def r3_option_gating(ctx):
    for famkey in ("su-real", "su-cplx", "su-coup", "fd-unc", "fd-coup"):
        allin = _run(ctx, famkey, False)
        if not _usable(ctx, allin):
            continue
        for x in _LETTERS:
            st, node = _rb_state(allin, x)
            _state_is(ctx, allin, [(x, st)], ("filled",), f"{allin.label}: with `{x}` in incrb the rigid-body rows of {x} hold the computed response", node or allin.fn,
                      key=f"C02-R3|{famkey}|{x} in incrb")
        for x in _LETTERS:
            present = tuple(y for y in _LETTERS if y != x)
            run = _run(ctx, famkey, False, _incrb_table(present), tag=f"incrb = '{''.join(present)}'")
            if not _usable(ctx, run):
                continue
            st, node = _rb_state(run, x)
            _state_is(ctx, run, [(x, st)], ("zero", "untouched"), f"{run.label}: without `{x}` in incrb the rigid-body rows of {x} are zero", node or run.fn,
                      key=f"C02-R3|{famkey}|{x} not in incrb")
            others = [(y, _rb_state(run, y)[0]) for y in present]
            _state_is(ctx, run, others, ("filled",), f"{run.label}: leaving `{x}` out of incrb does not remove the rigid-body rows of the other responses", run.fn,
                      key=f"C02-R3|{famkey}|{x} not in incrb: others")
        run = _run(ctx, famkey, False, _incrb_table(()), tag="incrb = ''")
        if _usable(ctx, run):
            sts = [(x, _rb_state(run, x)[0]) for x in _LETTERS]
            _state_is(ctx, run, sts, ("zero", "untouched"), f"{run.label}: with an empty incrb no rigid-body response is returned", run.fn, key=f"C02-R3|{famkey}|empty incrb")
        # residual-flexibility rows: d always (static solution); v and a only without rf_disp_only
        run = _run(ctx, famkey, False, {"rf_disp_only": True}, tag="rf_disp_only")
        RFP = ("RF", "ALL")
        if _usable(ctx, run):
            st, node = _rb_state(run, "d", RFP)
            _state_is(ctx, run, [("d", st)], ("filled",), f"{run.label}: the static rf displacement is computed regardless of rf_disp_only", node or run.fn)
            sts = [(x,) + _rb_state(run, x, RFP) for x in ("v", "a")]
            at = next((n for _, s_, n in sts if s_ not in ("zero", "untouched") and n is not None), run.fn)
            _state_is(ctx, run, [(x, s_) for x, s_, _ in sts], ("zero", "untouched"), f"{run.label}: with rf_disp_only the rf rows of v and a stay zero", at,
                      key=f"C02-R3|{famkey}|rf_disp_only")
        for x in ("v", "a"):
            st, node = _rb_state(allin, x, RFP)
            _state_is(ctx, allin, [(x, st)], ("filled",), f"{allin.label}: without rf_disp_only the rf rows of {x} are derived from the static displacement",
                      node or allin.fn, key=f"C02-R3|{famkey}|rf {x}")
    # the option string reaches the solvers unchanged
    # (every test the function makes on the string is taken both ways; a combination that ends in a `raise` hands nothing on)
    fn = ctx.src.func(UTIL, "_process_incrb")
    cfg = {"isinstance(incrb, str)": True, "type(incrb) is str": True}
    try:
        found = S.explore(ctx, fn, cfg, S.Opts())
    except Unsupported as e:
        ctx.error("_process_incrb: string form", fn, str(e))
        return
    alive = [(dec, tr) for dec, tr, _ in found if not tr.raised]
    hard = [ast.unparse(t) if not isinstance(t, ast.stmt) else type(t).__name__ for _, tr in alive for t, f in tr.undecided]
    hard += [msg for _, tr in alive for _, msg in _untraced(tr, "_process_incrb")]
    rets = [(tr.returns.get(fn.name) or [None])[-1] for _, tr in alive]
    if hard or not alive or any(r is None or is_unknown(r) or isinstance(r, tuple) for r in rets):
        ctx.error("_process_incrb: string form", fn, hard or [repr(r) for r in rets])
    else:
        bad = [r for r in rets if not _eq(r, F.sym("incrb"))]
        ctx.check(not bad, "_process_incrb: the string form of incrb is handed on unchanged", fn, None if not bad else repr(bad[0]))


# ------------------------------------------------------------------------------------------------ R4
def r4_partition_typing(ctx):
    n = 0
    skipped = 0
    for fam in _families():
        for m_none in (True, False):
            run = _run(ctx, fam[0], m_none)
            if not _usable(ctx, run):
                skipped += 1
                continue
            T = ValueTyper(run.typer.table, run.trace, run.label)
            for ident, ix, val, node, clk in run.trace.cells:
                T.check_cell(ident, ix, val, node)
            for kind, ok, text, detail, node in T.checks:
                n += 1
                _check_once(ctx, ok, f"{run.label}: {kind}: `{text}` index / operand spaces agree", node, detail,
                            key=f"C02-R4|{run.family}|{'m None' if m_none else 'm given'}|{kind}|{text[:90]}", tag=(kind, text))
    if not skipped:      # (a configuration that cannot be evaluated was reported as an analysis error above: no count to compare)
        ctx.check(n >= 30, f"partition typing bound to {n} operations on the evaluated frequency-domain paths", O.UNC + ":1", nontrivial=False)


# ------------------------------------------------------------------------------------------------ R5
DRM = F.sym("<drm>")           # the generic entry of drmlist


def _drm_truth(v, present):
    """`<k-th matrix of the generic drmlist entry> is (not) None`, by the set of positions that are present"""
    u = unfn(v) if v is not None and not is_unknown(v) and not isinstance(v, tuple) else None
    if u is not None and u[0] in ("cmp:Is", "cmp:IsNot", "cmp:Eq", "cmp:NotEq") and len(u[1]) == 2 and not any(isinstance(a, str) for a in u[1]):
        for x, y in (u[1], u[1][::-1]):
            if S.sym_name(y) == "None":
                ux = unfn(x)
                if ux is not None and ux[0] == "idx" and _eq(ux[1][0], DRM) and ux[1][1].is_const():
                    there = int(ux[1][1].const_value()) in present
                    return (not there) if u[0] in ("cmp:Is", "cmp:Eq") else there
    return None


class _PsdConfig(S.Config):
    """solvepsd for generic data: which of the four recovery matrices of the generic drmlist entry are present; uncertainty factors of 1"""

    def __init__(self, present):
        super().__init__({"rbduf != 1.0": False, "elduf != 1.0": False})
        self.present = set(present)

    def truth(self, v):
        r = _drm_truth(v, self.present)
        if r is not None:
            return r
        u = unfn(v) if v is not None and not is_unknown(v) and not isinstance(v, tuple) else None
        if u is not None and u[0] in ("call:.any", "call:np.any") and len(u[1]) == 1:
            return True          # the generic force has a PSD and a shape that do not vanish identically
        return super().truth(v)


class _PsdFork(S._ForkConfig):
    """all four matrices present; every other test (uncertainty factors, vanishing inputs, ...) is taken both ways"""

    def truth(self, v):
        r = _drm_truth(v, {0, 1, 2, 3})
        if r is not None:
            return r
        return super().truth(v)


def _psd_opts(psd_id=None, pp=None):
    """the generic entry of drmlist is DRM however it is reached (loop target, enumerate, drmlist[j]); for the area formula the generic
    entry of the psd list is the symbolic 4-point row `pp`.  Loads of the psd list are noted with their index."""
    def elem(itv, counter=None):
        n = S.sym_name(itv)
        if n == "drmlist":
            return DRM
        if psd_id is not None and n == psd_id:
            return pp
        return NotImplemented

    def load(ev, base, ix):
        n = S.sym_name(base) if not isinstance(base, tuple) else None
        if ix is not None and n == "drmlist":
            return DRM
        if ix is not None and psd_id is not None and n == psd_id:
            ev.trace.notes.append(("psd-load", ix, ev.trace.tick()))
            return pp
        return NotImplemented

    def atleast(ev, node):
        if len(node.args) > 1 and not node.keywords:
            return tuple(ev.ev(a) for a in node.args)
        return NotImplemented
    models = {"np.atleast_2d": atleast, "np.atleast_1d": atleast}
    if pp is not None:
        # the area run on the finite grid: vectors built from the grid are held entry by entry (hand-written quadrature weights are values)
        models.update(MD.vector_models())
    opts = S.Opts(models=models, elem_hook=elem, load_hook=load, vectors=pp is not None)
    opts.vector_readers = {"fsolve"}          # (the solvers do not write the force / frequency arrays they are handed)
    return opts


def _psd_run(ctx, fn, present, env=None, opts=None):
    """solvepsd evaluated with the given recovery matrices present and unit uncertainty factors; a test on the shapes of the data that the
    configuration leaves open (an argument check that is more than a bare `raise`) is taken both ways and the combinations that end in the
    exception are dropped.  Returns the traces of the combinations that return (one, unless the function tests something else)"""
    pres = set(present)

    class _Cfg(S._ForkConfig):
        def truth(self, v):
            r = _drm_truth(v, pres)
            if r is not None:
                return r
            u = unfn(v) if v is not None and not is_unknown(v) and not isinstance(v, tuple) else None
            if u is not None and u[0] in ("call:.any", "call:np.any") and len(u[1]) == 1:
                return True          # the generic force has a PSD and a shape that do not vanish identically
            return super().truth(v)
    try:
        found = S.explore(ctx, fn, {"rbduf != 1.0": False, "elduf != 1.0": False}, opts or _psd_opts(), limit=8, cfg_cls=_Cfg, env=env)
    except Unsupported:
        found = []
    alive = [tr for _, tr, _ in found if not tr.raised]
    if alive:
        return alive
    ev = S.PathEval(fn, ctx, _PsdConfig(present), opts or _psd_opts(), env=env)
    ev.run(fn.body)
    return [ev.trace]


def _psd_paths(ctx, fn):
    cache = ctx.__dict__.setdefault("_c02_psd_paths", {})
    if id(fn) not in cache:
        found = list(S.enumerate_paths(ctx, fn, {}, _psd_opts(), cfg_cls=_PsdFork))
        cache[id(fn)] = [(dec, tr) for dec, tr in found if not tr.raised] or found      # (a path that ends in an exception returns nothing)
    return cache[id(fn)]


def _psd_untraced(ctx, paths):
    """solvepsd: a write the evaluated paths may make that is not in their trace, a statement that is not lowered: no verdict (analysis error)"""
    if _crashes(ctx, [tr for _, tr in paths], "solvepsd"):
        return True
    seen, bad = set(), []
    for _, tr in paths:
        bad.extend(_untraced(tr, "solvepsd", seen))
        for t, f in tr.undecided:
            if id(t) not in seen:
                seen.add(id(t))
                bad.append((t, f"solvepsd: a `{type(t).__name__.lower()}` statement in {f} is not lowered" if isinstance(t, ast.stmt) else
                            f"solvepsd: the test `{ast.unparse(t)}` in {f} cannot be evaluated"))
    for node, msg in bad:
        ctx.error(msg, node)
    return bool(bad)


def _psd_ids(trace, fn):
    """what solvepsd returns: (value of the rms list, identity of the psd list).  The psd list is accumulated into entry by entry, so it is an
    array of the trace; the rms list may be one as well (filled in a loop) or be built in one expression (its generic entry is its value)"""
    rets = trace.returns.get(fn.name) or []
    if not rets or not isinstance(rets[-1], tuple) or len(rets[-1]) != 2 or S.sym_name(rets[-1][1]) not in trace.idents:
        return None, None
    return rets[-1][0], S.sym_name(rets[-1][1])


def _last_axis_is_columns(v):
    """solvepsd's operands (t_frc, drmf, the FRFs) are rows x columns arrays: a selector on their last axis is one on axis 1"""
    if v is None or is_unknown(v) or isinstance(v, tuple):
        return v
    try:
        return S.rewrite(v, lambda kind, name, args: F.fn("ax1", args[0]) if kind == "fn" and name == "axL" and len(args) == 1 and not isinstance(args[0], str)
                         else NotImplemented)
    except Unsupported:
        return v


def _psd_increment(trace, pid, fn):
    """the increment of psd[j] in the generic (force, entry) iteration: (increment, index, node) or (None, None, node)"""
    cs = trace.cells_of(pid)
    if len(cs) != 1 or is_unknown(cs[0][2]) or isinstance(cs[0][2], tuple) or cs[0][1] is None or is_unknown(cs[0][1]):
        return None, None, (cs[0][3] if cs else fn)
    c = cs[0]
    return _last_axis_is_columns(need(c[2]) - F.fn("idx", F.sym(pid), c[1])), c[1], c[3]


def _psd_foreign(fn, trace, *values):
    """atoms of a solvepsd formula the rule has no meaning for: names that are not parameters of the function, arrays / counters of the trace or
    the symbols of the generic grid; calls other than the solver's fsolve"""
    params = {a.arg for a in fn.args.posonlyargs + fn.args.args + fn.args.kwonlyargs} | {fn.args.kwarg.arg if fn.args.kwarg else "kwargs"}
    out = set()

    def f(kind, name, args):
        if kind == "s":
            root = name.split(".")[0]
            if name in _KNOWN_SYMS or name in trace.idents or name[:1] in "'\"<" or root in params or (len(name) == 2 and name[0] in "fp" and name[1].isdigit()):
                return NotImplemented
            out.add(name)
        elif kind == "fn":
            if not (name in _KNOWN_FNS or name.startswith(("cmp:", "ax", "attr:", "kw:", "bool:")) or name.endswith("fsolve")):
                out.add(name + "(...)")
        return NotImplemented
    for v in values:
        if v is None or is_unknown(v) or isinstance(v, tuple):
            continue
        try:
            S.rewrite(v, f)
        except Unsupported:
            out.add("<a term the algebra cannot walk>")
    return sorted(out)


def r5_solvepsd(ctx):
    fn = ctx.src.func(UTIL, "solvepsd")
    paths = _psd_paths(ctx, fn)
    if _psd_untraced(ctx, paths):
        return
    psd_id = _psd_ids(paths[0][1], fn)[1]
    if psd_id is None:
        ctx.error("solvepsd: returns (rms, psd), the psd list being filled per recovery entry", fn)
        return
    acc_paths = [(dec, tr) for dec, tr in paths if _psd_ids(tr, fn)[1] and tr.cells_of(_psd_ids(tr, fn)[1])]
    if not acc_paths:
        ctx.error("solvepsd: no path reaches an accumulation into the psd list", fn)
        return
    names = ("drma @ sol.a", "drmv @ sol.v", "drmd @ sol.d", "drmf[:, i]")
    state = {}

    def expected(trace, present):
        """(force counter, fsolve call node, expected increment) for one evaluated path; raises Unsupported with the reason"""
        calls = [c for c in trace.calls if c[0].endswith(".fsolve") or c[0] == "fsolve"]
        if len(calls) != 1 or len(calls[0][1]) < 2:
            raise Unsupported("one call of the solver's fsolve per force")
        gen, fq = _last_axis_is_columns(calls[0][1][0]), calls[0][1][1]
        fi = None
        for s_ in sorted(trace.loop_syms):
            if _eq(gen, F.fn("idx", F.sym("t_frc"), F.fn("ax1", F.sym(s_)))):
                fi = F.sym(s_)
        sol = trace.call_values.get(id(calls[0][3]))
        if sol is None or is_unknown(sol) or isinstance(sol, tuple):
            raise Unsupported("value of the fsolve call")
        state["unit"] = (fi is not None and _eq(fq, FREQ), calls[0][3], {"force": repr(gen), "freq": repr(fq)})
        if fi is None:
            raise Unsupported("unit force")
        A, V, D = (F.fn("attr:" + x, sol) for x in "avd")
        terms = [F.fn("idx", DRM, F.const(0)) * A, F.fn("idx", DRM, F.const(1)) * V, F.fn("idx", DRM, F.const(2)) * D,
                 F.fn("idx", F.fn("idx", DRM, F.const(3)), F.fn("ax1", fi))]
        frf = F.const(0)
        for j in present:
            frf = frf + terms[j]
        return fi, calls[0][3], F.fn("idx", F.sym("forcepsd"), fi) * F.fn("abs", frf) ** 2

    bad = None
    nodes = None
    for dec, tr in acc_paths:
        pid = _psd_ids(tr, fn)[1]
        inc, ix, node = _psd_increment(tr, pid, fn)
        try:
            fi, cnode, want = expected(tr, (0, 1, 2, 3))
        except Unsupported as e:
            if "unit" in state and not state["unit"][0]:
                break
            ctx.error(f"solvepsd: {e}", node)
            return
        if inc is None:
            ctx.error("solvepsd: one accumulation into psd[j] per (force, recovery entry)", node)
            return
        nodes = (node, ix, fi)
        if not _eq(inc, want) and bad is None:
            odd = _psd_foreign(fn, tr, inc)
            if odd:
                ctx.error(f"solvepsd: the accumulated term contains {', '.join('`' + b + '`' for b in odd)}, which the rule cannot interpret", node, repr(inc))
                return
            bad = {"increment": repr(inc), "want": repr(want), "path": [f"{v!r} is {b}" for v, b in dec]}
    ok, unode, detail = state.get("unit", (False, fn, None))
    if not ok and "unit" in state:
        calls = [c for c in acc_paths[0][1].calls if c[0].endswith(".fsolve") or c[0] == "fsolve"]
        odd = _psd_foreign(fn, acc_paths[0][1], *(calls[0][1][:2] if calls else []))
        if odd:
            ctx.error(f"solvepsd: the arguments of fsolve contain {', '.join('`' + b + '`' for b in odd)}, which the rule cannot interpret", unode, detail)
            return
    ctx.check(ok, "solvepsd: one unit-amplitude FRF per force: fsolve(t_frc[:, i] at every frequency, freq)", unode, None if ok else detail)
    if not ok or nodes is None:
        return
    node, ix, fi = nodes
    ctx.check(bad is None, f"solvepsd: psd[j] accumulates forcepsd[i] * |drma a + drmv v + drmd d + drmf[:, i]|^2 over the forces on each of the {len(acc_paths)} "
                           "evaluated paths (tuple position matches solution attribute, the direct term and the PSD belong to the same force)", node, bad)
    ok = not (_symbols(ix) & _symbols(fi))
    ctx.check(ok, "solvepsd: the list entry accumulated into is selected by the recovery entry, not by the force", node, None if ok else repr(ix))
    # ---- a recovery matrix that is None drops exactly its own term
    for k in range(4):
        present = tuple(j for j in range(4) if j != k)
        verdict = None          # (ok, node, detail) over every combination that returns; an unreadable one -> analysis error
        for t2 in _psd_run(ctx, fn, present):
            pid = _psd_ids(t2, fn)[1]
            inc2, _, node2 = _psd_increment(t2, pid, fn) if pid else (None, None, fn)
            try:
                if inc2 is None or t2.undecided:
                    raise Unsupported("accumulation" if inc2 is None or not t2.undecided else
                                      "the test `%s` cannot be decided" % (ast.unparse(t2.undecided[0][0]) if not isinstance(t2.undecided[0][0], ast.stmt) else type(t2.undecided[0][0]).__name__))
                _, _, want2 = expected(t2, present)
            except Unsupported as e:
                ctx.error(f"solvepsd: accumulation when entry {k} of a drmlist tuple is None ({e})", node2)
                verdict = "error"
                break
            ok = _eq(inc2, want2)
            if not ok and _psd_foreign(fn, t2, inc2):
                ctx.error(f"solvepsd: accumulation when entry {k} of a drmlist tuple is None: the term contains atoms the rule cannot interpret", node2, repr(inc2))
                verdict = "error"
                break
            if verdict is None or not ok:
                verdict = (ok, node2, None if ok else {"increment": repr(inc2), "want": repr(want2)})
        if verdict is not None and verdict != "error":
            ctx.check(verdict[0], f"solvepsd: a None in position {k} of a drmlist entry drops exactly the term `{names[k]}`", verdict[1], verdict[2])
    # ---- rms^2 = trapezoidal area of the PSD over the frequency vector: evaluated on a generic 4-point grid (symbolic f0..f3, p0..p3)
    NF = 4
    fr = tuple(F.sym(f"f{i}") for i in range(NF))
    pp = tuple(F.sym(f"p{i}") for i in range(NF))
    t3s = _psd_run(ctx, fn, (0, 1, 2, 3), env={"freq": fr}, opts=_psd_opts(psd_id, pp))
    if any(t.undecided for t in t3s):
        ctx.error("solvepsd: rms formula: the function tests something the rule cannot decide on the way to it", fn,
                  [ast.unparse(t) if not isinstance(t, ast.stmt) else type(t).__name__ for tr in t3s for t, _ in tr.undecided][:4])
        return
    # (several combinations of open tests return: the one judged is the one with the fewest stores; the others must return the same value)
    t3 = min(t3s, key=lambda t: len(t.cells))
    sig = lambda t: (_vk(_psd_ids(t, fn)[0]), [(_vk(c[1]), _vk(c[2])) for c in t.cells if c[0] == S.sym_name(_psd_ids(t, fn)[0])])      # noqa: E731
    if any(sig(t) != sig(t3) for t in t3s):
        ctx.error("solvepsd: rms formula: it depends on a test the rule cannot decide", fn)
        return
    rv = _psd_ids(t3, fn)[0]
    if isinstance(rv, tuple) and len(rv) == 1:
        rv = rv[0]                         # a list built by appending in the loop over the psd list: its generic entry
    rid = S.sym_name(rv) if rv is not None and not is_unknown(rv) and not isinstance(rv, tuple) else None
    if rid is not None and rid in t3.idents:
        cs = t3.cells_of(rid)             # a list filled entry by entry: (identity, index, value, node, clock)
    elif rv is not None and not is_unknown(rv) and not isinstance(rv, tuple):
        # a list built in one expression over the entries of the psd list: its generic entry
        cs = [(None, None, rv, (t3.ret_nodes.get(fn.name) or [fn])[-1], 0)]
    else:
        cs = []
    if not cs or is_unknown(cs[-1][2]) or isinstance(cs[-1][2], tuple):
        ctx.error("solvepsd: rms formula", cs[-1][3] if cs else fn, repr(cs[-1][2]) if cs else repr(rv))
        return
    val = need(cs[-1][2])
    want = F.const(0)
    for i in range(NF - 1):
        want = want + (fr[i + 1] - fr[i]) * (pp[i] + pp[i + 1]) / 2
    try:
        ok = (val * val).equals(want)
        detail = None if ok else {"rms^2": repr(val * val), "trapezoid": repr(want)}
        if not ok:
            # a quadrature written by hand is a weight per grid point: the weights it uses next to those of the trapezoid rule
            # (w_0 = d_0/2, w_i = (d_(i-1) + d_i)/2, w_last = d_last/2 with d = diff(freq))
            try:
                ws = [(val * val).diff(f"p{i}") for i in range(NF)]
                if not any(_symbols(w) & {f"p{i}" for i in range(NF)} for w in ws):
                    tw = MD.trapezoid_weights(NF)
                    detail = {"weights of p0..p3": [repr(w) for w in ws], "trapezoid weights": [repr(w) for w in tw],
                              "differ at": [f"p{i}" for i in range(NF) if not _eq(ws[i], tw[i])]}
            except Unsupported:
                pass
    except Unsupported as e:
        ok, detail = False, str(e)
    if not ok and _psd_foreign(fn, t3, val):
        ctx.error("solvepsd: rms formula: it contains atoms the rule cannot interpret", cs[-1][3], repr(val))
        return
    ctx.check(ok, "solvepsd: rms^2 = sum_k (f_{k+1} - f_k)(p_k + p_{k+1})/2 on a generic non-uniform grid (trapezoidal area)", cs[-1][3], detail)
    # the area stored in rms[j] is that of psd[j]
    last_store = max((c[4] for c in t3.cells_of(psd_id)), default=0)
    loads = [n[1] for n in t3.notes if n[0] == "psd-load" and n[2] > last_store and not is_unknown(n[1])]
    rix = cs[-1][1]
    if loads and rix is not None and not is_unknown(rix):
        ok = all(_eq(l, rix) for l in loads)
        ctx.check(ok, "solvepsd: rms[j] is the area of psd[j] (same list position)", cs[-1][3], None if ok else {"rms index": repr(rix), "psd indices": [repr(l) for l in loads]})
    elif ok and not loads and (rix is None or S.sym_name(rix) in t3.loop_syms):
        # the area above is that of the generic entry of the psd list, taken in list order (a comprehension / a loop over the list itself): the
        # positions agree by construction
        ctx.ok("solvepsd: rms[j] is the area of psd[j] (same list position)", cs[-1][3])


# ------------------------------------------------------------------------------------------------ R6
PARTITION_NAMES = {"rb", "el", "rf", "kdof", "nonrf", "_rb", "_el"}


def r6_paired_advanced_indices(ctx):
    """A partition vector is an index *array* whenever the partitions are interleaved (self.slices False).  Two array-valued
    index elements in one subscript are paired element-wise by numpy instead of selecting the rows x columns grid, so such a
    subscript is only valid through np.ix_ or under a `self.slices` guard."""
    n = 0
    for rel in (O.BASE, O.UNC, O.FD, O.SE2, O.NM):
        m = ctx.src.mod(rel)
        for q, fn in sorted(m.funcs.items()):
            # local names bound to partition vectors / boolean masks
            part, mask = set(), set()
            for st in ast.walk(fn):
                if isinstance(st, ast.Assign) and len(st.targets) == 1 and isinstance(st.targets[0], ast.Name):
                    v = st.value
                    d = dotted(v)
                    if d and d.startswith("self.") and d[5:] in PARTITION_NAMES:
                        part.add(st.targets[0].id)
                    if isinstance(v, ast.Compare):
                        mask.add(st.targets[0].id)
            for sub in ast.walk(fn):
                if not (isinstance(sub, ast.Subscript) and isinstance(sub.slice, ast.Tuple)):
                    continue
                kinds = []
                for e in sub.slice.elts:
                    d = dotted(e)
                    if d and ((d.startswith("self.") and d[5:] in PARTITION_NAMES) or d in part):
                        kinds.append("P")
                    elif d and d in mask:
                        kinds.append("M")
                    else:
                        kinds.append("-")
                if kinds.count("P") + kinds.count("M") < 2:
                    continue
                n += 1
                guarded = False
                flags = {"self.slices"} | {st.targets[0].id for st in ast.walk(fn) if isinstance(st, ast.Assign) and len(st.targets) == 1
                                          and isinstance(st.targets[0], ast.Name) and dotted(st.value) == "self.slices"
                                          and sum(1 for z in ast.walk(fn) if isinstance(z, ast.Name) and isinstance(z.ctx, ast.Store) and z.id == st.targets[0].id) == 1}
                for a in ancestors(sub):
                    if not isinstance(a, (ast.If, ast.IfExp)):
                        continue
                    t, neg = a.test, False
                    while isinstance(t, ast.UnaryOp) and isinstance(t.op, ast.Not):
                        t, neg = t.operand, not neg
                    if dotted(t) not in flags:
                        continue
                    arm = a.orelse if neg else a.body          # the arm that is taken when the partitions are slices
                    arm = arm if isinstance(arm, list) else [arm]
                    if any(sub is y for x in arm for y in ast.walk(x)):
                        guarded = True
                ctx.check(guarded, f"{q}: `{ast.unparse(sub)}` combines two array-valued indices only where the partitions are known to be slices", sub,
                          None if guarded else "a partition vector is an index array when rb/el/rf modes are interleaved; numpy then pairs the two index "
                                               "arrays element-wise (shape-mismatch ValueError, or silently the wrong elements): use np.ix_ or index in two steps; "
                                               "witness: SolveUnc(m, b, k=[0, 5e3, 0, 8e4]).fsolve(F, freq) raises",
                          key=f"C02-R6|{q}|{ast.unparse(sub)}")
    ctx.check(n >= 1, f"paired-index rule bound to {n} subscripts", O.UNC + ":1", nontrivial=False)


# ------------------------------------------------------------------------------------------------ R7
def r7_every_force_counts(ctx):
    """solvepsd: the response PSD is the sum over ALL forces of PSD_i |H_i|^2, and H_i contains a direct term (drmf[:, i]) that does not pass
    through the equations of motion.  Hence no force may be skipped on the grounds that it does not load the equations.  The function is
    evaluated once per combination of the tests it makes on its data; a combination in which the generic (force, recovery entry) iteration
    does not reach the accumulation is admissible only if flipping one test on the force PSD alone (same decisions before it) reaches it -
    i.e. the iteration was left because that PSD vanishes."""
    fn = ctx.src.func(UTIL, "solvepsd")
    paths = _psd_paths(ctx, fn)
    if _psd_untraced(ctx, paths):
        return
    info = []
    for dec, tr in paths:
        pid = _psd_ids(tr, fn)[1]
        if pid is None:
            ctx.error("solvepsd: returns (rms, psd)", fn)
            return
        info.append((dec, bool(tr.cells_of(pid)), tr))
    n_acc = sum(1 for _, a, _ in info if a)
    if not n_acc:
        ctx.error("solvepsd: no evaluated path reaches the accumulation into the psd list", fn)
        return

    def psd_only(v, tr):
        syms = _symbols(v) - tr.loop_syms - {"None", "pi", "I"}
        return bool(syms) and syms <= {"forcepsd"}

    bad = []
    for dec, acc, tr in info:
        if acc:
            continue
        excused = False
        for k, (v, b) in enumerate(dec):
            if not psd_only(v, tr):
                continue
            pre = [(S.vkey(x), y) for x, y in dec[:k]]
            for dec2, acc2, _ in info:
                if acc2 and len(dec2) > k and [(S.vkey(x), y) for x, y in dec2[:k]] == pre and S.vkey(dec2[k][0]) == S.vkey(v) and dec2[k][1] != b:
                    excused = True
        if not excused:
            culprit = [f"{v!r} is {b}" for v, b in dec if not psd_only(v, tr)]
            bad.append((dec, culprit))
    for dec, culprit in bad[:1]:
        ctx.fail("solvepsd: every force contributes PSD_i |H_i|^2, including its direct term drmf[:, i]", fn,
                 {"skipped when": culprit, "consequence": "a force whose t_frc column is zero still reaches the response through drmf"},
                 key="C02-R7|solvepsd|a force is skipped for a reason other than a vanishing PSD")
    if not bad:
        ctx.ok(f"solvepsd: every force contributes PSD_i |H_i|^2 - on each of the {len(info)} evaluated combinations of tests the generic iteration reaches the "
               "accumulation, except where the force PSD itself vanishes", fn)
    ctx.ok(f"solvepsd: the accumulation into the psd list is reached on {n_acc} of {len(info)} evaluated paths", fn, nontrivial=False)


# ------------------------------------------------------------------------------------------------ R8
def _state_closure(mods, start):
    """the `self.<attr>` names the given solver-state attributes are computed from: their assignments in the class and its base are followed
    through attributes and methods (state is set up in __init__, which the evaluated entry point does not run)"""
    seen, names = set(), set(start)
    work = []

    def assigned(d):
        for mod in mods:
            for q, f in mod.funcs.items():
                for st in ast.walk(f):
                    if isinstance(st, ast.Assign) and any(dotted(t) == d for t in st.targets) and id(st) not in seen:
                        seen.add(id(st))
                        work.append(st.value)
    for d in start:
        assigned(d)
    for _ in range(6):
        cur, work[:] = list(work), []
        for e in cur:
            for x in ast.walk(e):
                d = dotted(x) if isinstance(x, ast.Attribute) else None
                if d and d.startswith("self."):
                    names.add(d)
                    assigned(d)
                if isinstance(x, ast.Call) and (dotted(x.func) or "").startswith("self."):
                    for mod in mods:
                        for cls in ("FreqDirect", "_BaseODE"):
                            f = mod.funcs.get(f"{cls}.{dotted(x.func)[5:]}")
                            if f is not None and id(f) not in seen:
                                seen.add(id(f))
                                work.append(f)
        if not work:
            break
    return names


def _general_hint(hv):
    """the value of assume_a / sym_pos that asks for the general driver"""
    if hv is None:
        return True
    if is_unknown(hv) or isinstance(hv, tuple):
        return False
    if hv.is_const():
        return hv.const_value() == 0
    return S.sym_name(hv) in ("'gen'", "'general'", '"gen"', '"general"', "False", "None")


def r8_structure_assumption(ctx):
    """A structure hint given to the linear solver for the dynamic stiffness H = i W b + k - W^2 m (scipy's assume_a / sym_pos) must be
    justified by ALL matrices H is made of.  The hint is read as a *value* on every evaluated combination of the tests the coupled arm makes:
    where it is not the general driver, what it depends on are the quantities tested on the way to it (a local flag computed from
    `mattype(m) and mattype(k)` is those two tests) and the solver state it is read from (followed through the class to the code that computes
    it).  No hint (the general driver) is always right."""
    mods = [ctx.src.mod(O.FD), ctx.src.mod(O.BASE)]
    n = 0
    usable = 0
    seen_nodes = set()
    for m_none in (True, False):
        run = _run(ctx, "fd-coup", m_none)
        if not _usable(ctx, run):
            continue
        usable += 1
        # (every combination of the tests the configuration leaves open: a hint may be passed on one of them only)
        per_node = {}
        for dec, tr in run.paths:
            for c in tr.calls:
                if c[0] in S._SOLVES and S._SOLVES[c[0]] == "solve":
                    per_node.setdefault(id(c[3]), (c[3], []))[1].append((c[2], dec))
        if not per_node:
            ctx.error(f"{run.label}: the coupled arm solves H d = F once per frequency", run.fn)
            continue
        for node, seen_calls in per_node.values():
            if id(node) in seen_nodes:
                continue
            seen_nodes.add(id(node))
            n += 1
            hints = [k.arg for k in node.keywords if k.arg in ("assume_a", "sym_pos")]
            if not hints:
                ctx.ok(f"FreqDirect.fsolve: `{ast.unparse(node.func)}` is called without a structure assumption (general driver)", node)
                continue
            for hk in hints:
                vals = [(kws.get(hk), dec) for kws, dec in seen_calls]
                if any(hv is None or is_unknown(hv) or isinstance(hv, tuple) for hv, _ in vals):
                    ctx.error(f"{run.label}: the value of `{hk}` handed to the solver cannot be evaluated", node, [repr(hv) for hv, _ in vals])
                    continue
                special = [(hv, dec) for hv, dec in vals if not _general_hint(hv)]
                if not special:
                    ctx.ok("FreqDirect.fsolve: explicit general driver", node)
                    continue
                names = set()
                for hv, dec in special:
                    names |= _symbols(hv)
                    for tv, _ in dec:
                        try:
                            names |= _symbols(tv)
                        except Unsupported:
                            pass
                names = {x for x in names if x.startswith("self.")}
                names = _state_closure(mods, names)
                ok = {"self.b", "self.k"} <= names
                ctx.check(ok, "FreqDirect.fsolve: the structure assumption passed to the solver is derived from every matrix of the dynamic stiffness "
                              "(m, b and k)", node, None if ok else {"hint": sorted({repr(hv) for hv, _ in special}), "depends on": sorted(names),
                                                                      "consequence": "an unsymmetric damping matrix makes H unsymmetric whatever m and k are"},
                          key="C02-R8|FreqDirect.fsolve|structure assumption ignores a matrix of H")
    if usable:
        ctx.check(n >= 1, "FreqDirect.fsolve: the coupled arm solves H d = F once per frequency", ctx.src.func(O.FD, "FreqDirect.fsolve"), n, nontrivial=False)


# ------------------------------------------------------------------------------------------------ R9
def _acts_when(ctx, fn, callee):
    """(comparison value with the polarity folded in) under which `fn` reaches the call of `callee`: the function is evaluated once per
    combination of its tests; exactly one comparison must separate the paths that act from those that do not.
    Returns the guard (op, left, right, value), None when no single comparison separates them, "always" when every path acts."""
    paths = list(S.enumerate_paths(ctx, fn, {}, S.Opts()))
    acted = [(dec, any(c[0] == callee for c in tr.calls)) for dec, tr in paths]
    if not any(a for _, a in acted):
        raise AnchorError(f"{fn.name}: no evaluated path reaches the call of {callee}")
    if all(a for _, a in acted):
        return "always"
    cands = {}
    for dec, a in acted:
        for v, b in dec:
            cands.setdefault(S.vkey(v), v)
    for k, v in cands.items():
        u = unfn(v)
        if u is None or not u[0].startswith("cmp:"):
            continue
        for pol in (True, False):
            if all((dict((S.vkey(x), b) for x, b in dec).get(k) == pol) == a for dec, a in acted):
                op = u[0][4:]
                if not pol:
                    op = S._NEG.get(op)
                    if op is None:
                        return None
                return op, u[1][0], u[1][1], v
    return None


def _state_guards(ctx, rel, cls, target, depth=0):
    """[(guard | None, function)] for every place of class `cls` in which the module function `target` is called: the guard is read from the
    function that contains the call - wherever that is (the dedicated method, or a caller the method was inlined into) - and, when the call is
    unconditional there, from the callers of that function"""
    m = ctx.src.mod(rel)
    out = []
    for q, f in sorted(m.funcs.items()):
        if "#" in q or not (q.startswith(cls + ".") or "." not in q):
            continue
        local = {target}
        for st in ast.walk(f):        # a local alias of the function
            if isinstance(st, ast.Assign) and dotted(st.value) in local:
                local |= {t.id for t in st.targets if isinstance(t, ast.Name)}
        if not any(isinstance(x, ast.Call) and dotted(x.func) in local for x in walk_no_nested(f)):
            continue
        g = _acts_when(ctx, f, target)
        if g == "always":
            if depth < 3 and q.startswith(cls + "."):
                up = _state_guards(ctx, rel, cls, "self." + f.name, depth + 1)
                out.extend(up if up else [(None, f)])
            else:
                out.append((None, f))
        else:
            out.append((g, f))
    return out


def r9_conjugate_set_guards(ctx):
    """The coupled frequency response sums over the FULL set of complex modes; the time-domain recurrence keeps one mode of each conjugate pair.
    `addconj` restores the full set before a frequency solve (SolveUnc._addconj, or wherever that code lives), `delconj` reduces it before a time
    solve.  The two guards must split the possible states into exactly two classes: `delconj` is applied when the set is full (an equality
    between two sizes), `addconj` must be applied in every other state - the condition under which it is reached has to be the negation of that
    very equality (`!=`, or the strict inequality the size invariant allows) between the same two quantities.  Otherwise a half set of
    intermediate size (a mix of real roots and complex pairs) is left unexpanded.  The conditions are read off the evaluated paths of the
    function that contains the call (which comparison separates the paths that reach the call from those that do not), so a guard clause
    with an early return is the same as an enclosing `if`, and a method inlined into its caller is the same as the method."""
    gas = _state_guards(ctx, O.UNC, "SolveUnc", "addconj")
    gds = _state_guards(ctx, O.UNC, "SolveUnc", "delconj")
    if not gas or not gds:
        raise AnchorError("SolveUnc: a guarded call of addconj and one of delconj")
    typestate_decided = _r9_typestate(ctx)
    bad = [f for g, f in gas + gds if g is None]
    if bad:
        ctx.error("addconj / delconj: each is applied under a single comparison", bad[0], [f.name for f in bad])
        return
    eq = None
    for gd, fd in gds:
        ok = gd[0] == "Eq"
        ctx.check(ok, f"{fd.name}: delconj is applied exactly when the stored set is the full set (an equality of two sizes)", fd, gd[0])
        if ok and eq is None:
            eq = gd
    if eq is None:
        return
    X, Y = eq[1], eq[2]

    def on_state(*vals):
        """the comparison is written over the solver's own state (self....), not over a parameter of a helper: comparable between functions"""
        return all(n.startswith("self.") or n in ("pi", "I") for v in vals for n in _symbols(v))
    if not on_state(X, Y):
        ctx.error("delconj: the sizes its guard compares are read from a parameter, not from the solver's state", gds[0][1], f"Eq({X!r}, {Y!r})")
        return
    for ga, fa in gas:
        opa, P, Q = ga[0], ga[1], ga[2]
        if not on_state(P, Q):
            # a helper that is handed the state object: its guard is checked where fsolve reaches it, below
            ctx.ok(f"{fa.name}: addconj is applied under one comparison of its arguments (compared with delconj's on the path from fsolve)", fa, nontrivial=False)
            continue
        same_pair = (P.equals(X) and Q.equals(Y)) or (P.equals(Y) and Q.equals(X))
        ok = same_pair and opa in ("NotEq", "Gt", "Lt")
        if not same_pair and typestate_decided:
            # the same split of the states spelled over other sizes (len(pc.lam) ...): decided on concrete sizes by the typestate, whose worlds
            # include a half set of intermediate size
            ctx.ok(f"{fa.name}: addconj is applied under a comparison of other sizes than delconj's (decided on concrete sizes by the typestate)", fa, nontrivial=False)
            continue
        ctx.check(ok, f"{fa.name}: addconj is applied in every state in which delconj is not - its guard negates delconj's equality between the same two sizes", fa,
                  None if ok else {"addconj is applied when": f"{opa}({P!r}, {Q!r})", "delconj is applied when": f"Eq({X!r}, {Y!r})",
                                   "consequence": "a half set whose size is neither of the two tested values (real roots mixed with complex pairs) is not expanded: "
                                                  "fsolve sums over half of the conjugate pairs"},
                  key="C02-R9|SolveUnc._addconj|guard is not the negation of _delconj's")
    # the coupled frequency path restores the full set before it reads the eigensolution.  fsolve is evaluated in the coupled configuration with
    # the restoring code followed and every test on solver state taken both ways: (a) on some combination `addconj` is reached, and then before
    # the modal sum is stored; (b) over ALL combinations one comparison decides whether it is reached - a combination that does not reach it
    # must imply that comparison false (a guard added around the call may repeat the condition, it may not narrow it) - and that comparison
    # is again the negation of delconj's equality.
    names = {"addconj"}
    for m_none in (True, False):
        run = _run(ctx, "su-coup", m_none, follow_state=True)
        if not _usable(ctx, run):
            continue
        hit, node = False, run.fn
        for dec, tr in run.paths:
            calls = [c for c in tr.calls if c[0] in names]
            dyn = [c for c in tr.cells_of(run.ids["d"]) if run.part(c[1]) in DYN]
            if calls and dyn and calls[0][4] < dyn[-1][4]:
                hit, node = True, calls[0][3]
                break
        ctx.check(hit, f"{run.label}: the full conjugate set is restored (addconj) before the modal sum is stored", node)
        if not hit:
            continue
        g = _reached_when(run.paths, names)
        if g is None and typestate_decided:
            # flag attributes take part in the decision: what they establish over sequences of calls is decided by the typestate above
            ctx.ok(f"{run.label}: whether fsolve reaches addconj depends on more than one test of the solver's state (decided by the typestate over call sequences)", node, nontrivial=False)
            continue
        if g is None:
            ctx.error(f"{run.label}: the states in which fsolve reaches addconj are not those of a single comparison", node,
                      [[f"{v!r} is {b}" for v, b in dec] + ["-> addconj" if any(c[0] in names for c in tr.calls) else "-> no addconj"] for dec, tr in run.paths])
            continue
        opa, P, Q = g[0], g[1], g[2]
        same_pair = (P.equals(X) and Q.equals(Y)) or (P.equals(Y) and Q.equals(X))
        ok = same_pair and opa in ("NotEq", "Gt", "Lt")
        if not same_pair and typestate_decided:
            ctx.ok(f"{run.label}: fsolve reaches addconj under a comparison of other sizes than delconj's (decided on concrete sizes by the typestate)", node, nontrivial=False)
            continue
        ctx.check(ok, f"{run.label}: fsolve reaches addconj in every state in which delconj is not applied (all the tests on the way taken together)", node,
                  None if ok else {"addconj is reached when": f"{opa}({P!r}, {Q!r})", "delconj is applied when": f"Eq({X!r}, {Y!r})"},
                  key="C02-R9|SolveUnc._addconj|guard is not the negation of _delconj's")


_TS_ENTRIES = {"fsolve": "full", "tsolve": "half", "generator": "half", "get_f2x": "half"}


def _r9_typestate(ctx):
    """Typestate over the solver object (verifier/c02_conj.py): every sequence of at most three calls of the public entry points is run on the abstract
    state (conjugate set stored: full / half; flag attributes the followed code stores and tests), the methods' own code followed by value.  At every
    point where fsolve reads the eigen set the state must be "full", where a time-domain entry point reads it "half".  A sequence that breaks this
    from BOTH possible initial states (the constructor leaves either, depending on h) is an execution of the real object: VIOLATION with the
    sequence as witness.  Broken from one initial state only: undecided.  Returns True when every world was decided."""
    from . import c02_conj as CJ
    node = ctx.src.func(O.UNC, "SolveUnc.fsolve")
    try:
        res = CJ.analyse(ctx, _classes("SolveUnc"), _TS_ENTRIES, fixed={("self.unc", False), ("self.ksize", True), ("self.nonrfsz", True)})
    except Unsupported as e:
        ctx.error("SolveUnc: conjugate-set typestate over sequences of fsolve / tsolve / generator / get_f2x", node, str(e))
        return False
    decided = True
    for r in res:
        n, nh = r["world"]
        label = f"SolveUnc, {n} equations ({2 * n} modes; the half set keeps {nh})"
        missing = [e for e in _TS_ENTRIES if e not in r["seen"]]
        if missing and not any(r["witness"].values()):
            ctx.error(f"{label}: no read of the eigen set is reached in {missing}", node)
            decided = False
            continue
        wf, wh = r["witness"]["full"], r["witness"]["half"]
        for kind, text in (("full", "fsolve sums over the full conjugate set"), ("half", "the time-domain entry points run on the half set")):
            hits = [w for w in (wf, wh) if w is not None and _TS_ENTRIES[w[1][0]] == kind]
            both = wf is not None and wh is not None
            if hits and not both:
                ctx.error(f"{label}: {text} after every sequence of at most 3 calls - broken from one of the two initial states only", node,
                          {"witness": [{"sequence": list(w[0]), "reads": f"pc.{w[1][1]} (line {w[1][3]}) on the {w[1][2]} set", "configuration": [f"{k} is {b}" for k, b in w[2]]} for w in hits]})
                decided = False
                continue
            ok = not hits
            w = min(hits, key=lambda w: (len(w[0]), w[0] != ("fsolve", "tsolve", "fsolve"))) if hits else None
            ctx.check(ok, f"{label}: {text} after every sequence of at most 3 calls of fsolve / tsolve / generator / get_f2x on one object", node,
                      None if ok else {"witness sequence": list(w[0]), "then": f"{w[0][-1]} reads pc.{w[1][1]} (line {w[1][3]}) while the object holds the {w[1][2]} set",
                                       "configuration": [f"{k} is {b}" for k, b in w[2]],
                                       "initial state": "either (full or half set stored by the constructor)",
                                       "consequence": "fsolve sums over one mode of each conjugate pair only" if kind == "full" else "the recurrence runs on both modes of each pair"},
                      key="C02-R9|SolveUnc|conjugate-set typestate over call sequences")
    return decided


def _reached_when(paths, names):
    """the comparison (op with the polarity folded in, left, right, value) that decides over all evaluated combinations whether a call in `names`
    is reached: every combination that reaches it took the comparison one way, every other combination took it the other way or implies it
    (by the comparisons it did take: an equality decides the order tests between the same two quantities).  None: no such comparison."""
    acted = [(dec, any(c[0] in names for c in tr.calls)) for dec, tr in paths]
    if all(a for _, a in acted):
        return None
    cands = {}
    for dec, a in acted:
        if a:
            for v, b in dec:
                cands.setdefault(S.vkey(v), v)
    for k, v in cands.items():
        u = unfn(v)
        if u is None or not u[0].startswith("cmp:"):
            continue
        for pol in (True, False):
            ok = True
            for dec, a in acted:
                got = dict((S.vkey(x), b) for x, b in dec).get(k)
                if got is None and not a:
                    cfg = S.Config({})
                    for x, b in dec:
                        cfg._put(x, b)
                    got = cfg.truth(v)
                if got is not (pol if a else (not pol)):
                    ok = False
                    break
            if ok:
                op = u[0][4:]
                if not pol:
                    op = S._NEG.get(op)
                    if op is None:
                        return None
                return op, u[1][0], u[1][1], v
    return None


# ------------------------------------------------------------------------------------------------ R10
_LU_FACTOR = {"call:la.lu_factor", "call:scipy.linalg.lu_factor", "call:linalg.lu_factor", "call:lu_factor"}


def _state_meaning(ctx, solver, attr, table):
    """what `self.<attr>` holds: the value(s) the methods of the class and its base assign to it, each method evaluated on symbols under
    `table` (a test the table leaves open is taken both ways).  Returns the list of distinct values, None when a method cannot be evaluated"""
    cache = ctx.__dict__.setdefault("_c02_state_meaning", {})
    key = (solver, attr, tuple(sorted(table.items())))
    if key in cache:
        return cache[key]
    vals = []
    cache[key] = None
    for rel, cls in _classes(solver):
        for q, f in sorted(ctx.src.mod(rel).funcs.items()):
            if not q.startswith(cls + ".") or q.count(".") != 1:
                continue
            if not any(isinstance(x, ast.Attribute) and isinstance(x.ctx, ast.Store) and dotted(x) == f"self.{attr}" for x in walk_no_nested(f)):
                continue
            try:
                found = S.explore(ctx, f, table, S.Opts(classes=_classes(solver), erase_T=False))
            except Unsupported:
                return None
            for _, tr, ev in found:
                if tr.raised:
                    continue
                v = ev.env.get(f"self.{attr}")
                if v is None:
                    continue
                if is_unknown(v) or isinstance(v, tuple) or isinstance(v, S.DictValue):
                    return None
                if not any(_eq(v, w) for w in vals):
                    vals.append(v)
    cache[key] = vals
    return vals


def _limit_identity(ctx, run, V, K, table, text, node, detail_name):
    """one obligation: the stored value V (subscripts erased) solves K x = F, where K is the named partition of a system matrix (or 1) and the
    solver state V is written with (an inverse, an LU factorisation) is read from the code that computes it"""
    keep = {"self.krf", "self.m"} | (ctx.__dict__.get("_c02_modal_force", {}).get((run.solver, "phi"), set()) if run.pre_eig else set())
    FORCE = _force_of(ctx, run, node)
    if run.pre_eig:
        V = MD.push_T(V)
        if not _refutable_modal(ctx, run, False, text, node, V):
            return
    state = sorted(n for n in _symbols(V) if n.startswith("self.") and n not in keep)
    meaning = {}
    for n in state:
        vals = _state_meaning(ctx, run.solver, n[5:], table)
        if not vals or len(vals) != 1:
            ctx.error(f"{text}: what `{n}` holds cannot be read from the code that assigns it", node, None if vals is None else [repr(v) for v in vals])
            return
        meaning[n] = S.erase_idx(vals[0])
    try:
        u = unfn(V)
        if u is not None and u[0] in ("lu_solve", "solve") and len(u[1]) == 2 and not any(isinstance(a, str) for a in u[1]):
            X, rhs = u[1]
            nm = S.sym_name(X)
            if u[0] == "lu_solve":
                um = unfn(meaning[nm]) if nm in meaning else None
                fac = um[1][0] if um is not None and um[0] in _LU_FACTOR and um[1] and not isinstance(um[1][0], str) else None
                ok = fac is not None and _eq(fac, K) and _eq(rhs, FORCE)
                got = {"factorisation of": repr(fac) if fac is not None else repr(meaning.get(nm, X)), "right-hand side": repr(rhs)}
            else:
                Xm = X.subs({k[:]: v for k, v in meaning.items()}) if meaning else X
                ok = _eq(Xm, K) and _eq(rhs, FORCE)
                got = {"matrix": repr(Xm), "right-hand side": repr(rhs)}
        else:
            if any(unfn(v) is not None and unfn(v)[0] in _LU_FACTOR for v in meaning.values()):
                ok, got = False, {detail_name: repr(V), "state": {k: repr(v) for k, v in meaning.items()}}      # an LU object used as a number
            else:
                V2 = V.subs(meaning) if meaning else V
                ok = (V2 * K).equals(FORCE)
                got = {detail_name: repr(V2)}
    except Unsupported as e:
        ctx.error(f"{text}: normal form", node, str(e))
        return
    # (an LU factorisation is something this rule has a meaning for: what is judged for foreign atoms is the matrix that is factorised)
    seen = [V]
    for v in meaning.values():
        um = unfn(v)
        seen.append(um[1][0] if um is not None and um[0] in _LU_FACTOR and um[1] and not isinstance(um[1][0], str) else v)
    if not _refutable(ctx, run, ok, text, node, *seen):
        return
    _check_once(ctx, ok, text, node, None if ok else dict(got, want=f"K x = F with K = {K!r}" + (f", F = {FORCE!r} (the force in the modal coordinates the rows live in)" if run.pre_eig else "")), tag=("limit", detail_name))


def r10_static_and_rigid_limits(ctx):
    """The dynamic-stiffness equation (i W b + k - W^2 m) x = F in its two limits that the solvers treat apart: the residual-flexibility equations are
    solved statically, k_rf d = F, and the rigid-body equations (k = b = 0) give m_rb a = F.  The solvers write both through precomputed state (an
    inverse, an LU factorisation); what that state holds is read from the method that assigns it, so the obligation is on the product
    state x use: whatever is stored on the rf rows of d, multiplied by k_rf, is F - and likewise for the rigid-body acceleration and m."""
    krf, mm = F.sym("self.krf"), F.sym("self.m")
    _read_pre_eig(ctx)
    for fam, m_none, extra, tag in _configs():
        if True:
            run = _run(ctx, fam[0], m_none, extra, tag)
            if not _usable(ctx, run):
                continue
            if _force_of(ctx, run) is None:
                continue
            table = {"self.unc": not run.coupled, "self.rfsize": True, "self.ksize": True, "self.rbsize": True, "self.m is None": m_none,
                     "self.m is not None": not m_none, "np.size(self._rb)": True, "self._rb.size": True, "len(self._rb)": True}
            cs = run.cells("d", ("RF",))
            if not cs or is_unknown(cs[-1][3]) or isinstance(cs[-1][3], tuple):
                ctx.error(f"{run.label}: displacement store on the residual-flexibility rows", cs[-1][4] if cs else run.fn)
            else:
                try:
                    V = S.erase_idx(_forward(run, cs[-1][3], cs[-1][5]))
                except Unsupported as e:
                    ctx.error(f"{run.label}: residual-flexibility displacement", cs[-1][4], str(e))
                    V = None
                if V is not None:
                    _limit_identity(ctx, run, V, krf, table, f"{run.label}: the residual-flexibility equations are solved statically, k_rf d = F", cs[-1][4], "d_rf")
            if run.solver != "SolveUnc":
                continue          # (FreqDirect solves the rigid-body equations with the other non-rf equations: R1)
            acs = run.cells("a", ("RB",))
            if not acs or is_unknown(acs[-1][3]):
                ctx.error(f"{run.label}: rigid-body acceleration store", run.fn)
                continue
            try:
                Aw = World(run, "pos").rows("a", _row_selector(acs[-1][2]), None)
                if len(Aw) != 1:
                    raise Unsupported("not one formula")
            except Unsupported as e:
                ctx.error(f"{run.label}: rigid-body acceleration", acs[-1][4], str(e))
                continue
            _limit_identity(ctx, run, Aw[0], F.const(1) if m_none else mm, table,
                            f"{run.label}: the rigid-body acceleration solves m_rb a = F" + (" (m is the identity)" if m_none else ""), acs[-1][4], "a_rb")


RULES = [
    ("C02-R6", r6_paired_advanced_indices, 2),
    ("C02-R1", r1_dynamic_stiffness, 26),
    ("C02-R2", r2_derivative_relations, 110),
    ("C02-R3", r3_option_gating, 60),
    ("C02-R4", r4_partition_typing, 100),
    ("C02-R5", r5_solvepsd, 8),
    ("C02-R7", r7_every_force_counts, 2),
    ("C02-R8", r8_structure_assumption, 2),
    ("C02-R9", r9_conjugate_set_guards, 12),
    ("C02-R10", r10_static_and_rigid_limits, 20),
]
LEVEL = "other"
EXPLANATION = ("Static: the public frequency-domain entry points are evaluated on symbols once per configuration (helpers followed, tests decided by value); "
               "every path divides by the same dynamic stiffness i W b + k - W^2 m (exact normal forms), derives v and a from the stored d by i W and -W^2 "
               "on the same rows, fills or zeroes rigid-body / rf rows exactly as incrb / rf_disp_only say, uses each partition in its own index space "
               "(E3 typing of the evaluated values in both SolveUnc modes), and solvepsd accumulates PSD_i |H_i|^2 with the tuple positions matching the "
               "solution attributes and takes the trapezoidal area.")
MANIFEST = {
    "text": "Partial claim decided statically: (R1) the displacement stored on the dynamic rows by SolveUnc (real / complex uncoupled, m None/given) and FreqDirect "
            "(uncoupled and coupled, m None/given) is F over / solved with i W b + k - W^2 m with W = 2 pi f, and the modal path uses i W - lambda with the d-rows / "
            "v-columns of the eigenvectors; (R2) v = i W d, a = -W^2 d on every rf / dynamic partition from the displacement stored on the same rows, rigid-body "
            "v = a/(iW), d = -a/W^2 filled exactly where W != 0 (decided per class of frequencies W > 0, W < 0, W = 0); (R3) incrb / rf_disp_only honoured, decided by evaluating each option setting; "
            "(R4) partition-space typing of every value stored on the frequency-domain paths in both SolveUnc modes; (R5) solvepsd formula, None entries and trapezoid "
            "(the area is evaluated on a generic non-uniform 4-point grid with vectors held entry by entry, so a quadrature written by hand is compared weight by weight); "
            "(R6) paired advanced indices; (R7) every force reaches the PSD accumulation (must-pass-through in the "
            "force loop: only a vanishing force PSD may skip an iteration, because the direct term drmf[:, i] bypasses the equations); (R8) a structure "
            "assumption handed to the solver of the dynamic stiffness must be derived from every matrix of H; (R9) the conditions under which addconj / delconj are applied (in SolveUnc._addconj / "
            "_delconj or wherever those calls live) are complementary, also on the whole path from fsolve to the call (the full conjugate set is "
            "restored before every frequency solve unless it is already full), and a typestate over the solver object: every sequence of at most three calls of "
            "fsolve / tsolve / generator / get_f2x is run on the abstract state (full / half conjugate set stored, flag attributes the methods store and test; "
            "size tests evaluated on concrete shapes in three worlds) - fsolve reads the eigen set only in the state full, the time-domain entry points only in the state half; (R10) the two limits of the dynamic stiffness that are solved apart: "
            "what is stored on the rf rows of d times k_rf is F, the rigid-body acceleration times m_rb is F (the inverse / LU state the code uses is read "
            "from the methods that assign it). R1, R2 and R10 are also evaluated in the pre_eig regime, where F is the force in the modal coordinates the rows "
            "live in, Phi^T F with Phi the transformation _solution_freq applies to the responses. "
            "Not decided: accuracy of the complex-mode path, singular H, library solves.",
    "note": "Trusted: CPython ast; verifier/e2_formula.py (commutative normal forms: matrix products are abstracted to scalar products), verifier/c02_sem.py "
            "(path evaluator), verifier/c02_conj.py (typestate interpreter; shapes of the eigen-set arrays as _add_partition_copies slices them), verifier/c02_types.py with the attribute table of verifier/ode_spaces.py (read from _BaseODE, one reason per line).",
    "technique": "whole-path symbolic evaluation per configuration to exact normal forms + partition-space type inference on the evaluated values",
}
