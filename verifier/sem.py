"""Value-level helpers for rules: evaluate a function on symbols (AutoEvaluator) and compare the *values* that reach a store, a call
argument or a return with an expected Python expression evaluated the same way.  A rule written this way does not depend on how the
source spells the computation (temporaries, renamed locals, commuted sums, tuple vs list literals, positional vs keyword arguments
are resolved by the evaluator or by the rule's signature table), only on what is computed."""
from __future__ import annotations

import ast

from . import e2_formula as F
from .core import Unsupported
from .e1_srcmodel import dotted
from .e2_eval import AutoEvaluator, is_unknown, need


def unfn(v):
    """a value that is exactly one opaque application  ->  (name, [argument values])  else None"""
    if v is None or is_unknown(v) or isinstance(v, tuple):
        return None
    try:
        if not v.d.is_const() or v.d.const_value() != 1 or len(v.n.t) != 1:
            return None
        (m, c), = v.n.t.items()
        if c != 1 or len(m) != 1 or m[0][1] != 1:
            return None
        d = F.atom_desc(m[0][0])
    except Exception:  # noqa
        return None
    if d[0] != "fn":
        return None
    args = []
    for k in d[2]:
        if isinstance(k, str):
            args.append(k)
        else:
            args.append(F.Rat(F._poly_from_key(k[1]), F._poly_from_key(k[2])))
    return d[1], args


def split_call(v):
    """call:NAME(args..., kw:K(v)...) -> (NAME, [positional], {K: v}) else None"""
    u = unfn(v)
    if u is None or not u[0].startswith("call:"):
        return None
    pos, kw = [], {}
    for a in u[1]:
        ua = unfn(a) if not isinstance(a, str) else None
        if ua is not None and ua[0].startswith("kw:"):
            kw[ua[0][3:]] = ua[1][0]
        else:
            pos.append(a)
    return u[0][5:], pos, kw


def place(pos, kw, names):
    """positional + keyword values -> {parameter name: value} by a signature (list of parameter names)"""
    out = {}
    for n, v in zip(names, pos):
        out[n] = v
    for k, v in kw.items():
        out[k] = v
    return out


def module_funcs(ctx, rel, cls=None, exclude=()):
    """{dotted call name: FunctionDef} for the module-level functions of `rel` (called by bare name) and, with `cls`, the methods of that
    class (called as self.name): the table `Sem(..., inline=...)` needs to follow helpers defined in the same module"""
    m = ctx.src.mod(rel)
    out = {}
    for q, f in m.funcs.items():
        if "#" in q:
            continue
        if "." not in q:
            if q not in exclude:
                out[q] = f
        elif cls and q.startswith(cls + ".") and q.count(".") == 1:
            nm = q.split(".", 1)[1]
            if nm not in exclude and not (nm.startswith("__") and nm.endswith("__")):
                out["self." + nm] = f
    return out


def module_consts(ctx, rel):
    """{name: value node} for module-level names of `rel` that are bound exactly once, at top level, to a literal (number, string, tuple / list / dict
    of literals and names): constants and lookup tables a clean-up may have moved out of a function.  Pass as Sem(..., consts=...)."""
    m = ctx.src.mod(rel)
    count, val = {}, {}
    for st in m.tree.body:
        tg = []
        if isinstance(st, ast.Assign):
            tg = st.targets
        elif isinstance(st, ast.AnnAssign) and st.value is not None:
            tg = [st.target]
        elif isinstance(st, (ast.AugAssign,)):
            tg = [st.target]
        for t in tg:
            for x in ast.walk(t):
                if isinstance(x, ast.Name):
                    count[x.id] = count.get(x.id, 0) + 1
        if isinstance(st, (ast.Assign, ast.AnnAssign)) and len(tg) == 1 and isinstance(tg[0], ast.Name) and not isinstance(st, ast.AugAssign):
            v = st.value
            if all(isinstance(x, (ast.Constant, ast.Tuple, ast.List, ast.Dict, ast.Name, ast.UnaryOp, ast.USub, ast.UAdd, ast.Load, ast.BinOp, ast.operator,
                                  ast.Attribute)) for x in ast.walk(v)):
                val[tg[0].id] = v
    return {k: v for k, v in val.items() if count.get(k) == 1}


class Sem:
    def __init__(self, ctx, fn, cond=None, pinned=None, call=None, binop=None, env=None, run=True, subscript=None, inline=None, erase_T=False, loop_once=False, loop_unroll=0, forward_stores=False, consts=None):
        self.ctx = ctx
        self.fn = fn
        self.ev = AutoEvaluator(fn, src=ctx.src, cond=cond, pinned=pinned, call=call, binop=binop, env=env, subscript=subscript)
        if inline:
            self.ev.inline = {k: v for k, v in inline.items() if v is not fn}
        self.ev.erase_T = erase_T
        self.ev.loop_once = loop_once
        self.ev.loop_unroll = loop_unroll
        self.ev.forward_stores = forward_stores
        self.ev.module_consts = consts
        if run:
            body = fn.body
            self.ev.run(body)

    def E(self, text):
        return self.ev.expr(text)

    def same(self, got, want):
        w = self.E(want) if isinstance(want, str) else want
        if got is None or is_unknown(got) or is_unknown(w):
            return False
        if isinstance(got, tuple) or isinstance(w, tuple):
            return isinstance(got, tuple) and isinstance(w, tuple) and len(got) == len(w) and all(self.same(a, b) for a, b in zip(got, w))
        try:
            return need(got).equals(need(w))
        except Unsupported:
            return False

    def env(self, name):
        return self.ev.env.get(name)

    def init(self, name):
        return self.ev.env.get(f"<init:{name}>")

    def cells(self, name):
        return [(ix, val, st) for nm, ix, val, st in self.ev.cells if nm == name]

    def cell(self, name, index_text):
        """value of the (last) store `name[index_text] = ...`; the index is compared by value"""
        try:
            w = self.ev._index_value(ast.parse(f"x[{index_text}]", mode="eval").body.slice)
        except Unsupported:
            return None
        found = None
        for ix, val, st in self.cells(name):
            if not is_unknown(ix) and need(ix).equals(need(w)):
                found = val
        return found

    def calls(self, *names):
        return [c for c in self.ev.calls if c[0] in names]

    def ret(self):
        return self.ev.returns[-1][0] if self.ev.returns else None

    def ret_node(self):
        return self.ev.returns[-1][1] if self.ev.returns else self.fn


def and_binop(node, a, b, ev):
    """`&` / `|` on boolean masks as commutative opaque applications (on top of the integer operators)"""
    if isinstance(node.op, (ast.BitAnd, ast.BitOr)) and not is_unknown(a) and not is_unknown(b) and not isinstance(a, tuple) and not isinstance(b, tuple):
        ka, kb = repr(a), repr(b)
        x, y = (a, b) if ka <= kb else (b, a)
        return F.fn("mask:" + type(node.op).__name__, need(x), need(y))
    return NotImplemented


def enumerate_paths(ctx, fn, fixed=None, limit=64, **kw):
    """Evaluate `fn` once per syntactic path through its `if` tests (no feasibility reasoning, no solver): `fixed(test, ev)` may decide a test
    (True / False) - every other test is taken both ways.  Yields (decisions, Sem) with decisions = [(test node, bool), ...] in the order met.
    Used by rules of the form "on EVERY path ...": a flag the rule knows nothing about is simply explored both ways."""
    work = [[]]
    n = 0
    while work:
        prefix = work.pop()
        n += 1
        if n > limit:
            raise Unsupported(f"more than {limit} paths through {fn.name}")
        taken = []
        cache = {}

        def cond(test, ev, prefix=prefix, taken=taken, cache=cache):
            if fixed is not None:
                r = fixed(test, ev)
                if r is not None:
                    return r
            k = id(test)
            if k in cache:
                return cache[k]
            i = len(taken)
            if i < len(prefix):
                v = prefix[i]
            else:
                v = True
                work.append([d for _, d in taken] + [False])
            taken.append((test, v))
            cache[k] = v
            return v

        S = Sem(ctx, fn, cond=cond, **kw)
        yield list(taken), S
