"""C19 self-test recipes in addition to the table in selftest.py: (property, "break" | "neutral", expected rules, file, old text, new text, description).
Every old text occurs exactly once in its file.  The neutral recipes are refactorings the value-based rules are meant to be blind to (names,
temporaries, loop form and order, control-flow shape, numpy spellings, helper extraction); the break recipes arm the obligations that were
re-expressed or added when the rules were rewritten on values and roles."""

P = "pyyeti/psd.py"
D = "pyyeti/dsp.py"

_AREA_LOOPS = '''    for i in range(Freq.size - 1):
        f1 = Freq[i]
        f2 = Freq[i + 1]
        for j in range(PSD.shape[1]):
            p1 = PSD[i, j]
            p2 = PSD[i + 1, j]

            s = np.log(p2 / p1) / np.log(f2 / f1)
            if abs(s + 1.0) < 1e-5:
                # happens when p2/p1 = f1/f2
                #   slope = -10*log10(2) db/octave
                intarea = p1 * f1 * np.log(f2 / f1)
            else:
                intarea = (f2 * p2 - f1 * p1) / (s + 1.0)
            _area[j] += intarea
    return _area
'''

_AREA_SWAPPED = '''    ncurves = PSD.shape[1]
    for curve in range(ncurves):
        column = PSD[:, curve]
        for hi in range(1, len(Freq)):
            lo = hi - 1
            fa, fb = Freq[lo], Freq[hi]
            pa, pb = column[lo], column[hi]
            slope1 = np.log(pb / pa) / np.log(fb / fa) + 1.0
            if slope1 <= -1e-5 or slope1 >= 1e-5:
                _area[curve] = _area[curve] + (fb * pb - fa * pa) / slope1
                continue
            _area[curve] = _area[curve] + pa * fa * np.log(fb / fa)
    return _area
'''

_AREA_ZIP = '''    for i, (f1, f2) in enumerate(zip(Freq[:-1], Freq[1:])):
        logf = np.log(f2 / f1)
        for j in range(PSD.shape[1]):
            p1, p2 = PSD[i : i + 2, j]
            sp1 = np.log(p2 / p1) / logf + 1.0
            _area[j] += p1 * f1 * logf if -1e-5 < sp1 < 1e-5 else (f2 * p2 - f1 * p1) / sp1
    return _area
'''

_AREA_VECTOR = '''    for k in range(Freq.size - 1):
        fa, fb = Freq[k], Freq[k + 1]
        pa, pb = PSD[k], PSD[k + 1]
        slope = np.log(pb / pa) / np.log(fb / fa)
        special = np.abs(slope + 1.0) < 1e-5
        _area += np.where(special, pa * fa * np.log(fb / fa), (fb * pb - fa * pa) / (slope + 1.0))
    return _area
'''

_RC_LOOP = '''    cal = np.zeros((len(FL), cols))
    cau = np.zeros((len(FL), cols))
    for i in range(cols):
        # with np.interp, interpolating cumulative area beyond end
        # points will take the end value -- that's perfect here: 0's
        # on the front, total area on the back
        cal[:, i] = np.interp(FL, Fa, ca[:, i])
        cau[:, i] = np.interp(FU, Fa, ca[:, i])
'''

_RC_COMP = '''    cal = np.column_stack([np.interp(FL, Fa, c) for c in ca.T])
    cau = np.array([np.interp(x=FU, xp=Fa, fp=ca[:, i]) for i in range(cols)]).T
'''

_INTERP_LOG = '''        psdfull = ifunc(np.log(freq))
        pv = (freq >= Freq[0]) & (freq <= Freq[-1])
        psdfull[pv] = np.exp(psdfull[pv])
'''

_INTERP_WHERE = '''        logp = ifunc(np.log(freq))
        inside = np.logical_and(Freq[0] <= freq, Freq[-1] >= freq)
        psdfull = np.where(inside, np.exp(logp), 0)
'''

_INTERP_OUTSIDE = '''        psdfull = np.exp(ifunc(np.log(freq)))
        inside = (freq >= Freq[0]) & (freq <= Freq[-1])
        psdfull[~inside] = 0
'''

_RS_LAG = '''    nz = M // 2
    shape[-1] = nz
    z = np.zeros(shape)
    updata1 = np.concatenate((z, updata1, z), axis=-1)
    updata = signal.lfilter(fir, 1, updata1, axis=-1)
    updata = updata[..., M:]

    # downsample:
    n = int(np.ceil(ln * p / q))
    if q > 1:
        shape[-1] = n
        RData = np.zeros(shape)
        RData = updata[..., ::q] + m
    else:
        RData = updata + m
'''

_RS_LAG_DIRECT = '''    half = pts * max(p, q)
    pad = np.zeros(shape[:-1] + [half])
    filtered = signal.lfilter(fir, [1.0], np.concatenate([pad, updata1, pad], -1))
    n = math.ceil(ln * p / q)
    RData = m + filtered[..., 2 * half :: q]
'''

_RS_LAG_STOP = '''    nz = M // 2
    shape[-1] = nz
    z = np.zeros(shape)
    updata = signal.lfilter(fir, 1, np.concatenate((z, updata1, z), axis=-1), axis=-1)
    n = int(np.ceil(ln * p / q))
    RData = updata[..., M : M + ln * p : q] + m
'''

_RC_CLAMP = '''        fl = FL[0]
        fu = FU[-1]
        if FL[0] < FLin[0]:
            FL[0] = FLin[0]
        if FU[-1] > FUin[-1]:
            FU[-1] = FUin[-1]
'''

_RC_CLAMP_MAX = '''        fl, fu = FL[0], FU[-1]
        FL[0] = max(FL[0], FLin[0])
        FU[-1] = np.minimum(FUin[-1], FU[-1])
'''

# ---------------------------------------------------------------------------------------------------------------- pass 3
_RS_STUFF_PAD = """    if p > 1:
        shape[-1] = ln * p
        updata1 = np.zeros(shape)
        updata1[..., ::p] = data - m
    else:
        updata1 = data - m

    # take care of lag by shifting with zeros:
    nz = M // 2
    shape[-1] = nz
    z = np.zeros(shape)
    updata1 = np.concatenate((z, updata1, z), axis=-1)
"""


def _rs_fused(total="nz + ln * p + nz", slot="nz : nz + ln * p : p"):
    """zero stuffing and lag padding in ONE zero buffer (for p > 1)"""
    return f"""    nz = M // 2
    if p > 1:
        shape[-1] = {total}
        updata1 = np.zeros(shape)
        updata1[..., {slot}] = data - m
    else:
        shape[-1] = nz
        z = np.zeros(shape)
        updata1 = np.concatenate((z, data - m, z), axis=-1)
"""


_RS_RETURN = """    if t is None:
        if getfir:
            return RData, fir
        return RData
    tnew = np.arange(n) * (t[1] - t[0]) * ln / n + t[0]
    if getfir:
        return RData, tnew, fir
    return RData, tnew
"""

_RS_RETURN_GEN = """    tnew = None if t is None else np.arange(n, dtype=float) * (t[1] - t[0]) * ln / n + t[0]
    out = tuple(x for x, wanted in ((RData, True), (tnew, t is not None), (fir, getfir)) if wanted)
    return out[0] if len(out) == 1 else out
"""

_RS_LAG_CLOSURE = """    half = M // 2

    def _padded(x):
        z = np.zeros(shape[:-1] + [half])
        return np.concatenate((z, x, z), axis=-1)

    delagged = lambda y: y[..., 2 * half :]
    updata = delagged(signal.lfilter(fir, 1, _padded(updata1), axis=-1))

    # downsample:
    n = int(np.ceil(ln * p / q))
    if q > 1:
        RData = updata[..., ::q] + m
    else:
        RData = updata + m
"""

_AREA_ARMS = """            if abs(s + 1.0) < 1e-5:
                # happens when p2/p1 = f1/f2
                #   slope = -10*log10(2) db/octave
                intarea = p1 * f1 * np.log(f2 / f1)
            else:
                intarea = (f2 * p2 - f1 * p1) / (s + 1.0)
            _area[j] += intarea
"""

_AREA_LAMBDAS = """            general = lambda: (f2 * p2 - f1 * p1) / (s + 1.0)
            limit = lambda: p1 * f1 * np.log(f2 / f1)
            _area[j] += limit() if abs(s + 1.0) < 1e-5 else general()
"""

_RC_TABLE = """    ca = np.vstack((np.zeros((1, cols)), np.cumsum(Df * P, axis=0)))
    Fa = np.hstack((FLin[0], FUin))
"""

_RC_TABLE_PREALLOC = """    ca = np.zeros((len(F) + 1, cols))
    np.cumsum(Df * P, axis=0, out=ca[1:])
    Fa = np.empty(len(F) + 1)
    Fa[0] = FLin[0]
    Fa[1:] = FUin
"""

_RC_STORES = """        cal[:, i] = np.interp(FL, Fa, ca[:, i])
        cau[:, i] = np.interp(FU, Fa, ca[:, i])
"""

_RC_VIEWS = """        lo_col, hi_col = cal[:, i], cau[:, i]
        lo_col[:] = np.interp(FL, Fa, ca[:, i])
        hi_col[:] = np.interp(FU, Fa, ca[:, i])
"""

_RC_GEN = """    cal, cau = (
        np.column_stack([np.interp(edges, Fa, ca[:, i]) for i in range(cols)])
        for edges in (FL, FU)
    )
"""

_NB_NEAR_LOOP = """        for j in range(1, lnew):
            v = tnew[j]

            for i in range(i, lold):
                if told[i] >= v:
                    break

            if i > 0 and v - told[i - 1] <= told[i] - v:
                index[j] = i - 1
            else:
                index[j] = i

        return index
"""


def _nb_near(test="told[i] >= v", tie="<="):
    return f"""        last = lold - 1
        for j, v in enumerate(tnew[1:], 1):
            while i < last and not ({test}):
                i += 1
            index[j] = i - 1 if (i > 0 and v - told[i - 1] {tie} told[i] - v) else i

        return index
"""


_NB_PREV_LOOP = """        for j in range(1, lnew):
            v = tnew[j]

            for i in range(i, lold):
                if told[i] > v:
                    break
            else:
                i = lold

            if i > 0:
                index[j] = i - 1
            else:
                index[j] = i

        return index
"""


def _nb_prev(test="told[i] > v"):
    return f"""        j = 1
        while j < lnew:
            v = tnew[j]
            while True:
                if i == lold or {test}:
                    break
                i += 1
            index[j] = max(i - 1, 0)
            j += 1

        return index
"""


_FX_DISPATCH = """        index = _find_closest_previous_times(told - dt * previous_value_tol, tnew)
    else:
        index = _find_closest_times(told, tnew)
"""

_FX_DISPATCH_LAMBDA = """        search = lambda tn: _find_closest_previous_times(told - dt * previous_value_tol, tn)
    else:
        search = lambda tn: _find_closest_times(told, tn)
    index = search(tnew)
"""

_FX_RETURN = """    return _return(
        tnew, newdata, alldrops, sr_stats, tp, getall, return_ndarray, despike_info
    )


def aligntime("""

_FX_RETURN_STAR = """    ret_args = (tnew, newdata, alldrops, sr_stats, tp)
    ret_opts = dict(getall=getall, return_ndarray=return_ndarray, despike_info=despike_info)
    return _return(*ret_args, **ret_opts)


def aligntime("""


_RS_PAD_CAT = """    shape[-1] = nz
    z = np.zeros(shape)
    updata1 = np.concatenate((z, updata1, z), axis=-1)
"""


def _rs_np_pad(back="nz"):
    return f"""    updata1 = np.pad(updata1.astype(np.result_type(updata1, float), copy=False), [(0, 0)] * (updata1.ndim - 1) + [(nz, {back})])
"""


_AREA_HEAD = """    for i in range(Freq.size - 1):
        f1 = Freq[i]
        f2 = Freq[i + 1]
"""

_RC_PAIR_LOOP = """    for i, curve in zip(range(cols), ca.T):
        for dest, edges in ((cal, FL), (cau, FU)):
            dest[:, i] = np.interp(edges, Fa, curve)
"""

_IP_ARMS = """    if linear:
        ifunc = interp1d(
            Freq, PSD, axis=0, bounds_error=False, fill_value=0, assume_sorted=True
        )
        psdfull = ifunc(freq)
    else:
        ifunc = interp1d(
            np.log(Freq),
            np.log(PSD),
            axis=0,
            bounds_error=False,
            fill_value=0,
            assume_sorted=True,
        )
        psdfull = ifunc(np.log(freq))
"""


def _ip_scale(other="np.log"):
    return f"""    scale = (lambda x: x) if linear else {other}
    ifunc = interp1d(
        scale(Freq), scale(PSD), axis=0, bounds_error=False, fill_value=0, assume_sorted=True
    )
    psdfull = ifunc(scale(freq))
    if not linear:
"""


_RS_RETURN_DICT = """    ret = {"data": RData}
    if t is not None:
        ret["t"] = np.arange(n) * (t[1] - t[0]) * ln / n + t[0]
    if getfir:
        ret["fir"] = fir
    return RData if len(ret) == 1 else tuple(ret.values())
"""


RECIPES = [
    # ------------------------------------------------------------------ neutral: the rules are blind to these
    ("C19", "neutral", [], P, _AREA_LOOPS, _AREA_SWAPPED, "area: column loop outside, segments as range(1, len), or-form of the selector with the general arm first, continue"),
    ("C19", "neutral", [], P, _AREA_LOOPS, _AREA_ZIP, "area: enumerate(zip(Freq[:-1], Freq[1:])), slice unpacking, conditional expression, chained comparison"),
    ("C19", "neutral", [], P, _INTERP_LOG, _INTERP_WHERE, "interp: np.where(in range, exp, 0) instead of the masked store"),
    ("C19", "neutral", [], P, _INTERP_LOG, _INTERP_OUTSIDE, "interp: exp of everything, out-of-range zeroed afterwards"),
    ("C19", "neutral", [], D, _RS_LAG, _RS_LAG_DIRECT, "resample: lag and decimation in one slice M::q, padding pts*max(p, q), positional axis, one arm for every q"),
    ("C19", "neutral", [], D, _RS_LAG, _RS_LAG_STOP, "resample: explicit stop M + ln p of the retained slice"),
    ("C19", "neutral", [], P, _RC_CLAMP, _RC_CLAMP_MAX, "rescale: outer edges clamped with max / np.minimum"),
    ("C19", "neutral", [], P, "    psdoct = ms * (1 / (FU - FL).reshape(-1, 1))", "    psdoct = ms / (FU - FL)[:, np.newaxis]", "rescale: division by the column of widths"),
    ("C19", "neutral", [], P, _AREA_LOOPS, _AREA_VECTOR, "area: all columns at once (rows of the PSD array, np.where for the selector)"),
    ("C19", "neutral", [], P, _RC_LOOP, _RC_COMP, "rescale: the two column loops as comprehensions (column_stack / array(...).T), keyword arguments"),
    ("C19", "neutral", [], D, "    m = np.mean(data, axis=-1, keepdims=True)", "    m = data.mean(-1)[..., None]", "resample: mean along the last axis with a new trailing axis"),
    ("C19", "neutral", [], D, "    w = signal.windows.kaiser(M + 1, beta)", "    w = signal.kaiser(M + 1, beta=beta)", "resample: window through another import path, keyword argument"),
    ("C19", "neutral", [], D, "    n = int(np.ceil(ln * p / q))", "    n = -(-ln * p // q)", "resample: ceiling division idiom"),
    ("C19", "neutral", [], D, "        shape[-1] = ln * p\n        updata1 = np.zeros(shape)", "        updata1 = np.zeros((*data.shape[:-1], ln * p))", "resample: shape of the stuffed array as a tuple display"),
    ("C19", "neutral", [], P, "    _area = np.zeros(PSD.shape[1])", "    _area = np.zeros_like(PSD[0])", "area: accumulator created with zeros_like of a row"),
    # ------------------------------------------------------------------ break: re-expressed / new obligations
    ("C19", "break", ["C19-R1"], P, "    _area = np.zeros(PSD.shape[1])", "    _area = np.ones(PSD.shape[1])", "area accumulator does not start from zero"),
    ("C19", "break", ["C19-R1"], P, "            p2 = PSD[i + 1, j]", "            p2 = PSD[i + 1, 0]", "area: end point taken from another column"),
    ("C19", "break", ["C19-R1"], P, "            _area[j] += intarea", "            _area[j] = intarea", "area: segment areas not accumulated"),
    ("C19", "break", ["C19-R1"], P, "abs(s + 1.0) < 1e-5", "abs(s + 1.0) < 1e-2", "area: wide window around the singular slope"),
    ("C19", "break", ["C19-R1"], P, "abs(s + 1.0) < 1e-5", "abs(s + 0.9966) < 1e-5", "area: window centred on -3 dB/octave instead of the pole"),
    ("C19", "break", ["C19-R2"], P, "        pv = (freq >= Freq[0]) & (freq <= Freq[-1])", "        pv = (freq > Freq[0]) & (freq <= Freq[-1])",
     "interp: the first specification frequency is out of range"),
    ("C19", "break", ["C19-R2"], P, "        psdfull[pv] = np.exp(psdfull[pv])", "        psdfull[pv] = np.exp(psdfull)[pv] + 0 * psdfull[pv] ** 2", "interp: other value stored"),
    ("C19", "break", ["C19-R3"], D, "        updata1[..., ::p] = data - m", "        updata1[..., 1::p] = data - m", "resample: samples stuffed one slot late"),
    ("C19", "break", ["C19-R3"], D, "    nz = M // 2\n", "    nz = M // 2 + 1\n", "resample: one zero too many at both ends"),
    ("C19", "break", ["C19-R3"], D, "    gf = math.gcd(p, q)", "    gf = 1", "resample: ratio not reduced"),
    ("C19", "break", ["C19-R3"], D, "        RData = updata[..., ::q] + m", "        RData = updata[..., ::q]", "resample: mean not added back"),
    ("C19", "break", ["C19-R3"], D, "    tnew = np.arange(n) * (t[1] - t[0]) * ln / n + t[0]", "    tnew = np.arange(n) * (t[1] - t[0]) * ln / (n - 1) + t[0]", "resample: time step of the output"),
    ("C19", "break", ["C19-R3"], D, "    updata = updata[..., M:]\n", "    updata = updata[..., nz:]\n", "resample: only the padding removed, not the FIR delay"),
    ("C19", "break", ["C19-R4"], P, "        cal[:, i] = np.interp(FL, Fa, ca[:, i])", "        cal[:, i] = np.interp(FL, Fa, ca[:, 0])", "rescale: lower edges always use the first column's curve"),
    ("C19", "break", ["C19-R4"], P, "        FL[0] = fl\n", "        pass\n", "rescale: nominal lower edge not restored"),
    ("C19", "break", ["C19-R4"], P, "    ca = np.vstack((np.zeros((1, cols)), np.cumsum(Df * P, axis=0)))", "    ca = np.hstack((np.zeros((1, cols)), np.cumsum(Df * P, axis=0)))",
     "rescale: cumulative curve stacked along the wrong axis"),
    ("C19", "break", ["C19-R3"], D, "    m = np.mean(data, axis=-1, keepdims=True)", "    m = np.mean(data, axis=0, keepdims=True)", "resample: mean along the wrong axis"),
    ("C19", "break", ["C19-R4"], P, "    ca = np.vstack((np.zeros((1, cols)), np.cumsum(Df * P, axis=0)))", "    ca = np.vstack((Df[:1] * P[:1], np.cumsum(Df * P, axis=0)))",
     "rescale: cumulative curve does not start from zero"),
    ("C19", "break", ["C19-R4"], P, "    psdoct = ms * (1 / (FU - FL).reshape(-1, 1))", "    psdoct = ms * (1 / np.diff(np.hstack((FL, FU[-1]))).reshape(-1, 1))",
     "rescale: divided by the distance to the next lower edge, not by the band's own width"),
    # ------------------------------------------------------------------ pass 2: R1 scale invariance of the selector, R5 fixtime
    ("C19", "break", ["C19-R1"], P, "            if abs(s + 1.0) < 1e-5:", "            if np.isclose(f2 * p2, f1 * p1):",
     "area: s = -1 selected by isclose on f p (absolute tolerance 1e-8 on a quantity that scales with the PSD level; round-3 seed F)"),
    ("C19", "break", ["C19-R1"], P, "            if abs(s + 1.0) < 1e-5:", "            if abs(f2 * p2 - f1 * p1) < 1e-9:", "area: absolute tolerance on f2 p2 - f1 p1"),
    ("C19", "break", ["C19-R1"], P, "            if abs(s + 1.0) < 1e-5:", "            if abs(s + 1.0) < 1e-5 or p1 < 1e-30:", "area: limit formula forced for tiny PSD values"),
    ("C19", "neutral", [], P, "            if abs(s + 1.0) < 1e-5:", "            if np.isclose(s, -1.0, rtol=0, atol=1e-5):", "area: the window on the slope written with isclose (absolute tolerance on the slope itself)"),
    ("C19", "break", ["C19-R5"], D, "        index = np.searchsorted(told, tnew)\n        # told[index]", "        index = np.searchsorted(tnew, told)\n        # told[index]",
     "fixtime: searchsorted arguments swapped in the nearest search"),
    ("C19", "break", ["C19-R5"], D, "pv = abs(delta_1) <= abs(delta)", "pv = abs(delta_1) < abs(delta)", "fixtime: tie goes to the later sample in the numpy variant only"),
    ("C19", "break", ["C19-R5"], D, "            if i > 0 and v - told[i - 1] <= told[i] - v:\n                index[j] = i - 1", "            if i > 0 and v - told[i - 1] < told[i] - v:\n                index[j] = i - 1",
     "fixtime: tie goes to the later sample in the numba variant only"),
    ("C19", "break", ["C19-R5"], D, "index[index == lold] = lold - 1", "index[index == lold] = lold", "fixtime: insertion point len(told) not clamped to the last sample"),
    ("C19", "break", ["C19-R5"], D, "index[pv] -= 1", "index[pv] -= 2", "fixtime: two steps back instead of one"),
    ("C19", "break", ["C19-R5"], D, "        tnew += delt\n    return tnew, tp", "        tnew += np.linspace(0.0, delt, L)\n    return tnew, tp", "fixtime: a vector (ramp) is added to the time base"),
    ("C19", "break", ["C19-R5"], D, "        tnew += delt\n    return tnew, tp", "        tnew += delt * np.arange(L) / L\n    return tnew, tp", "fixtime: the time base is stretched (step no longer 1 / sr)"),
    ("C19", "break", ["C19-R5"], D, "    else:\n        index = _find_closest_times(told, tnew)",
     "    elif len(tp) == 2 and len(tnew) == len(told):\n        index = np.arange(len(told))\n    else:\n        index = _find_closest_times(told, tnew)",
     "fixtime: one-to-one fast path guarded by the number of turning points and the lengths (round-3 seed H)"),
    ("C19", "break", ["C19-R5"], D, "    else:\n        index = _find_closest_times(told, tnew)",
     "    elif len(tnew) == len(told):\n        index = np.arange(len(told))\n    else:\n        index = _find_closest_times(told, tnew)", "fixtime: one-to-one fast path guarded by the lengths only"),
    ("C19", "break", ["C19-R5"], D, "    newdata = olddata[index]\n", "    newdata = olddata[index] if len(tnew) != len(told) else olddata[:]\n", "fixtime: data copied through when the lengths agree"),
    ("C19", "break", ["C19-R5"], D, "    # build a best-fit index by finding closest new time (no\n",
     "    if len(tp) == 2:\n        return _return(told, olddata, alldrops, sr_stats, tp, getall, return_ndarray, despike_info)\n    # build a best-fit index by finding closest new time (no\n",
     "fixtime: input returned as it is when there are no turning points"),
    ("C19", "break", ["C19-R5"], D, "        index = np.searchsorted(told, tnew, side=\"right\") - 1\n        index[index < 0] = 0", "        index = np.searchsorted(told, tnew, side=\"right\")\n        index[index < 0] = 0",
     "fixtime: previous-sample search returns the next sample"),
    ("C19", "break", ["C19-R5"], D, "index = _find_closest_previous_times(told - dt * previous_value_tol, tnew)", "index = _find_closest_previous_times(told + dt * previous_value_tol, tnew)",
     "fixtime: tolerance of the previous-sample search applied with the wrong sign"),
    ("C19", "break", ["C19-R5"], D, "        tnew += t1\n", "        tnew -= t1\n", "fixtime: base shift with the wrong sign"),
    ("C19", "break", ["C19-R5"], D, "L = int(round((told[-1] - told[0]) * sr)) + 1", "L = int(round((told[-1] - told[0]) * sr))", "fixtime: the new time base stops one sample short of the input"),
    ("C19", "break", ["C19-R5"], D, "        pv = abs(delta_1) <= abs(delta)\n        index[pv] -= 1\n        return index", "        return np.where(abs(delta) > abs(delta_1), index - 1, index)",
     "fixtime: np.where form of the one-step-earlier test with the tie dropped"),
    ("C19", "neutral", [], D, "    else:\n        index = _find_closest_times(told, tnew)", "    else:\n        nearest_of = _find_closest_times\n        index = nearest_of(told, tnew)",
     "fixtime: the search function called through a local alias"),
    ("C19", "neutral", [], D, "    else:\n        index = _find_closest_times(told, tnew)",
     "    else:\n        index = np.searchsorted(told, tnew)\n        index[index == len(told)] = len(told) - 1\n        earlier = abs(told[index - 1] - tnew) <= abs(told[index] - tnew)\n        index[earlier] -= 1",
     "fixtime: nearest search inlined into fixtime"),
    ("C19", "neutral", [], D, "    newdata = olddata[index]\n", "    picked = index\n    newdata = np.take(olddata, picked, axis=0)\n", "fixtime: index in a temporary, data taken with np.take"),
    ("C19", "neutral", [], D, "        pv = abs(delta_1) <= abs(delta)\n        index[pv] -= 1\n        return index", "        return np.where(abs(delta) >= abs(delta_1), index - 1, index)",
     "fixtime: one-step-earlier test as np.where with the comparison turned round"),
    ("C19", "neutral", [], D, "        index[index == lold] = lold - 1\n", "        index = np.minimum(index, lold - 1)\n", "fixtime: clamp written with np.minimum"),
    ("C19", "neutral", [], D, "tnew = np.arange(L) / sr + told[0]", "tnew = told[0] + dt * np.arange(L)", "fixtime: time base written as told[0] + dt * arange(L)"),
    ("C19", "neutral", [], D, "    else:\n        index = _find_closest_times(told, tnew)",
     "    elif len(tnew) == len(told) and np.array_equal(told, tnew):\n        index = np.arange(len(told))\n    else:\n        index = _find_closest_times(told, tnew)",
     "fixtime: one-to-one fast path established by an element-wise comparison of old and new times"),
    ("C19", "neutral", [], D, "        index = _find_closest_times(told, tnew)", "        index = _find_closest_times(tnew=tnew, told=told)", "fixtime: search called with keywords in the other order"),
    ("C19", "neutral", [], D, "        index = np.searchsorted(told, tnew, side=\"right\") - 1\n        index[index < 0] = 0\n        return index", "        return np.clip(np.searchsorted(told, tnew, side=\"right\") - 1, 0, None)",
     "fixtime: previous-sample search clamped with np.clip"),
    ("C19", "neutral", [], D, "        tnew += delt\n    return tnew, tp", "        tnew = tnew + delt\n    return tnew, tp", "fixtime: alignment shift by rebinding instead of in place"),
    ("C19", "neutral", [], D, "        tnew += t1\n", "        tnew = tnew + t1\n", "fixtime: base shift by rebinding instead of in place"),
    ("C19", "neutral", [], D, "    updata = signal.lfilter(fir, 1, updata1, axis=-1)\n    updata = updata[..., M:]\n", "    updata = signal.lfilter(fir, 1, updata1, axis=-1)[..., M:]\n",
     "resample: filter call and lag removal chained"),
    ("C19", "break", ["C19-R5"], D, "    newdata = olddata[index]\n", "    newdata = olddata[np.minimum(index + 1, len(told) - 1)]\n", "fixtime: the sample after the nearest one is returned"),
    ("C19", "break", ["C19-R5"], D, "        if i > 0 and v - told[i - 1] <= told[i] - v:\n            index[0] = i - 1", "        if i > 0 and v - told[i - 1] < told[i] - v:\n            index[0] = i - 1",
     "fixtime: numba variant, tie rule of the first new time only"),
    ("C19", "break", ["C19-R5"], D, "            if i > 0 and v - told[i - 1] <= told[i] - v:\n                index[j] = i - 1", "            if i > 0 and v - told[i - 1] <= told[i] - v:\n                index[j] = i + 1",
     "fixtime: numba variant steps forward instead of back"),
    ("C19", "break", ["C19-R5"], "pyyeti/dsp.py", "        index = np.searchsorted(told, tnew, side=\"right\") - 1\n", "        index = np.searchsorted(told, tnew) - 1\n", "previous-sample search with the left insertion point (finding F18 re-introduced)"),
    # ------------------------------------------------------------------ pass 3: the array that is filtered is read as a layout; finite-world execution of while loops; idioms
    ("C19", "neutral", [], D, _RS_STUFF_PAD, _rs_fused(), "resample: zero stuffing and lag padding fused into one zero buffer, slots nz : nz + ln p : p"),
    ("C19", "neutral", [], D, _RS_STUFF_PAD, _rs_fused(slot="nz:-nz:p"), "resample: one zero buffer, slots counted from both ends (nz:-nz:p)"),
    ("C19", "break", ["C19-R3"], D, _RS_STUFF_PAD, _rs_fused(slot="nz + 1 : nz + 1 + ln * p : p"), "resample: one zero buffer, samples one slot late"),
    ("C19", "break", ["C19-R3"], D, _RS_STUFF_PAD, _rs_fused(total="nz + ln * p"), "resample: one zero buffer without room for the padding behind the signal"),
    ("C19", "break", ["C19-R3"], D, _RS_STUFF_PAD, _rs_fused(total="nz + ln * p + nz + 1", slot="nz + 1 : nz + 1 + ln * p : p"), "resample: one zero buffer, one zero too many in front"),
    ("C19", "break", ["C19-R3"], D, _RS_STUFF_PAD, _rs_fused(slot="nz : nz + ln * p : q"), "resample: one zero buffer, samples stored every q-th slot"),
    ("C19", "neutral", [], D, "    updata1 = np.concatenate((z, updata1, z), axis=-1)\n", "    updata1 = np.append(np.append(z, updata1, axis=-1), z, axis=-1)\n", "resample: padding appended in two steps with np.append"),
    ("C19", "break", ["C19-R3"], D, "    updata1 = np.concatenate((z, updata1, z), axis=-1)\n", "    updata1 = np.append(np.append(z, updata1, axis=-1), np.append(z, z, axis=-1), axis=-1)\n",
     "resample: twice the padding behind the signal"),
    ("C19", "neutral", [], D, "    M = 2 * pts * max(p, q)\n", "    M = (pts * max(p, q)) << 1\n", "resample: doubling written as a shift"),
    ("C19", "neutral", [], D, "    nz = M // 2\n", "    nz = M >> 1\n", "resample: halving written as a shift"),
    ("C19", "break", ["C19-R3"], D, "    nz = M // 2\n", "    nz = M >> 2\n", "resample: a quarter of the filter order as padding"),
    ("C19", "neutral", [], D, "    n = int(np.ceil(ln * p / q))\n", "    n = (ln * p + q - 1) // q\n", "resample: integer ceiling-division idiom (x + q - 1) // q"),
    ("C19", "break", ["C19-R3"], D, "    n = int(np.ceil(ln * p / q))\n", "    n = (ln * p + q) // q\n", "resample: output length one too many when q divides ln p"),
    ("C19", "neutral", [], D, "    cutoff = min(1 / q, 1 / p) / 2\n", "    cutoff = 1 / max(q, p) / 2\n", "resample: min of the reciprocals as the reciprocal of the max"),
    ("C19", "break", ["C19-R3"], D, "    cutoff = min(1 / q, 1 / p) / 2\n", "    cutoff = 1 / min(q, p) / 2\n", "resample: cut-off from the smaller of p, q (aliasing)"),
    ("C19", "neutral", [], D, _RS_RETURN, _RS_RETURN_GEN, "resample: return tuple built by a filtered generator, arange with dtype=float"),
    ("C19", "neutral", [], D, _RS_LAG, _RS_LAG_CLOSURE, "resample: padding in a closure, lag removal in a lambda"),
    ("C19", "neutral", [], P, _AREA_ARMS, _AREA_LAMBDAS, "area: the two segment formulas as zero-argument lambdas"),
    ("C19", "neutral", [], P, "            if abs(s + 1.0) < 1e-5:\n", "            if not (not (s + 1.0 < 1e-5) or not (s + 1.0 > -1e-5)):\n", "area: the window as a negated disjunction of negations (NaN-safe)"),
    ("C19", "neutral", [], P, "    for i in range(Freq.size - 1):\n", "    for i in range(PSD.shape[0] - 1):\n", "area: segments counted from the rows of the PSD array"),
    ("C19", "break", ["C19-R1"], P, "    for i in range(Freq.size - 1):\n", "    for i in range(PSD.shape[0] - 2):\n", "area: last segment skipped (count taken from the PSD rows)"),
    ("C19", "neutral", [], P, "        psdfull[pv] = np.exp(psdfull[pv])\n", "        psdfull[pv, ...] = np.exp(psdfull[pv, ...])\n", "interp: trailing Ellipsis in the masked index"),
    ("C19", "neutral", [], P, "        pv = (freq >= Freq[0]) & (freq <= Freq[-1])\n", "        pv = ~((freq < Freq[0]) | (freq > Freq[-1]))\n", "interp: in-range mask as the complement of out-of-range"),
    ("C19", "break", ["C19-R2"], P, "        pv = (freq >= Freq[0]) & (freq <= Freq[-1])\n", "        pv = ~((freq <= Freq[0]) | (freq > Freq[-1]))\n", "interp: complement form that drops the first specification frequency"),
    ("C19", "neutral", [], P, "        pv = (freq >= Freq[0]) & (freq <= Freq[-1])\n", "        pv = np.logical_and.reduce([freq >= Freq[0], freq <= Freq[-1]])\n", "interp: mask with logical_and.reduce"),
    ("C19", "neutral", [], P, _RC_TABLE, _RC_TABLE_PREALLOC, "rescale: curve and edge table assembled block by block in preallocated arrays (cumsum with out=)"),
    ("C19", "break", ["C19-R4"], P, _RC_TABLE, _RC_TABLE_PREALLOC.replace("np.zeros((len(F) + 1, cols))", "np.ones((len(F) + 1, cols))"), "rescale: preallocated curve does not start from zero"),
    ("C19", "break", ["C19-R4"], P, _RC_TABLE, _RC_TABLE_PREALLOC.replace("Fa[0] = FLin[0]", "Fa[0] = F[0]"), "rescale: preallocated edge table starts at the first centre frequency"),
    ("C19", "neutral", [], P, _RC_STORES, _RC_VIEWS, "rescale: the columns written through views"),
    ("C19", "break", ["C19-R4"], P, _RC_STORES, _RC_VIEWS.replace("cal[:, i], cau[:, i]", "cal[:, i], cau[:, 0]"), "rescale: view of the wrong column for the upper edges"),
    ("C19", "neutral", [], P, _RC_LOOP, _RC_GEN, "rescale: both arrays from one generator over the edge sets"),
    ("C19", "neutral", [], P, "    Fa = np.hstack((FLin[0], FUin))\n", "    Fa = np.r_[FLin[0], FUin]\n", "rescale: edge table with np.r_"),
    ("C19", "neutral", [], P, "np.cumsum(Df * P, axis=0)", "np.add.accumulate(Df * P, axis=0)", "rescale: cumsum as add.accumulate"),
    ("C19", "neutral", [], P, "    msv = np.sum(ms, axis=0)\n", "    msv = np.add.reduce(ms, axis=0)\n", "rescale: sum as add.reduce"),
    ("C19", "neutral", [], D, "        pv = abs(delta_1) <= abs(delta)\n        index[pv] -= 1\n", "        pv = abs(delta_1) <= abs(delta)\n        np.subtract(index, 1, out=index, where=pv)\n",
     "fixtime: masked decrement as a ufunc with out= / where="),
    ("C19", "break", ["C19-R5"], D, "        pv = abs(delta_1) <= abs(delta)\n        index[pv] -= 1\n", "        pv = abs(delta_1) <= abs(delta)\n        np.subtract(index, 1, out=index, where=~pv)\n",
     "fixtime: ufunc decrement under the complemented mask"),
    ("C19", "neutral", [], D, "        index = np.searchsorted(told, tnew, side=\"right\") - 1\n        index[index < 0] = 0\n",
     "        index = np.searchsorted(told, tnew, side=\"right\")\n        index -= 1\n        np.maximum(index, 0, out=index)\n", "fixtime: previous-sample clamp with np.maximum(out=)"),
    ("C19", "neutral", [], D, "        index[index == lold] = lold - 1\n", "        index = index.clip(max=lold - 1)\n", "fixtime: clamp with the clip method and a keyword"),
    ("C19", "break", ["C19-R5"], D, "        index[index == lold] = lold - 1\n", "        index = index.clip(max=lold)\n", "fixtime: clip that leaves the insertion point len(told)"),
    ("C19", "neutral", [], D, "tnew = np.arange(L) / sr + told[0]", "tnew = np.arange(0, L, 1) / sr + told[0]", "fixtime: arange with explicit start and step"),
    ("C19", "neutral", [], D, _FX_DISPATCH, _FX_DISPATCH_LAMBDA, "fixtime: the search bound to a lambda in each arm"),
    ("C19", "neutral", [], D, _FX_RETURN, _FX_RETURN_STAR, "fixtime: _return called with *args and **kwargs"),
    ("C19", "neutral", [], D, _NB_NEAR_LOOP, _nb_near(), "fixtime: loop variant of the nearest search with enumerate(..., 1) and a while loop for the advance"),
    ("C19", "break", ["C19-R5"], D, _NB_NEAR_LOOP, _nb_near(tie="<"), "fixtime: while-loop variant with the tie going to the later sample"),
    ("C19", "break", ["C19-R5"], D, _NB_NEAR_LOOP, _nb_near(test="told[i + 1] >= v"), "fixtime: while-loop variant that stops one sample early"),
    ("C19", "neutral", [], D, _NB_PREV_LOOP, _nb_prev(), "fixtime: loop variant of the previous-sample search as nested while loops (while True / break)"),
    ("C19", "break", ["C19-R5"], D, _NB_PREV_LOOP, _nb_prev(test="told[i] >= v"), "fixtime: while-loop variant of the previous-sample search that takes the sample before a coinciding one (F18 in the loop variant)"),
    ("C19", "break", ["C19-R5"], D, "            for i in range(i, lold):\n                if told[i] > v:\n                    break\n            else:\n                i = lold\n",
     "            for i in range(i, lold):\n                if told[i] >= v:\n                    break\n            else:\n                i = lold\n",
     "fixtime: loop variant of the previous-sample search at an exactly coinciding time (F18 in the loop variant)"),
    ("C19", "neutral", [], D, _RS_PAD_CAT, _rs_np_pad(), "resample: padding with np.pad along the last axis (pad width built by list repetition)"),
    ("C19", "break", ["C19-R3"], D, _RS_PAD_CAT, _rs_np_pad("nz - 1"), "resample: np.pad with one zero too few behind the signal"),
    ("C19", "neutral", [], P, _AREA_HEAD, "    for i, (f1, f2) in enumerate(zip(Freq, Freq[1:])):\n", "area: segments from zip(Freq, Freq[1:]) (zip stops at the shorter argument)"),
    ("C19", "break", ["C19-R1"], P, _AREA_HEAD, "    for i, (f1, f2) in enumerate(zip(Freq, Freq[2:])):\n", "area: end points two break points apart"),
    ("C19", "neutral", [], P, _RC_LOOP, _RC_LOOP.split("    for i in range(cols):")[0] + _RC_PAIR_LOOP, "rescale: inner loop over (array, edges) pairs - the arrays written through another name"),
    ("C19", "break", ["C19-R4"], P, _RC_LOOP, _RC_LOOP.split("    for i in range(cols):")[0] + _RC_PAIR_LOOP.replace("((cal, FL), (cau, FU))", "((cal, FU), (cau, FL))"),
     "rescale: (array, edges) pairs crossed - band mean squares with the wrong sign"),
    ("C19", "neutral", [], P, _IP_ARMS, _ip_scale(), "interp: the axis scaling chosen once as a callable (identity lambda / np.log)"),
    ("C19", "break", ["C19-R2"], P, _IP_ARMS, _ip_scale("np.log10"), "interp: log10 on the way in, exp on the way out"),
    ("C19", "neutral", [], D, _RS_RETURN, _RS_RETURN_DICT, "resample: return values collected in a dict"),
    ("C19", "neutral", [], D, _FX_DISPATCH, "    finder = _find_closest_previous_times if hold_previous_value else _find_closest_times\n"
     "    index = finder(told - dt * previous_value_tol if hold_previous_value else told, tnew)\n", "fixtime: the search function chosen by a conditional expression"),
    ("C19", "break", ["C19-R5"], D, _FX_DISPATCH, "    finder = _find_closest_times if hold_previous_value else _find_closest_previous_times\n"
     "    index = finder(told - dt * previous_value_tol if hold_previous_value else told, tnew)\n", "fixtime: the two search functions exchanged"),
    ("C19", "neutral", [], P, "    ca = np.vstack((np.zeros((1, cols)), np.cumsum(Df * P, axis=0)))\n", "    ca = np.insert(np.cumsum(Df * P, axis=0), 0, 0.0, axis=0)\n", "rescale: zero row put in front with np.insert"),
    ("C19", "break", ["C19-R4"], P, "    ca = np.vstack((np.zeros((1, cols)), np.cumsum(Df * P, axis=0)))\n", "    ca = np.insert(np.cumsum(Df * P, axis=0), 0, 1.0, axis=0)\n", "rescale: a row of ones put in front of the cumulative curve"),
    ("C19", "neutral", [], P, _AREA_LOOPS, """    ncurves = PSD.shape[1]
    for i, j in ((i, j) for i in range(Freq.size - 1) for j in range(ncurves)):
        f1, f2 = Freq[i], Freq[i + 1]
        p1, p2 = PSD[i, j], PSD[i + 1, j]
        s1 = np.log(p2 / p1) / np.log(f2 / f1) + 1.0
        _area[j] += p1 * f1 * np.log(f2 / f1) if -1e-5 < s1 < 1e-5 else (f2 * p2 - f1 * p1) / s1
    return _area
""", "area: one loop over a generator of (segment, column) pairs"),
]


# ---- pass 4: the zero-stuffed buffer allocated and filled in a helper / from the centred array / sample by sample
_RS_STUFF = """    shape = [*data.shape]
    if p > 1:
        shape[-1] = ln * p
        updata1 = np.zeros(shape)
        updata1[..., ::p] = data - m
    else:
        updata1 = data - m
"""


def _rs_helper(first="", grow="step"):
    return f"""    def _insert_zeros(x, step):
        if step > 1:
            dims = [*x.shape]
            dims[-1] *= {grow}
            out = np.zeros(dims)
            out[..., {first}::step] = x
            return out
        return x

    shape = [*data.shape]
    updata1 = _insert_zeros(data - m, p)
"""


def _rs_centred(ext="x0.shape[-1] * p", red="np.mean(data, axis=-1, keepdims=True)"):
    return f"""    x0 = data - {red}
    shape = [*x0.shape]
    if p > 1:
        shape[-1] = {ext}
        updata1 = np.zeros(shape)
        updata1[..., ::p] = x0
    else:
        updata1 = x0
"""


def _rs_loop(pos="j * p", count="ln"):
    return f"""    shape = [*data.shape]
    if p > 1:
        shape[-1] = ln * p
        updata1 = np.zeros(shape)
        x0 = data - m
        for j in range({count}):
            updata1[..., {pos}] = x0[..., j]
    else:
        updata1 = data - m
"""


def _rs_pad_helper(slot="nz : nz + n : step"):
    return f"""    def _pad_and_stuff(x, step, nz):
        n = x.shape[-1] * step
        out = np.zeros((*x.shape[:-1], n + 2 * nz))
        out[..., {slot}] = x
        return out

    nz = M // 2
    updata1 = _pad_and_stuff(data - m, p, nz)
"""


RECIPES += [
    ("C19", "neutral", [], D, _RS_STUFF, _rs_helper(), "resample: the zero-stuffed buffer allocated and filled in a helper that sizes it from the centred array it is given (dims[-1] *= step)"),
    ("C19", "break", ["C19-R3"], D, _RS_STUFF, _rs_helper(first="1"), "resample: helper that stores the samples one slot late"),
    ("C19", "neutral", [], D, _RS_STUFF, _rs_centred(), "resample: buffer shape taken from the centred array (data - mean keeps the shape of data: broadcasting)"),
    ("C19", "neutral", [], D, _RS_STUFF, _rs_centred(red="data.mean(axis=-1)[..., None]"), "resample: mean as data.mean(axis=-1)[..., None], buffer shape from the centred array"),
    ("C19", "break", ["C19-R3"], D, _RS_STUFF, _rs_centred(red="np.mean(data, axis=0, keepdims=True)"), "resample: centred with the mean along the first axis (buffer shape from the centred array)"),
    ("C19", "neutral", [], D, _RS_STUFF, _rs_loop(), "resample: zero buffer filled sample by sample in a counted loop"),
    ("C19", "break", ["C19-R3"], D, _RS_STUFF, _rs_loop(pos="j * p + 1"), "resample: loop that stores sample j one slot late"),
    ("C19", "break", ["C19-R3"], D, _RS_STUFF, _rs_loop(pos="j * q"), "resample: loop that stores sample j at slot j q"),
    ("C19", "neutral", [], D, _RS_STUFF_PAD, _rs_pad_helper(), "resample: one helper allocates the padded buffer and stores the samples (nz : nz + n : step)"),
    ("C19", "break", ["C19-R3"], D, _RS_STUFF_PAD, _rs_pad_helper(slot="nz + 1 : nz + 1 + n : step"), "resample: padded buffer built in a helper, samples one slot late"),
]


_RS_TAIL = """    updata = signal.lfilter(fir, 1, updata1, axis=-1)
    updata = updata[..., M:]

    # downsample:
    n = int(np.ceil(ln * p / q))
    if q > 1:
        shape[-1] = n
        RData = np.zeros(shape)
        RData = updata[..., ::q] + m
    else:
        RData = updata + m
"""


def _rs_mean_first(start="M"):
    return f"""    updata = signal.lfilter(fir, [1.0], updata1) + m
    n = int(np.ceil(ln * p / q))
    RData = updata[..., {start}::q]
"""


RECIPES += [
    ("C19", "neutral", [], D, _RS_TAIL, _rs_mean_first(), "resample: the mean added to the filter output before lag removal and decimation in one slice (broadcasting comes first)"),
    ("C19", "break", ["C19-R3"], D, _RS_TAIL, _rs_mean_first("M + 1"), "resample: mean added first, lag slice one sample late"),
    ("C19", "neutral", [], D, "        updata1 = np.zeros(shape)\n", "        updata1 = np.empty(shape)\n        updata1[...] = 0.0\n", "resample: buffer allocated with np.empty and zeroed as a whole"),
    ("C19", "break", ["C19-R3"], D, "        updata1 = np.zeros(shape)\n", "        updata1 = np.empty(shape)\n", "resample: samples stuffed into an uninitialised buffer"),
    ("C19", "neutral", [], D, "        updata1 = np.zeros(shape)\n", "        updata1 = np.zeros_like(data, shape=shape, dtype=float)\n", "resample: buffer from np.zeros_like(data, shape=...)"),
]


def _area_curve(start="0.0", store="_area[j]", nseg="Freq.size - 1"):
    return f"""    def _curve_area(p):
        total = {start}
        for i in range({nseg}):
            f1, f2 = Freq[i], Freq[i + 1]
            p1, p2 = p[i], p[i + 1]
            s = np.log(p2 / p1) / np.log(f2 / f1)
            if abs(s + 1.0) < 1e-5:
                total += p1 * f1 * np.log(f2 / f1)
            else:
                total += (f2 * p2 - f1 * p1) / (s + 1.0)
        return total

    for j in range(PSD.shape[1]):
        {store} = _curve_area(PSD[:, j])
    return _area
"""


RECIPES += [
    ("C19", "neutral", [], P, _AREA_LOOPS, _area_curve(), "area: one curve at a time - a helper sums the segment areas of a column into a scalar that starts from 0, the result is stored under the column index"),
    ("C19", "break", ["C19-R1"], P, _AREA_LOOPS, _area_curve(start="1.0"), "area: per-curve scalar accumulator that starts from 1"),
    ("C19", "break", ["C19-R1"], P, _AREA_LOOPS, _area_curve(store="_area[0]"), "area: every curve's area stored in element 0"),
    ("C19", "break", ["C19-R1"], P, _AREA_LOOPS, _area_curve(nseg="Freq.size - 2"), "area: per-curve helper that leaves out the last segment"),
]


def _rc_empty(trip="cols", row=":"):
    return f"""    nb = len(FL)
    cal = np.empty((nb, cols))
    cau = np.empty((nb, cols))
    for i in range({trip}):
        cal[{row}, i] = np.interp(FL, Fa, ca[:, i])
        cau[{row}, i] = np.interp(FU, Fa, ca[:, i])
"""


_IP_TAIL = """        psdfull = ifunc(np.log(freq))
        pv = (freq >= Freq[0]) & (freq <= Freq[-1])
        psdfull[pv] = np.exp(psdfull[pv])
"""

RECIPES += [
    ("C19", "neutral", [], P, _RC_LOOP, _rc_empty(), "rescale: the two band-edge arrays allocated with np.empty (every column is overwritten in the loop over all columns)"),
    ("C19", "break", ["C19-R4"], P, _RC_LOOP, _rc_empty(trip="cols - 1"), "rescale: uninitialised arrays, the last column never written"),
    ("C19", "neutral", [], P, _IP_TAIL, "        psdfull = ifunc(np.log(freq))\n        inside = ~((freq < Freq[0]) | (freq > Freq[-1]))\n        psdfull[inside] = np.exp(psdfull[inside])\n",
     "interp: in-range mask written as the complement of the two out-of-range tests"),
    ("C19", "break", ["C19-R2"], P, _IP_TAIL, "        psdfull = np.exp(ifunc(np.log(freq)))\n", "interp: exp of every result, in range or not (out-of-range gives 1)"),
]
