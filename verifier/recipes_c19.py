"""C19 self-test recipes in addition to the table in selftest.py: (property, "break" | "neutral", expected rules, file, old text, new text, description).
Every old text occurs exactly once in its file.  The neutral recipes are refactorings the value-based rules are meant to be blind to (names,
temporaries, loop form and order, control-flow shape, numpy spellings, helper extraction); the break recipes arm the obligations that were
re-expressed or added when the rules were rewritten on values and roles."""

P = "pyyeti/psd.py"
D = "pyyeti/dsp.py"

_AREA_LOOPS = '''    for i in range(Freq.size - 1):
        f1 = Freq[i]
        f2 = Freq[i + 1]
        for j in range(PSD.shape[1]):
            p1 = PSD[i, j]
            p2 = PSD[i + 1, j]

            s = np.log(p2 / p1) / np.log(f2 / f1)
            if abs(s + 1.0) < 1e-5:
                # happens when p2/p1 = f1/f2
                #   slope = -10*log10(2) db/octave
                intarea = p1 * f1 * np.log(f2 / f1)
            else:
                intarea = (f2 * p2 - f1 * p1) / (s + 1.0)
            _area[j] += intarea
    return _area
'''

_AREA_SWAPPED = '''    ncurves = PSD.shape[1]
    for curve in range(ncurves):
        column = PSD[:, curve]
        for hi in range(1, len(Freq)):
            lo = hi - 1
            fa, fb = Freq[lo], Freq[hi]
            pa, pb = column[lo], column[hi]
            slope1 = np.log(pb / pa) / np.log(fb / fa) + 1.0
            if slope1 <= -1e-5 or slope1 >= 1e-5:
                _area[curve] = _area[curve] + (fb * pb - fa * pa) / slope1
                continue
            _area[curve] = _area[curve] + pa * fa * np.log(fb / fa)
    return _area
'''

_AREA_ZIP = '''    for i, (f1, f2) in enumerate(zip(Freq[:-1], Freq[1:])):
        logf = np.log(f2 / f1)
        for j in range(PSD.shape[1]):
            p1, p2 = PSD[i : i + 2, j]
            sp1 = np.log(p2 / p1) / logf + 1.0
            _area[j] += p1 * f1 * logf if -1e-5 < sp1 < 1e-5 else (f2 * p2 - f1 * p1) / sp1
    return _area
'''

_AREA_VECTOR = '''    for k in range(Freq.size - 1):
        fa, fb = Freq[k], Freq[k + 1]
        pa, pb = PSD[k], PSD[k + 1]
        slope = np.log(pb / pa) / np.log(fb / fa)
        special = np.abs(slope + 1.0) < 1e-5
        _area += np.where(special, pa * fa * np.log(fb / fa), (fb * pb - fa * pa) / (slope + 1.0))
    return _area
'''

_RC_LOOP = '''    cal = np.zeros((len(FL), cols))
    cau = np.zeros((len(FL), cols))
    for i in range(cols):
        # with np.interp, interpolating cumulative area beyond end
        # points will take the end value -- that's perfect here: 0's
        # on the front, total area on the back
        cal[:, i] = np.interp(FL, Fa, ca[:, i])
        cau[:, i] = np.interp(FU, Fa, ca[:, i])
'''

_RC_COMP = '''    cal = np.column_stack([np.interp(FL, Fa, c) for c in ca.T])
    cau = np.array([np.interp(x=FU, xp=Fa, fp=ca[:, i]) for i in range(cols)]).T
'''

_INTERP_LOG = '''        psdfull = ifunc(np.log(freq))
        pv = (freq >= Freq[0]) & (freq <= Freq[-1])
        psdfull[pv] = np.exp(psdfull[pv])
'''

_INTERP_WHERE = '''        logp = ifunc(np.log(freq))
        inside = np.logical_and(Freq[0] <= freq, Freq[-1] >= freq)
        psdfull = np.where(inside, np.exp(logp), 0)
'''

_INTERP_OUTSIDE = '''        psdfull = np.exp(ifunc(np.log(freq)))
        inside = (freq >= Freq[0]) & (freq <= Freq[-1])
        psdfull[~inside] = 0
'''

_RS_LAG = '''    nz = M // 2
    shape[-1] = nz
    z = np.zeros(shape)
    updata1 = np.concatenate((z, updata1, z), axis=-1)
    updata = signal.lfilter(fir, 1, updata1, axis=-1)
    updata = updata[..., M:]

    # downsample:
    n = int(np.ceil(ln * p / q))
    if q > 1:
        shape[-1] = n
        RData = np.zeros(shape)
        RData = updata[..., ::q] + m
    else:
        RData = updata + m
'''

_RS_LAG_DIRECT = '''    half = pts * max(p, q)
    pad = np.zeros(shape[:-1] + [half])
    filtered = signal.lfilter(fir, [1.0], np.concatenate([pad, updata1, pad], -1))
    n = math.ceil(ln * p / q)
    RData = m + filtered[..., 2 * half :: q]
'''

_RS_LAG_STOP = '''    nz = M // 2
    shape[-1] = nz
    z = np.zeros(shape)
    updata = signal.lfilter(fir, 1, np.concatenate((z, updata1, z), axis=-1), axis=-1)
    n = int(np.ceil(ln * p / q))
    RData = updata[..., M : M + ln * p : q] + m
'''

_RC_CLAMP = '''        fl = FL[0]
        fu = FU[-1]
        if FL[0] < FLin[0]:
            FL[0] = FLin[0]
        if FU[-1] > FUin[-1]:
            FU[-1] = FUin[-1]
'''

_RC_CLAMP_MAX = '''        fl, fu = FL[0], FU[-1]
        FL[0] = max(FL[0], FLin[0])
        FU[-1] = np.minimum(FUin[-1], FU[-1])
'''

RECIPES = [
    # ------------------------------------------------------------------ neutral: the rules are blind to these
    ("C19", "neutral", [], P, _AREA_LOOPS, _AREA_SWAPPED, "area: column loop outside, segments as range(1, len), or-form of the selector with the general arm first, continue"),
    ("C19", "neutral", [], P, _AREA_LOOPS, _AREA_ZIP, "area: enumerate(zip(Freq[:-1], Freq[1:])), slice unpacking, conditional expression, chained comparison"),
    ("C19", "neutral", [], P, _INTERP_LOG, _INTERP_WHERE, "interp: np.where(in range, exp, 0) instead of the masked store"),
    ("C19", "neutral", [], P, _INTERP_LOG, _INTERP_OUTSIDE, "interp: exp of everything, out-of-range zeroed afterwards"),
    ("C19", "neutral", [], D, _RS_LAG, _RS_LAG_DIRECT, "resample: lag and decimation in one slice M::q, padding pts*max(p, q), positional axis, one arm for every q"),
    ("C19", "neutral", [], D, _RS_LAG, _RS_LAG_STOP, "resample: explicit stop M + ln p of the retained slice"),
    ("C19", "neutral", [], P, _RC_CLAMP, _RC_CLAMP_MAX, "rescale: outer edges clamped with max / np.minimum"),
    ("C19", "neutral", [], P, "    psdoct = ms * (1 / (FU - FL).reshape(-1, 1))", "    psdoct = ms / (FU - FL)[:, np.newaxis]", "rescale: division by the column of widths"),
    ("C19", "neutral", [], P, _AREA_LOOPS, _AREA_VECTOR, "area: all columns at once (rows of the PSD array, np.where for the selector)"),
    ("C19", "neutral", [], P, _RC_LOOP, _RC_COMP, "rescale: the two column loops as comprehensions (column_stack / array(...).T), keyword arguments"),
    ("C19", "neutral", [], D, "    m = np.mean(data, axis=-1, keepdims=True)", "    m = data.mean(-1)[..., None]", "resample: mean along the last axis with a new trailing axis"),
    ("C19", "neutral", [], D, "    w = signal.windows.kaiser(M + 1, beta)", "    w = signal.kaiser(M + 1, beta=beta)", "resample: window through another import path, keyword argument"),
    ("C19", "neutral", [], D, "    n = int(np.ceil(ln * p / q))", "    n = -(-ln * p // q)", "resample: ceiling division idiom"),
    ("C19", "neutral", [], D, "        shape[-1] = ln * p\n        updata1 = np.zeros(shape)", "        updata1 = np.zeros((*data.shape[:-1], ln * p))", "resample: shape of the stuffed array as a tuple display"),
    ("C19", "neutral", [], P, "    _area = np.zeros(PSD.shape[1])", "    _area = np.zeros_like(PSD[0])", "area: accumulator created with zeros_like of a row"),
    # ------------------------------------------------------------------ break: re-expressed / new obligations
    ("C19", "break", ["C19-R1"], P, "    _area = np.zeros(PSD.shape[1])", "    _area = np.ones(PSD.shape[1])", "area accumulator does not start from zero"),
    ("C19", "break", ["C19-R1"], P, "            p2 = PSD[i + 1, j]", "            p2 = PSD[i + 1, 0]", "area: end point taken from another column"),
    ("C19", "break", ["C19-R1"], P, "            _area[j] += intarea", "            _area[j] = intarea", "area: segment areas not accumulated"),
    ("C19", "break", ["C19-R1"], P, "abs(s + 1.0) < 1e-5", "abs(s + 1.0) < 1e-2", "area: wide window around the singular slope"),
    ("C19", "break", ["C19-R1"], P, "abs(s + 1.0) < 1e-5", "abs(s + 0.9966) < 1e-5", "area: window centred on -3 dB/octave instead of the pole"),
    ("C19", "break", ["C19-R2"], P, "        pv = (freq >= Freq[0]) & (freq <= Freq[-1])", "        pv = (freq > Freq[0]) & (freq <= Freq[-1])",
     "interp: the first specification frequency is out of range"),
    ("C19", "break", ["C19-R2"], P, "        psdfull[pv] = np.exp(psdfull[pv])", "        psdfull[pv] = np.exp(psdfull)[pv] + 0 * psdfull[pv] ** 2", "interp: other value stored"),
    ("C19", "break", ["C19-R3"], D, "        updata1[..., ::p] = data - m", "        updata1[..., 1::p] = data - m", "resample: samples stuffed one slot late"),
    ("C19", "break", ["C19-R3"], D, "    nz = M // 2\n", "    nz = M // 2 + 1\n", "resample: one zero too many at both ends"),
    ("C19", "break", ["C19-R3"], D, "    gf = math.gcd(p, q)", "    gf = 1", "resample: ratio not reduced"),
    ("C19", "break", ["C19-R3"], D, "        RData = updata[..., ::q] + m", "        RData = updata[..., ::q]", "resample: mean not added back"),
    ("C19", "break", ["C19-R3"], D, "    tnew = np.arange(n) * (t[1] - t[0]) * ln / n + t[0]", "    tnew = np.arange(n) * (t[1] - t[0]) * ln / (n - 1) + t[0]", "resample: time step of the output"),
    ("C19", "break", ["C19-R3"], D, "    updata = updata[..., M:]\n", "    updata = updata[..., nz:]\n", "resample: only the padding removed, not the FIR delay"),
    ("C19", "break", ["C19-R4"], P, "        cal[:, i] = np.interp(FL, Fa, ca[:, i])", "        cal[:, i] = np.interp(FL, Fa, ca[:, 0])", "rescale: lower edges always use the first column's curve"),
    ("C19", "break", ["C19-R4"], P, "        FL[0] = fl\n", "        pass\n", "rescale: nominal lower edge not restored"),
    ("C19", "break", ["C19-R4"], P, "    ca = np.vstack((np.zeros((1, cols)), np.cumsum(Df * P, axis=0)))", "    ca = np.hstack((np.zeros((1, cols)), np.cumsum(Df * P, axis=0)))",
     "rescale: cumulative curve stacked along the wrong axis"),
    ("C19", "break", ["C19-R3"], D, "    m = np.mean(data, axis=-1, keepdims=True)", "    m = np.mean(data, axis=0, keepdims=True)", "resample: mean along the wrong axis"),
    ("C19", "break", ["C19-R4"], P, "    ca = np.vstack((np.zeros((1, cols)), np.cumsum(Df * P, axis=0)))", "    ca = np.vstack((Df[:1] * P[:1], np.cumsum(Df * P, axis=0)))",
     "rescale: cumulative curve does not start from zero"),
    ("C19", "break", ["C19-R4"], P, "    psdoct = ms * (1 / (FU - FL).reshape(-1, 1))", "    psdoct = ms * (1 / np.diff(np.hstack((FL, FU[-1]))).reshape(-1, 1))",
     "rescale: divided by the distance to the next lower edge, not by the band's own width"),
    # ------------------------------------------------------------------ pass 2: R1 scale invariance of the selector, R5 fixtime
    ("C19", "break", ["C19-R1"], P, "            if abs(s + 1.0) < 1e-5:", "            if np.isclose(f2 * p2, f1 * p1):",
     "area: s = -1 selected by isclose on f p (absolute tolerance 1e-8 on a quantity that scales with the PSD level; round-3 seed F)"),
    ("C19", "break", ["C19-R1"], P, "            if abs(s + 1.0) < 1e-5:", "            if abs(f2 * p2 - f1 * p1) < 1e-9:", "area: absolute tolerance on f2 p2 - f1 p1"),
    ("C19", "break", ["C19-R1"], P, "            if abs(s + 1.0) < 1e-5:", "            if abs(s + 1.0) < 1e-5 or p1 < 1e-30:", "area: limit formula forced for tiny PSD values"),
    ("C19", "neutral", [], P, "            if abs(s + 1.0) < 1e-5:", "            if np.isclose(s, -1.0, rtol=0, atol=1e-5):", "area: the window on the slope written with isclose (absolute tolerance on the slope itself)"),
    ("C19", "break", ["C19-R5"], D, "        index = np.searchsorted(told, tnew)\n        # told[index]", "        index = np.searchsorted(tnew, told)\n        # told[index]",
     "fixtime: searchsorted arguments swapped in the nearest search"),
    ("C19", "break", ["C19-R5"], D, "pv = abs(delta_1) <= abs(delta)", "pv = abs(delta_1) < abs(delta)", "fixtime: tie goes to the later sample in the numpy variant only"),
    ("C19", "break", ["C19-R5"], D, "            if i > 0 and v - told[i - 1] <= told[i] - v:\n                index[j] = i - 1", "            if i > 0 and v - told[i - 1] < told[i] - v:\n                index[j] = i - 1",
     "fixtime: tie goes to the later sample in the numba variant only"),
    ("C19", "break", ["C19-R5"], D, "index[index == lold] = lold - 1", "index[index == lold] = lold", "fixtime: insertion point len(told) not clamped to the last sample"),
    ("C19", "break", ["C19-R5"], D, "index[pv] -= 1", "index[pv] -= 2", "fixtime: two steps back instead of one"),
    ("C19", "break", ["C19-R5"], D, "        tnew += delt\n    return tnew, tp", "        tnew += np.linspace(0.0, delt, L)\n    return tnew, tp", "fixtime: a vector (ramp) is added to the time base"),
    ("C19", "break", ["C19-R5"], D, "        tnew += delt\n    return tnew, tp", "        tnew += delt * np.arange(L) / L\n    return tnew, tp", "fixtime: the time base is stretched (step no longer 1 / sr)"),
    ("C19", "break", ["C19-R5"], D, "    else:\n        index = _find_closest_times(told, tnew)",
     "    elif len(tp) == 2 and len(tnew) == len(told):\n        index = np.arange(len(told))\n    else:\n        index = _find_closest_times(told, tnew)",
     "fixtime: one-to-one fast path guarded by the number of turning points and the lengths (round-3 seed H)"),
    ("C19", "break", ["C19-R5"], D, "    else:\n        index = _find_closest_times(told, tnew)",
     "    elif len(tnew) == len(told):\n        index = np.arange(len(told))\n    else:\n        index = _find_closest_times(told, tnew)", "fixtime: one-to-one fast path guarded by the lengths only"),
    ("C19", "break", ["C19-R5"], D, "    newdata = olddata[index]\n", "    newdata = olddata[index] if len(tnew) != len(told) else olddata[:]\n", "fixtime: data copied through when the lengths agree"),
    ("C19", "break", ["C19-R5"], D, "    # build a best-fit index by finding closest new time (no\n",
     "    if len(tp) == 2:\n        return _return(told, olddata, alldrops, sr_stats, tp, getall, return_ndarray, despike_info)\n    # build a best-fit index by finding closest new time (no\n",
     "fixtime: input returned as it is when there are no turning points"),
    ("C19", "break", ["C19-R5"], D, "        index = np.searchsorted(told, tnew) - 1\n        index[index < 0] = 0", "        index = np.searchsorted(told, tnew)\n        index[index < 0] = 0",
     "fixtime: previous-sample search returns the next sample"),
    ("C19", "break", ["C19-R5"], D, "index = _find_closest_previous_times(told - dt * previous_value_tol, tnew)", "index = _find_closest_previous_times(told + dt * previous_value_tol, tnew)",
     "fixtime: tolerance of the previous-sample search applied with the wrong sign"),
    ("C19", "break", ["C19-R5"], D, "        tnew += t1\n", "        tnew -= t1\n", "fixtime: base shift with the wrong sign"),
    ("C19", "break", ["C19-R5"], D, "L = int(round((told[-1] - told[0]) * sr)) + 1", "L = int(round((told[-1] - told[0]) * sr))", "fixtime: the new time base stops one sample short of the input"),
    ("C19", "break", ["C19-R5"], D, "        pv = abs(delta_1) <= abs(delta)\n        index[pv] -= 1\n        return index", "        return np.where(abs(delta) > abs(delta_1), index - 1, index)",
     "fixtime: np.where form of the one-step-earlier test with the tie dropped"),
    ("C19", "neutral", [], D, "    else:\n        index = _find_closest_times(told, tnew)", "    else:\n        nearest_of = _find_closest_times\n        index = nearest_of(told, tnew)",
     "fixtime: the search function called through a local alias"),
    ("C19", "neutral", [], D, "    else:\n        index = _find_closest_times(told, tnew)",
     "    else:\n        index = np.searchsorted(told, tnew)\n        index[index == len(told)] = len(told) - 1\n        earlier = abs(told[index - 1] - tnew) <= abs(told[index] - tnew)\n        index[earlier] -= 1",
     "fixtime: nearest search inlined into fixtime"),
    ("C19", "neutral", [], D, "    newdata = olddata[index]\n", "    picked = index\n    newdata = np.take(olddata, picked, axis=0)\n", "fixtime: index in a temporary, data taken with np.take"),
    ("C19", "neutral", [], D, "        pv = abs(delta_1) <= abs(delta)\n        index[pv] -= 1\n        return index", "        return np.where(abs(delta) >= abs(delta_1), index - 1, index)",
     "fixtime: one-step-earlier test as np.where with the comparison turned round"),
    ("C19", "neutral", [], D, "        index[index == lold] = lold - 1\n", "        index = np.minimum(index, lold - 1)\n", "fixtime: clamp written with np.minimum"),
    ("C19", "neutral", [], D, "tnew = np.arange(L) / sr + told[0]", "tnew = told[0] + dt * np.arange(L)", "fixtime: time base written as told[0] + dt * arange(L)"),
    ("C19", "neutral", [], D, "    else:\n        index = _find_closest_times(told, tnew)",
     "    elif len(tnew) == len(told) and np.array_equal(told, tnew):\n        index = np.arange(len(told))\n    else:\n        index = _find_closest_times(told, tnew)",
     "fixtime: one-to-one fast path established by an element-wise comparison of old and new times"),
    ("C19", "neutral", [], D, "        index = _find_closest_times(told, tnew)", "        index = _find_closest_times(tnew=tnew, told=told)", "fixtime: search called with keywords in the other order"),
    ("C19", "neutral", [], D, "        index = np.searchsorted(told, tnew) - 1\n        index[index < 0] = 0\n        return index", "        return np.clip(np.searchsorted(told, tnew) - 1, 0, None)",
     "fixtime: previous-sample search clamped with np.clip"),
    ("C19", "neutral", [], D, "        tnew += delt\n    return tnew, tp", "        tnew = tnew + delt\n    return tnew, tp", "fixtime: alignment shift by rebinding instead of in place"),
    ("C19", "neutral", [], D, "        tnew += t1\n", "        tnew = tnew + t1\n", "fixtime: base shift by rebinding instead of in place"),
    ("C19", "neutral", [], D, "    updata = signal.lfilter(fir, 1, updata1, axis=-1)\n    updata = updata[..., M:]\n", "    updata = signal.lfilter(fir, 1, updata1, axis=-1)[..., M:]\n",
     "resample: filter call and lag removal chained"),
    ("C19", "break", ["C19-R5"], D, "    newdata = olddata[index]\n", "    newdata = olddata[np.minimum(index + 1, len(told) - 1)]\n", "fixtime: the sample after the nearest one is returned"),
    ("C19", "break", ["C19-R5"], D, "        if i > 0 and v - told[i - 1] <= told[i] - v:\n            index[0] = i - 1", "        if i > 0 and v - told[i - 1] < told[i] - v:\n            index[0] = i - 1",
     "fixtime: numba variant, tie rule of the first new time only"),
    ("C19", "break", ["C19-R5"], D, "            if i > 0 and v - told[i - 1] <= told[i] - v:\n                index[j] = i - 1", "            if i > 0 and v - told[i - 1] <= told[i] - v:\n                index[j] = i + 1",
     "fixtime: numba variant steps forward instead of back"),
    ("C19", "break", ["C19-R5"], "pyyeti/dsp.py", "        index = np.searchsorted(told, tnew, side=\"right\") - 1\n", "        index = np.searchsorted(told, tnew) - 1\n", "previous-sample search with the left insertion point (finding F18 re-introduced)"),
]
