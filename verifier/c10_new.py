"""C10 -- cycle-counting pipeline and fatigue-damage PSD bookkeeping (thin partial claim).

Every rule is decided on values: the anchored functions are evaluated on symbols (verifier/c10_sem.py, an extension of
e2_eval.AutoEvaluator / sem.Sem) and an obligation compares what reaches a store, a call argument, a return or a branch test with the
expected value, or evaluates a guard's truth table on a small numeric model.  Locals' names, temporaries, if/else order, early returns,
helpers extracted or inlined, loops vs comprehensions, keyword vs positional arguments and equivalent numpy spellings do not matter."""
from __future__ import annotations

import ast
from fractions import Fraction

from . import e2_formula as F
from .core import AnchorError, Unsupported
from .e2_eval import is_unknown, need
from .sem import module_funcs, place
from .c10_sem import (XSem, Facts, Degrees, ANY, truth, same, app, head, sym_of, const_of, walk, apps, peel, depends, conj, wrap,
                      module_consts, str_parts, single_atom, TRUE, FALSE, NONE)

CYC = "pyyeti/cyclecount.py"
LOC = "pyyeti/locate.py"
FDE = "pyyeti/fdepsd.py"
SRS = "pyyeti/srs.py"


def params(fn):
    a = fn.args
    return [x.arg for x in a.posonlyargs + a.args]


def call_value(c):
    """the value AutoEvaluator gives an opaque call, rebuilt from a recorded call (name, positional, keywords, node, ...)"""
    args = [wrap(v) for v in c[1]]
    for k in c[3].keywords:
        if k.arg is not None:
            args.append(F.fn("kw:" + k.arg, wrap(c[2][k.arg])))
    return F.fn("call:" + c[0], *args)


def placed(c, names):
    return place(c[1], c[2], names)


def call_args(u):
    """(positional values, {keyword: value}) of an opaque application's argument list"""
    pos, kw = [], {}
    for a in u[1]:
        k = app(a) if not isinstance(a, str) else None
        if k is not None and k[0].startswith("kw:"):
            kw[k[0][3:]] = k[1][0]
        else:
            pos.append(a)
    return pos, kw


def short(v, n=300):
    r = repr(v)
    return r if len(r) <= n else r[:n] + "..."


# ======================================================================================================================= R5
def _getbins_facts(S0, right, vector, lo=0, hi=10, b0=None, bn=None, check=True, increasing=True):
    E = S0.E
    truths = [(E("right"), right), (E("check_bounds"), check)]
    f = Facts(truths=truths)
    for text, x in (("mx", hi), ("mn", lo), ("bins.size", 5 if vector else 1), ("len(bins)", 5 if vector else 1), ("bins.ndim", 1),
                    ("bins[1:]", 6 if increasing else 5), ("bins[:-1]", 5)):
        f.num_set(E(text), x)
    if b0 is not None:
        f.num_set(E("bins[0]"), b0)
        f.num_set(E("bins[-1]"), bn)
    return f


def r5_binify_guards(ctx):
    """numpy.digitize(x, b, right) - 1 is a valid bin index iff  b[0] < x <= b[-1] (right=True)  /  b[0] <= x < b[-1] (right=False).
    getbins' out-of-bounds verdict must be the exact complement, because binify drops the index guard when it says 'in bounds'."""
    consts = module_consts(ctx, CYC)
    table = module_funcs(ctx, CYC)
    fn = ctx.src.func(CYC, "getbins")
    if params(fn)[:5] != ["bins", "mx", "mn", "right", "check_bounds"]:
        raise AnchorError("getbins(bins, mx, mn, right, check_bounds)")
    inl = {k: v for k, v in table.items() if k not in ("getbins",)}
    S0 = XSem(ctx, fn, run=False, consts=consts)
    # ---- explicit (vector) bins: the verdict as a truth table over the position of mn relative to the first and of mx relative to the last edge
    for right in (True, False):
        S = XSem(ctx, fn, facts=_getbins_facts(S0, right, True), inline=inl, consts=consts)
        ret = S.ret()
        label = "(b0, b1] ... right-closed" if right else "[b0, b1) ... left-closed"
        if not isinstance(ret, tuple) or len(ret) != 2 or S.tr.raises:
            ctx.error(f"getbins (right={right}): with check_bounds the result is (edges, out-of-bounds verdict)", S.ret_node(), short(ret))
            continue
        edges, verdict = S.deref(ret[0]), S.deref(ret[1])
        ok = same(edges, S0.E("bins"))
        ctx.check(ok, f"getbins (right={right}): explicit bins are returned as given", S.ret_node(), None if ok else short(edges), nontrivial=False)
        tab = {}
        for pl, b0 in (("below", 1), ("on", 0), ("above", -1)):          # mn = 0 relative to the first edge b0
            for ph, bn in (("below", 11), ("on", 10), ("above", 9)):      # mx = 10 relative to the last edge bn
                tab[(pl, ph)] = truth(verdict, _getbins_facts(S0, right, True, b0=b0, bn=bn))
        if any(v is None for v in tab.values()):
            ctx.error(f"getbins (right={right}): the out-of-bounds verdict is not a function of (mn vs first edge, mx vs last edge)", S.ret_node(), short(verdict))
            continue
        lo_out = {"below": True, "on": right, "above": False}
        hi_out = {"below": False, "on": not right, "above": True}
        got = {p: tab[(p, "below")] for p in lo_out}
        ok = got == lo_out
        ctx.check(ok, f"getbins (right={right}, bins {label}): the smallest value is out of bounds exactly when it falls {'on or ' if right else ''}below the first edge",
                  S.ret_node(), None if ok else {"verdict by position of mn (mx inside)": got, "expected": lo_out, "verdict": short(verdict),
                                                 "consequence": "a value on the open edge is reported in bounds; binify then skips the index guard and digitize - 1 = -1 wraps into the last bin"})
        got = {p: tab[("above", p)] for p in hi_out}
        ok = got == hi_out
        ctx.check(ok, f"getbins (right={right}): the largest value is out of bounds exactly when it falls {'' if right else 'on or '}above the last edge",
                  S.ret_node(), None if ok else {"verdict by position of mx (mn inside)": got, "expected": hi_out, "verdict": short(verdict)})
        ok = all(tab[(pl, ph)] == (lo_out[pl] or hi_out[ph]) for pl in lo_out for ph in hi_out)
        ctx.check(ok, f"getbins (right={right}): the verdict is True on that test and False otherwise", S.ret_node(), None if ok else {str(k): v for k, v in tab.items()},
                  nontrivial=False)
    # ---- scalar bins: automatic edges cover the data; the open edge is widened on the side `right` selects
    oks = []
    for right in (True, False):
        S = XSem(ctx, fn, facts=_getbins_facts(S0, right, False), inline=inl, consts=consts)
        ret = S.ret()
        if not isinstance(ret, tuple) or len(ret) != 2:
            ctx.error(f"getbins (scalar bins, right={right}): result", S.ret_node(), short(ret))
            oks.append(None)
            continue
        arr = sym_of(ret[0])
        cells = S.cells(arr) if arr else []
        init = S.init(arr) if arr else None
        u = app(init, "call:np.linspace") if init is not None and not is_unknown(init) else None
        ok = u is not None and len(u[1]) >= 3 and same(u[1][0], S0.E("mn")) and same(u[1][1], S0.E("mx")) and truth(ret[1], None) is False
        moved = None
        if ok and len(cells) == 1 and not cells[0][4]["guard"] and const_of(cells[0][1]) == (0 if right else -1) and not is_unknown(cells[0][2]):
            try:
                shift = need(cells[0][2]) - F.fn("idx", F.sym(arr), cells[0][1])
                ms = [_getbins_facts(S0, right, False, lo=lo_, hi=hi_).num(shift) for lo_, hi_ in ((0, 10), (-7, 3), (2, 2000))]
                moved = None if any(m is None for m in ms) or len({m > 0 for m in ms} | {m < 0 for m in ms}) != 2 else ms[0]
            except Unsupported:
                moved = None
        if not ok or moved is None:
            oks.append(None if ok and len(cells) == 1 and const_of(cells[0][1]) == (0 if right else -1) and moved is None else False)
        else:
            oks.append(moved < 0 if right else moved > 0)
    if None in oks and False not in oks:
        ctx.error("getbins (scalar bins): the widening of the open edge could not be read as a multiple of (mx - mn)", fn)
    else:
        ctx.check(all(oks), "getbins (scalar bins): edges span [mn, mx], the open edge (first for right=True, last otherwise) is moved outward, and nothing is out of bounds", fn)
    # (mx, mn) given in the wrong order are swapped before use
    S = XSem(ctx, fn, facts=_getbins_facts(S0, True, False, lo=10, hi=0), inline=inl, consts=consts)
    ret = S.ret()
    arr = sym_of(ret[0]) if isinstance(ret, tuple) and ret else None
    u = app(S.init(arr), "call:np.linspace") if arr and S.init(arr) is not None and not is_unknown(S.init(arr)) else None
    fx = _getbins_facts(S0, True, False, lo=10, hi=0)
    ok = u is not None and len(u[1]) >= 2 and fx.num(u[1][0]) == 0 and fx.num(u[1][1]) == 10
    ctx.check(ok, "getbins: (mx, mn) are ordered before use", fn, nontrivial=False)
    S = XSem(ctx, fn, facts=_getbins_facts(S0, True, True, increasing=False), inline=inl, consts=consts)
    ok = bool(S.tr.raises) and not S.returns()
    ctx.check(ok, "getbins: explicit bins must be strictly increasing", fn, nontrivial=False)

    # ---- _binify
    fb = ctx.src.func(CYC, "_binify")
    pb = params(fb)
    if len(pb) != 5:
        raise AnchorError("_binify(cycles, bins_range, bins_mean, right, ensure_boundaries)")
    Sb0 = XSem(ctx, fb, run=False, consts=consts)
    binl = {k: v for k, v in table.items() if k not in ("_binify",)}
    acc = {}
    for ens in (True, False):
        S = XSem(ctx, fb, facts=Facts(truths=[(Sb0.E(pb[4]), ens)]), inline=binl, consts=consts)
        mat = sym_of(S.ret())
        cells = S.cells(mat) if mat else []
        if mat is None or len(cells) != 1:
            ctx.error(f"_binify ({'guarded' if ens else 'unguarded'} arm): one accumulation into the returned table", fb, short(S.ret()))
            continue
        acc[ens] = (S, mat, cells[0])
    roles = {}
    if True in acc and False in acc:
        bad = None
        for ens, (S, mat, cell) in acc.items():
            _, ix = peel(F.fn("idx", F.sym(mat), cell[1]))
            got = []
            for pos, x in enumerate(ix):
                b, k = peel(x)
                dg = None
                try:
                    dg = app(need(b) + 1, "call:np.digitize") if not is_unknown(b) else None
                except Unsupported:
                    dg = None
                if dg is None or len(k) != 1:
                    bad = f"index {pos} of the accumulation is not digitize(...)[k] - 1: {short(x)}"
                    break
                pos_a, kw_a = call_args(dg)
                a = place(pos_a, kw_a, ["x", "bins", "right"])
                _, cix = peel(a.get("x"))
                col = const_of(cix[-1]) if cix else None
                got.append((col, sym_of(a.get("bins")), a.get("right"), k[0]))
            if bad:
                break
            loops = cell[4]["loops"]
            ok = len(got) == 2 and got[0][0] == 1 and got[1][0] == 0 and all(same(g[2], Sb0.E(pb[3])) for g in got) \
                and got[0][1] in pb[1:3] and got[1][1] in pb[1:3] and got[0][1] != got[1][1] \
                and len(loops) == 1 and all(sym_of(g[3]) == loops[0][0] for g in got) and same(loops[0][1], Sb0.E(f"len({pb[0]})"))
            if not ok:
                bad = f"{[(g[0], g[1], short(g[2])) for g in got]}"
                break
            roles[ens] = {"mean": got[0][1], "amp": got[1][1]}
            try:
                added = need(cell[2]) - F.fn("idx", F.sym(mat), cell[1])
            except Unsupported:
                added = None
            if not same(added, Sb0.E(f"{pb[0]}[_i0, 2]")):
                bad = f"value added: {short(added)}"
                break
        ok = bad is None and roles.get(True) == roles.get(False)
        ctx.check(ok, "_binify: amplitude (column 0) and mean (column 1) are binned with digitize(..., right=right) - 1", fb, bad)
        # guard truth tables: row r against [0, n_mean), column c against [0, n_range)
        if ok:
            for ens, (S, mat, cell) in acc.items():
                _, ix = peel(F.fn("idx", F.sym(mat), cell[1]))
                g = conj(list(cell[4]["guard"]))
                tab = {}
                und = False
                for r_, rin in ((-1, False), (0, True), (3, True), (5, False), (7, False)):
                    for c_, cin in ((-1, False), (0, True), (2, True), (4, False), (9, False)):
                        f = Facts()
                        f.num_set(ix[0], r_)
                        f.num_set(ix[1], c_)
                        f.num_set(Sb0.E(f"len({roles[ens]['mean']})"), 6)
                        f.num_set(Sb0.E(f"len({roles[ens]['amp']})"), 5)
                        t = truth(g, f)
                        und = und or t is None
                        tab[(r_, c_)] = (t, rin and cin)
                if und:
                    ctx.error(f"_binify: guard of the {'guarded' if ens else 'unguarded'} accumulation", cell[3], short(g))
                elif ens:
                    ok = all(t == want for t, want in tab.values())
                    ctx.check(ok, "_binify: the guarded arm adds a cycle's count only when both indices are valid", cell[3],
                              None if ok else {"guard": short(g), "(row, column) -> (added, valid)": {str(k): v for k, v in tab.items() if v[0] != v[1]}})
                else:
                    ok = all(t is True for t, _ in tab.values())
                    ctx.check(ok, "_binify: the unguarded arm (used when getbins proved every value in bounds) adds every count", cell[3], None if ok else short(g))
            S = acc[True][0]
            z = [c for c in S.calls("np.zeros") if c[1] and isinstance(c[1][0], tuple) and len(c[1][0]) == 2]
            ini = S.init(acc[True][1])
            ok = len(z) >= 1 and const_of(ini) == 0 and any(same(c[1][0][0], Sb0.E(f"len({roles[True]['mean']}) - 1")) and
                                                            same(c[1][0][1], Sb0.E(f"len({roles[True]['amp']}) - 1")) for c in z)
            ctx.check(ok, "_binify: the table has one row per mean bin and one column per amplitude bin", fb, None if ok else [short(c[1]) for c in z])
    # ---- binify
    bf = ctx.src.func(CYC, "binify")
    pf = params(bf)
    need_names = ["rf", "ampbins", "meanbins", "right", "check_bounds"]
    if any(n not in pf for n in need_names):
        raise AnchorError("binify(rf, ampbins, meanbins, right, ..., check_bounds)")
    # maxmin: (largest, smallest)
    mm_ok = []
    for q in ("maxmin", "maxmin#2"):
        if ctx.src.has_func(CYC, q):
            f2 = ctx.src.func(CYC, q)
            if not any(isinstance(n, (ast.For, ast.While)) for n in ast.walk(f2)):
                S2 = XSem(ctx, f2, consts=consts)
                p2 = params(f2)
                mm_ok.append(same(S2.ret(), S2.E(f"(np.max({p2[0]}), np.min({p2[0]}))")))
    ctx.check(bool(mm_ok) and all(mm_ok), "maxmin (numpy variant) returns (largest, smallest)", bf, nontrivial=False)

    def mm_call(node, ev):
        from .e1_srcmodel import dotted
        if dotted(node.func) == "maxmin" and len(node.args) == 1 and not node.keywords:
            v = ev.ev(node.args[0])
            if is_unknown(v) or isinstance(v, tuple):
                return v
            return (F.fn("call:np.max", need(v)), F.fn("call:np.min", need(v)))
        return NotImplemented

    finl = {k: v for k, v in table.items() if k not in ("binify", "getbins", "_binify", "maxmin")}
    Sf0 = XSem(ctx, bf, run=False, consts=consts)
    gp = params(fn)
    res = {}
    for chk in (True, False):
        S = XSem(ctx, bf, facts=Facts(truths=[(Sf0.E("check_bounds"), chk), (Sf0.E("use_pandas"), True), (Sf0.E("retbins"), False)]), inline=finl,
                 consts=consts, call=mm_call)
        gb = S.calls("getbins")
        bn = S.calls("_binify")
        res[chk] = (S, gb, bn)
    S, gb, bn = res[True]
    G = {}
    bad = None
    if len(gb) != 2 or len(bn) != 1:
        bad = f"{len(gb)} getbins calls, {len(bn)} _binify calls"
    else:
        for c in gb:
            a = placed(c, gp)
            which = "amp" if same(a.get("bins"), Sf0.E("ampbins")) else ("mean" if same(a.get("bins"), Sf0.E("meanbins")) else None)
            col = {"amp": 0, "mean": 1}.get(which)
            if which is None or which in G:
                bad = f"getbins call with bins = {short(a.get('bins'))}"
                break
            hi, lo = Sf0.E(f"np.max(rf[:, {col}])"), Sf0.E(f"np.min(rf[:, {col}])")
            ext = (same(a.get("mx"), hi) and same(a.get("mn"), lo)) or (same(a.get("mx"), lo) and same(a.get("mn"), hi))
            if not ext or not same(a.get("right"), Sf0.E("right")) or not same(a.get("check_bounds"), Sf0.E("check_bounds")):
                bad = f"getbins({which}): {dict((k, short(v, 80)) for k, v in a.items())}"
                break
            G[which] = call_value(c)
    if bad is None:
        a = placed(bn[0], pb)
        r = roles.get(True) or {"amp": pb[1], "mean": pb[2]}
        ens = a.get(pb[4])
        ok = same(a.get(pb[0]), Sf0.E("rf")) and same(a.get(r["amp"]), F.fn("idx", G["amp"], F.const(0))) and same(a.get(r["mean"]), F.fn("idx", G["mean"], F.const(0))) \
            and same(a.get(pb[3]), Sf0.E("right")) and ens is not None
        if ok:
            for oa in (True, False):
                for om in (True, False):
                    f = Facts(truths=[(F.fn("idx", G["amp"], F.const(1)), oa), (F.fn("idx", G["mean"], F.const(1)), om)])
                    if truth(ens, f) is not (oa or om):
                        ok = False
                        bad = {"guard argument": short(ens), "amplitude out": oa, "mean out": om, "guard": truth(ens, f)}
        else:
            bad = {k: short(v, 100) for k, v in a.items()}
    ctx.check(bad is None, "binify: the index guard is switched on exactly when getbins reports a value out of bounds (amplitude or mean)", bf, bad)
    S2, gb2, bn2 = res[False]
    ok = len(bn2) == 1 and len(gb2) == 2
    if ok:
        a = placed(bn2[0], pb)
        ok = truth(a.get(pb[4]), None) is False
    ctx.check(ok, "binify: without check_bounds the unguarded arm is used (caller's responsibility)", bf, nontrivial=False)
    dflt = dict(zip(pf[::-1], (bf.args.defaults or [])[::-1]))
    d = dflt.get("check_bounds")
    ctx.check(isinstance(d, ast.Constant) and d.value is True, "binify: bounds are checked by default", bf, ast.unparse(d) if d is not None else None)
    sc = ctx.src.func(CYC, "sigcount")
    Ss = XSem(ctx, sc, consts=consts, inline={k: v for k, v in table.items() if k not in ("sigcount", "binify", "rainflow", "findap", "getbins", "_binify")})
    cb = Ss.calls("binify")
    ok = len(cb) == 1
    if ok:
        a = placed(cb[0], pf)
        ok = all(same(a.get(n), Ss.E(n)) for n in ("ampbins", "meanbins", "right")) and ("check_bounds" not in a or truth(a["check_bounds"], None) is True)
        u = app(a.get("rf"), "call:rainflow")
        ok = ok and u is not None and same(call_args(u)[0][0], Ss.E("sig[findap(sig)]"))
    ctx.check(ok, "sigcount never overrides check_bounds", sc, None if ok or not cb else {k: short(v, 80) for k, v in placed(cb[0], pf).items()})
    # labels
    if bad is None:
        df = [c for c in S.calls("pd.DataFrame") if "index" in c[2] and "columns" in c[2]]
        ok = len(df) == 1
        det = None
        if ok:
            for kw, which in (("index", "mean"), ("columns", "amp")):
                u = app(df[0][2][kw], "comp")
                e = app(u[1][0], "call:.format") if u is not None else None
                edges = F.fn("idx", G[which], F.const(0))
                if e is None or len(e[1]) != 3 or not same(e[1][1], S.ev.mk_idx(edges, F.sym("_i0"))) or not same(e[1][2], S.ev.mk_idx(edges, F.sym("_i0") + 1)) \
                        or not same(u[1][1], F.fn("len", edges) - 1):
                    ok = False
                    det = {kw: short(df[0][2][kw])}
                    break
                for rt, (first, last) in ((True, "(]"), (False, "[)")):
                    fv = _under(e[1][0], Facts(truths=[(Sf0.E("right"), rt)]))
                    sp = str_parts(fv)
                    if sp is None or not isinstance(sp[0], str) or not isinstance(sp[-1], str) or sp[0][:1] != first or sp[-1][-1:] != last:
                        ok = False
                        det = {"label form": short(fv), "right": rt}
        ctx.check(ok, "binify: row labels come from the mean bins, column labels from the amplitude bins, with the bracket style of `right`", bf, det)


# ======================================================================================================================= R6
def _tol_cmps(values, tolname):
    """distinct comparison atoms with the tolerance (a value that depends on `tol`) on one side: [(cmp value, other side, tolerance side)]"""
    out = []
    for v in values:
        for nm, a, x in apps(v, "cmp:"):
            if nm[4:] not in ("Gt", "GtE", "Lt", "LtE") or len(a) != 2 or any(isinstance(k, str) for k in a):
                continue
            ta, tb = depends(a[0], tolname), depends(a[1], tolname)
            if ta == tb:
                continue
            d, t = (a[1], a[0]) if ta else (a[0], a[1])
            if apps(t, "cmp:"):
                continue        # a quantity derived from the de-duplicated samples (their number, ...), not the tolerance
            if not any(same(x, o[0]) for o in out):
                out.append((x, d, t))
    return out


def _strict(cmpv, d, t):
    """(separates, equality groups with 'below', truth above): the comparison as a predicate of d relative to t"""
    res = {}
    for k, x in (("below", Fraction(1, 2)), ("on", 1), ("above", 2)):
        f = Facts()
        try:
            f.num_set(d, x)
            f.num_set(t, 1)
        except Unsupported:
            return None
        res[k] = truth(cmpv, f)
    if any(v is None for v in res.values()):
        return None
    return res


def _all_values(S):
    vals = [t[0] for t in S.tr.tests]
    vals += [c[2] for c in S.tr.cells] + [c[1] for c in S.tr.cells]
    vals += [r[0] for r in S.returns()]
    for c in S.tr.calls:
        vals += list(c[1]) + list(c[2].values())
    return [v for v in vals if v is not None and not is_unknown(v)]


def _diff(S, v):
    return S.E("V[1:] - V[:-1]", V=v)


def r6_tolerance_strictness(ctx):
    """a sample is a new value only if it differs by MORE than the scaled tolerance; with tol = 0 exact repeats must not count"""
    consts = module_consts(ctx, CYC)
    table = module_funcs(ctx, CYC)
    lf = ctx.src.func(LOC, "find_unique")
    pl = params(lf)
    Sfu = XSem(ctx, lf, consts=module_consts(ctx, LOC), inline={k: v for k, v in module_funcs(ctx, LOC).items() if k != "find_unique"})
    fu = Sfu.ret()
    sites = [("find_unique", lf, Sfu, pl)]
    variants = []
    for q in ("findap", "findap#2"):
        if ctx.src.has_func(CYC, q):
            fn = ctx.src.func(CYC, q)
            inl = {k: v for k, v in table.items() if k != "findap"}
            inl["locate.find_unique"] = lf
            S0 = XSem(ctx, fn, run=False, consts=consts)
            pq = params(fn)
            f = Facts(preds=[lambda v: (False if head(v) == "call:np.all" else None)])
            for text in (f"{pq[0]}.size", f"len({pq[0]})"):
                f.num_set(S0.E(text), 1000)
            S = XSem(ctx, fn, facts=f, consts=consts, inline=inl)
            loops = bool(S.tr.loops) or any(t[3] == "while" for t in S.tr.tests)
            variants.append((q, fn, S, pq, loops, S0))
            sites.append(("findap", fn, S, pq))
    n = 0
    for name, fn, S, pp in sites:
        if len(pp) < 2:
            raise AnchorError(f"{name}(y, tol)")
        cm = _tol_cmps(_all_values(S), pp[1])
        want_t = [S.E(f"abs({pp[1]} * np.max(abs(np.diff({pp[0]}))))"), S.E(f"abs({pp[1]}) * np.max(abs(np.diff({pp[0]})))")]
        tol_ok = []
        for cmpv, d, t in cm:
            n += 1
            r = _strict(cmpv, d, t)
            if r is None:
                ctx.error(f"{name}: tolerance comparison `{short(cmpv, 120)}`", fn)
                continue
            ok = r["on"] == r["below"] and r["above"] != r["below"]
            ctx.check(ok, f"{name}: `{short(S.E('D > T', D=F.sym('|difference|'), T=F.sym('tolerance')) if ok else cmpv, 120)}` - a difference counts only when strictly greater than the tolerance "
                          "(all peak-picking variants must agree; `>=` would keep exact repeats when tol = 0 and plateaus would then hide reversals)", fn,
                      None if ok else {"comparison": short(cmpv), "truth for |difference| below / on / above the tolerance": r}, key=None)
            tol_ok.append(any(same(t, w) for w in want_t))
        if cm:
            ok = all(tol_ok)
            ctx.check(ok, f"{name}: the tolerance is relative to the largest sample-to-sample difference", fn, None if ok else [short(t) for _, _, t in cm])
    ctx.check(n >= 4, f"tolerance rule bound to {n} comparisons in find_unique and findap", LOC + ":1", nontrivial=False)
    # find_unique itself: the mask is (True, |diff| > tolerance)
    u = app(fu, "hcat")
    ok = u is not None and len(u[1]) == 2 and truth(u[1][0], None) is True
    if ok:
        cm = _tol_cmps([u[1][1]], pl[1])
        ok = len(cm) == 1 and same(cm[0][0], u[1][1]) and same(cm[0][1], Sfu.E(f"abs(np.diff({pl[0]}))"))
        r = _strict(*cm[0]) if ok else None
        ok = ok and r is not None and r["above"] is True and r["on"] is False and r["below"] is False
    ctx.check(ok, "find_unique: the first sample is unique; a later sample is unique exactly when it differs from its predecessor by more than the tolerance", lf,
              None if ok else short(fu))
    # ---- the vectorised (numpy) variant of findap
    vec = [v for v in variants if not v[4]]
    if len(vec) != 1:
        ctx.error("findap: the vectorised variant (no loops; de-duplicates through locate.find_unique) was not found", CYC + ":1", [v[0] for v in vec])
    else:
        _findap_numpy(ctx, vec[0], fu, pl, consts, table, lf)
    for q, fn, S, pq, loops, S0 in variants:
        if loops:
            arr = None
            for rv, _, g in S.returns():
                if sym_of(rv) is not None and sym_of(rv) in {c[0] for c in S.tr.cells}:
                    arr = sym_of(rv)
            first = [c for c in (S.cells(arr) if arr else []) if const_of(c[1]) == 0 and truth(c[2], None) is True and not c[4]["guard"] and not c[4]["loops"]]
            ctx.check(bool(first), "findap (loop variant): the first sample is always selected", fn, nontrivial=False)


def _findap_numpy(ctx, variant, fu, pl, consts, table, lf):
    q, fn, _, pq, _, S0 = variant
    y = S0.E(pq[0])
    inl = {k: v for k, v in table.items() if k != "findap"}
    inl["locate.find_unique"] = lf
    U = fu.subs({pl[0]: y, pl[1]: S0.E(pq[1])}) if fu is not None and not is_unknown(fu) and not isinstance(fu, tuple) else None
    res = {}
    for allu in (True, False):
        f = Facts(preds=[lambda v, allu=allu: (allu if head(v) == "call:np.all" else None)],
                  truths=[(S0.E(f"{pq[0]}.size == 1"), False), (S0.E(f"len({pq[0]}) == 1"), False)])
        res[allu] = XSem(ctx, fn, facts=f, consts=consts, inline=inl)
    probs = []
    shape_ok, slope_ok, ret_ok, scatter_ok = True, True, True, True
    for allu, S in res.items():
        rv = S.ret()
        arr = sym_of(rv)
        if arr is None or S.tr.raises:
            probs.append(f"all-unique={allu}: returned value {short(rv)}")
            shape_ok = False
            continue
        mask = arr
        if not allu:
            cells = S.cells(arr)
            ok = const_of(S.init(arr)) == 0 and len(cells) == 1 and not cells[0][4]["guard"] and U is not None and same(cells[0][1], U) and sym_of(cells[0][2]) is not None
            if not ok:
                scatter_ok = False
                probs.append(f"expansion to full size: {[(short(c[1], 80), short(c[2], 80)) for c in cells]}")
                continue
            mask = sym_of(cells[0][2])
        cells = S.cells(mask)
        ini = S.init(mask)
        inner = [c for c in cells if same(c[1], F.fn("slice", F.const(1), F.const(-1), NONE))]
        fl = app(ini, "call:np.full") if ini is not None and not is_unknown(ini) else None
        if fl is not None and len(fl[1]) == 2:
            ini = fl[1][1]
        last = [c for c in cells if const_of(c[1]) == -1]
        ok = ini is not None and truth(ini, None) is True and len(cells) == len(inner) + len(last) and len(inner) == 1 and len(last) == 1 and not inner[0][4]["guard"]
        Sg = YU = None
        if ok:
            e = app(inner[0][2], "cmp:Eq")
            if e is not None:
                a, b = e[1]
                if const_of(a) == 2:
                    a, b = b, a
                ab = app(a, "abs")
                if const_of(b) == 2 and ab is not None:
                    for _, aa, _ in apps(ab[1][0], "idx"):
                        if not isinstance(aa[0], str) and same(ab[1][0], _diff(S, aa[0])):
                            Sg = aa[0]
            ne = app(last[0][2], "cmp:NotEq")
            if ne is not None:
                x1, x2 = app(ne[1][0], "idx"), app(ne[1][1], "idx")
                if x1 is not None and x2 is not None and same(x1[1][0], x2[1][0]) and {const_of(x1[1][1]), const_of(x2[1][1])} == {-1, -2}:
                    YU = x1[1][0]
            ok = Sg is not None and YU is not None
            if ok:
                # the end-point store is guarded by "more than two retained samples"
                g = conj(list(last[0][4]["guard"]))
                tt = []
                for nn in (2, 3):
                    f = Facts()
                    for v in (S.E("V.size", V=YU), S.E("len(V)", V=YU)):
                        f.num_set(v, nn)
                    tt.append(truth(g, f))
                ok = tt == [False, True]
        if not ok:
            shape_ok = False
            probs.append(f"all-unique={allu}: mask stores {[(short(c[1], 60), short(c[2], 160)) for c in cells]} init {short(ini)}")
            continue
        want_yu = y if allu else (S.E("Y[U]", Y=y, U=U) if U is not None else None)
        if not same(YU, want_yu):
            ret_ok = False
            probs.append(f"all-unique={allu}: samples worked on: {short(YU)}")
        if not same(Sg, S.E("np.sign(V[1:] - V[:-1])", V=YU)):
            slope_ok = False
            probs.append({"all-unique": allu, "slope signs": short(Sg), "expected": "sign(diff(retained samples))", "retained samples": short(YU)})
    if not shape_ok:
        ctx.error("findap (numpy variant): mask of the retained samples (all True, interior = slope-sign changes, end point = differs from its predecessor)", fn, probs)
        return
    ctx.check(ret_ok and scatter_ok, "findap (numpy variant): works on de-duplicated samples; interior reversals are slope-sign changes; the first sample is always kept", fn,
              None if ret_ok and scatter_ok else probs)
    ctx.check(slope_ok, "findap (numpy variant): the slope signs whose changes mark the reversals are the signs of the differences between consecutive RETAINED samples - "
                        "the same sequence the mask and the end-point test index (a slope taken against a dropped sample loses the true turning point)", fn,
              None if slope_ok else probs)
    ctx.check(scatter_ok, "findap (numpy variant): removed repeats are never peaks", fn, None if scatter_ok else probs)


def _under(v, facts):
    """resolve ite(...) nodes of a value whose condition the facts decide"""
    for _ in range(8):
        u = app(v, "ite")
        if u is None:
            return v
        t = truth(u[1][0], facts)
        if t is None:
            return v
        v = u[1][1] if t else u[1][2]
    return v


RULES = [
    ("C10-R5", r5_binify_guards, 18),
    ("C10-R6", r6_tolerance_strictness, 6),
]
LEVEL = "other"
EXPLANATION = ""
MANIFEST = {}
