"""C09 engine, part 1: exact terms, index algebra, static model of the analysed modules.

Terms are nested tuples (hashable, compared structurally, *never* re-associated or commuted: the claim is bit identity).

  ("c", typename, value)           constant                      ("s", name)                 free symbol (parameter, unknown name)
  ("bin", op, a, b) ("un", op, a)  arithmetic, exactly as written ("cmp", op, a, b) ("not", a) ("bool", op, v...)
  ("call", f, args, kws)           application of an opaque callable; kws is a sorted tuple of (name, value)
  ("attr", v, name)                attribute of an opaque value   ("idx", v, items)           subscript, items normalised (see `norm_items`)
  ("tuple", ...) ("list", ...)     literals                       ("dictc", ((k, v), ...))    module-level constant dict
  ("fn", rel, qualname)            function of an analysed module ("mod", dotted) ("ext", dotted) ("rmod", rel)   imports
  ("ref", oid, shape, sel)         reference to (a view of) a heap object; ("dref", oid) a dict object
  ("lv", depth)                    index of the symbolic iteration of the loop / task frame at that depth
  ("phi", c, a, b)                 value merged over an undecided simple `if`
  ("upd", prev, sel, value, n)     content of an array region after a store at `sel` (n loop frames closed since the store)
"""
from __future__ import annotations

import ast

from .core import Unsupported
from .e1_srcmodel import dotted


class Unsup(Unsupported):
    pass


NONE = ("c", "NoneType", None)
TRUE = ("c", "bool", True)
FALSE = ("c", "bool", False)
ELL = ("c", "ellipsis", "...")
FULL = ("slice", NONE, NONE, NONE)
ZEROS = ("alloc", "zeros")
EMPTY = ("alloc", "empty")


def const(v):
    if v is Ellipsis:
        return ELL
    return ("c", type(v).__name__, v)


def is_const(t):
    return isinstance(t, tuple) and len(t) == 3 and t[0] == "c"


def is_tag(t, *tags):
    return isinstance(t, tuple) and len(t) > 0 and t[0] in tags


def subterms(t):
    yield t
    if isinstance(t, tuple):
        for x in t:
            if isinstance(x, tuple):
                yield from subterms(x)


def contains(t, sub):
    return any(x == sub for x in subterms(t))


def tmap(f, t):
    """bottom-up rewrite of a term"""
    if isinstance(t, tuple):
        t2 = tuple(tmap(f, x) if isinstance(x, tuple) else x for x in t)
        return f(t2)
    return t


# ---------------------------------------------------------------------------------------------------------------- index algebra
def is_slice(it):
    return is_tag(it, "slice")


def is_basic_item(it):
    """an index item of basic (view-producing) indexing: slice, integer constant, loop index, or scalar arithmetic on symbols"""
    if is_slice(it) or it == ELL:
        return True
    if is_const(it):
        return it[1] == "int"
    if is_tag(it, "lv", "blk", "bv"):
        return True
    if is_tag(it, "s"):
        return True
    if is_tag(it, "bin", "un"):
        return all(is_basic_item(x) for x in it[2:] if isinstance(x, tuple))
    if is_tag(it, "idx"):
        # element of a tuple of integers handed over as a task argument
        return is_tag(it[1], "s", "idx") and all(is_const(x) for x in it[2])
    return False


def expand_ell(items, rank):
    """replace an Ellipsis by full slices when the rank of the indexed region is known"""
    items = list(items)
    if ELL not in items:
        return tuple(items)
    if rank is None:
        if items == [ELL]:
            return ()
        return tuple(items)
    k = items.index(ELL)
    n = rank - (len(items) - 1)
    if n < 0:
        raise Unsup("too many indices")
    return tuple(items[:k] + [FULL] * n + items[k + 1:])


def strip_full(items):
    items = list(items)
    while items and items[-1] == FULL:
        items.pop()
    return tuple(items)


def merge_sel(sel, items, rank=None):
    """index the region selected by `sel` with `items` -> one selection relative to the base object"""
    n_scalar = sum(1 for x in sel if not is_slice(x))
    items = expand_ell(items, None if rank is None else rank - n_scalar)
    if ELL in items:
        if not sel:
            return tuple(items)
        raise Unsup("Ellipsis on a view of unknown rank")
    out = list(sel)
    pos = 0
    for it in items:
        while pos < len(out) and not is_slice(out[pos]):
            pos += 1
        if pos < len(out):
            cur = out[pos]
            if cur == FULL:
                out[pos] = it
            elif it == FULL:
                pass
            else:
                out[pos] = ("subslice", cur, it) if not is_slice(it) else ("slice2", cur, it)
            if is_slice(out[pos]) or is_tag(out[pos], "slice2"):
                pos += 1
        else:
            out.append(it)
            pos = len(out)
    return strip_full(out)


def _axis_kind(it):
    return "region" if (is_slice(it) or is_tag(it, "slice2")) else "scalar"


def relation(a, b):
    """a, b: selections on the same object.  -> (kind, rest)
       'equal'    same region
       'disjoint' provably no common element (different integer constants on one axis)
       'acovers'  a contains b; rest = b relative to the region a
       'bcovers'  b contains a; rest = a relative to the region b
       'unknown'"""
    n = max(len(a), len(b))
    A = list(a) + [FULL] * (n - len(a))
    B = list(b) + [FULL] * (n - len(b))
    a_gen = b_gen = False
    for x, y in zip(A, B):
        if x == y:
            continue
        if x == FULL:
            a_gen = True
        elif y == FULL:
            b_gen = True
        elif is_const(x) and is_const(y):
            return "disjoint", None
        else:
            return "unknown", None
    if not a_gen and not b_gen:
        return "equal", ()
    if a_gen and b_gen:
        return "unknown", None
    if a_gen:
        rest = [y for x, y in zip(A, B) if _axis_kind(x) == "region"]
        return "acovers", strip_full(rest)
    rest = [x for x, y in zip(A, B) if _axis_kind(y) == "region"]
    return "bcovers", strip_full(rest)


def mkidx(base, items):
    """subscript of an immutable value, merged with an enclosing subscript"""
    items = tuple(items)
    if not items:
        return base
    if base in (ZEROS,):
        return base
    if is_tag(base, "tuple", "list") and len(items) == 1 and is_const(items[0]) and items[0][1] == "int":
        k = items[0][2]
        els = base[1:]
        if -len(els) <= k < len(els):
            return els[k]
        return ("oob", base, items)        # IndexError at run time
    if is_tag(base, "tuple", "list") and len(items) == 1 and is_slice(items[0]) and all(is_const(x) for x in items[0][1:]):
        lo, hi, st = (x[2] for x in items[0][1:])
        return (base[0],) + tuple(base[1:][slice(lo, hi, st)])
    if is_tag(base, "dictc") and len(items) == 1 and is_const(items[0]):
        for k, v in base[1]:
            if k == items[0]:
                return v
    if is_tag(base, "idx"):
        try:
            return ("idx", base[1], merge_sel(base[2], items))
        except Unsup:
            pass
    return ("idx", base, strip_full(items))


def shape_after(shape, sel):
    """shape term of the region `sel` of an array whose shape term is a literal tuple; None when not derivable"""
    if not is_tag(shape, "tuple"):
        return None
    dims = list(shape[1:])
    out = []
    for i, d in enumerate(dims):
        if i < len(sel):
            it = sel[i]
            if it == FULL:
                out.append(d)
            elif is_slice(it) or is_tag(it, "slice2"):
                out.append(("slicelen", d, it))
            # scalar: axis dropped
        else:
            out.append(d)
    if len(sel) > len(dims):
        return None
    return ("tuple",) + tuple(out)


# ---------------------------------------------------------------------------------------------------------------- pretty printer
_OPS = {"Add": "+", "Sub": "-", "Mult": "*", "Div": "/", "FloorDiv": "//", "Mod": "%", "Pow": "**", "MatMult": "@", "BitAnd": "&", "BitOr": "|",
        "BitXor": "^", "LShift": "<<", "RShift": ">>", "Eq": "==", "NotEq": "!=", "Lt": "<", "LtE": "<=", "Gt": ">", "GtE": ">=", "Is": "is",
        "IsNot": "is not", "In": "in", "NotIn": "not in", "USub": "-", "UAdd": "+", "Invert": "~"}


def show(t, depth=0):
    if depth > 12:
        return "..."
    d = depth + 1
    if not isinstance(t, tuple) or not t:
        return repr(t)
    k = t[0]
    if k == "c":
        return "..." if t == ELL else repr(t[2])
    if k == "s":
        return t[1]
    if k == "lv":
        return "j%d" % t[1]
    if k == "blk":
        return "task%d" % t[1]
    if k == "bv":
        return "k%d" % t[1]
    if k == "lin":
        parts = [f"{show(x, d)}" if v == 1 else f"{v}*{show(x, d)}" for x, v in t[2]] + ([repr(t[1])] if t[1] else [])
        return "(" + " + ".join(parts) + ")"
    if k == "rnd":
        return f"{t[1]}({show(t[2], d)})"
    if k == "comp":
        return f"[{show(t[1], d)} for k in range({show(t[2], d)})]"
    if k == "bin":
        return f"({show(t[2], d)} {_OPS.get(t[1], t[1])} {show(t[3], d)})"
    if k == "un":
        return f"({_OPS.get(t[1], t[1])}{show(t[2], d)})"
    if k == "cmp":
        return f"({show(t[2], d)} {_OPS.get(t[1], t[1])} {show(t[3], d)})"
    if k == "not":
        return f"(not {show(t[1], d)})"
    if k == "bool":
        return "(" + f" {t[1]} ".join(show(x, d) for x in t[2:]) + ")"
    if k == "truth":
        return f"bool({show(t[1], d)})"
    if k == "call":
        a = [show(x, d) for x in t[2]] + [f"{kw[1]}={show(kw[2], d)}" for kw in t[3]]
        return f"{show(t[1], d)}({', '.join(a)})"
    if k == "attr":
        return f"{show(t[1], d)}.{t[2]}"
    if k == "idx":
        return f"{show(t[1], d)}[{', '.join(show(x, d) for x in t[2])}]"
    if k == "slice":
        p = ["" if x == NONE else show(x, d) for x in t[1:]]
        return ":".join(p[:2]) + ("" if p[2] == "" else ":" + p[2])
    if k in ("tuple", "list"):
        b = "()" if k == "tuple" else "[]"
        return b[0] + ", ".join(show(x, d) for x in t[1:]) + b[1]
    if k == "fn":
        return t[2]
    if k in ("mod", "ext", "rmod"):
        return t[1]
    if k == "ref":
        return f"<obj{t[1]}{'[' + ', '.join(show(x, d) for x in t[3]) + ']' if t[3] else ''}>"
    if k == "phi":
        return f"({show(t[2], d)} if {show(t[1], d)} else {show(t[3], d)})"
    if k in ("upd", "mayupd"):
        return f"{show(t[1], d)}{{[{', '.join(show(x, d) for x in t[2])}] <- {show(t[3], d)}}}"
    if k == "unboundlocal":
        return f"<unbound local {t[1]}>"
    if k == "oob":
        return f"<index out of range: {show(t[1], d)}[{', '.join(show(x, d) for x in t[2])}]>"
    if k == "alloc":
        return t[1]
    if k == "dict":
        return "{" + ", ".join(f"{show(a, d)}: {show(b, d)}" for a, b in t[1]) + "}"
    if k == "dictc":
        return "{...}"
    if k == "fstr":
        return "f'" + "".join(show(x, d) if isinstance(x, tuple) else str(x) for x in t[1:]) + "'"
    return "<" + " ".join(show(x, d) if isinstance(x, tuple) else str(x) for x in t) + ">"


def first_diff(a, b, depth=0):
    """smallest differing pair of subterms (for messages); allocation kinds are skipped when something else differs too"""
    if a == b:
        return None
    if isinstance(a, tuple) and isinstance(b, tuple) and len(a) == len(b) and a and b and depth < 60 and \
            (a[0] == b[0] or (isinstance(a[0], tuple) and isinstance(b[0], tuple))):
        diffs = [(x, y) for x, y in zip(a, b) if x != y]
        real = [(x, y) for x, y in diffs if not (x in (ZEROS, EMPTY) and y in (ZEROS, EMPTY))]
        if len(real) >= 1 and isinstance(real[0][0], tuple) and isinstance(real[0][1], tuple):
            r = first_diff(real[0][0], real[0][1], depth + 1)
            if r is not None:
                return r
        if len(real) >= 1:
            return real[0]
    return a, b


# ---------------------------------------------------------------------------------------------------------------- static model
MP_NAMES = {"Pool", "RawArray", "Array", "frombuffer", "as_array", "imap", "imap_unordered", "map", "starmap", "map_async", "apply_async", "terminate",
            "memmove", "memset", "from_buffer", "from_buffer_copy"}
MUT_METHODS = {"sort", "fill", "resize", "itemset", "put", "partition", "byteswap", "setfield", "setflags"}


class ModInfo:
    """imports, module-level constants, functions and process globals of one analysed module"""

    def __init__(self, world, rel, mod):
        self.world = world
        self.rel = rel
        self.mod = mod
        self.imports = {}        # local name -> value term
        self.consts = {}         # name -> ast value node (module-level single assignment)
        self.nassign = {}
        self.funcs = {q: f for q, f in mod.funcs.items() if "." not in q and "#" not in q}
        self.proc_globals = set()
        self.classes = {st.name: st for st in mod.tree.body if isinstance(st, ast.ClassDef)}
        for st in mod.tree.body:
            if isinstance(st, ast.Import):
                for a in st.names:
                    if a.asname:
                        self.imports[a.asname] = ("mod", a.name)
                    else:
                        self.imports[a.name.split(".")[0]] = ("mod", a.name.split(".")[0])
            elif isinstance(st, ast.ImportFrom):
                for a in st.names:
                    nm = a.asname or a.name
                    full = f"{st.module}.{a.name}" if st.module else a.name
                    self.imports[nm] = ("imp", full)
            elif isinstance(st, (ast.Assign, ast.AnnAssign)):
                tg = st.targets if isinstance(st, ast.Assign) else [st.target]
                if st.value is None:
                    continue
                for t in tg:
                    for n in ([t] if isinstance(t, ast.Name) else (t.elts if isinstance(t, (ast.Tuple, ast.List)) else [])):
                        if isinstance(n, ast.Name):
                            self.nassign[n.id] = self.nassign.get(n.id, 0) + 1
                    if isinstance(t, ast.Name):
                        self.consts[t.id] = st.value
        # every name the module body may bind (at any nesting outside functions / classes): a name outside this set, the builtins and the
        # process globals does not exist - reading it raises NameError
        self.bound_names = set()
        self.star_import = False
        stack = list(mod.tree.body)
        while stack:
            st = stack.pop()
            if isinstance(st, (ast.FunctionDef, ast.AsyncFunctionDef, ast.ClassDef)):
                self.bound_names.add(st.name)
                continue
            if isinstance(st, (ast.Import, ast.ImportFrom)):
                for a in st.names:
                    if a.name == "*":
                        self.star_import = True
                    self.bound_names.add((a.asname or a.name).split(".")[0])
                continue
            for n in ast.walk(st):
                if isinstance(n, ast.Name) and isinstance(n.ctx, ast.Store):
                    self.bound_names.add(n.id)
                elif isinstance(n, (ast.Import, ast.ImportFrom)):
                    for a in n.names:
                        if a.name == "*":
                            self.star_import = True
                        self.bound_names.add((a.asname or a.name).split(".")[0])
                elif isinstance(n, (ast.FunctionDef, ast.ClassDef)):
                    self.bound_names.add(n.name)
                elif isinstance(n, ast.ExceptHandler) and n.name:
                    self.bound_names.add(n.name)
        # module-level dicts that start empty and are filled inside functions (`_SHARED = {}` ... `_SHARED["wn"] = view`): process-global state
        # held as entries of one dict instead of one `global` name each
        self.gdicts = set()
        empties = {n for n, v in self.consts.items() if self.nassign.get(n) == 1 and
                   ((isinstance(v, ast.Dict) and not v.keys) or
                    (isinstance(v, ast.Call) and isinstance(v.func, ast.Name) and v.func.id == "dict" and not v.args and not v.keywords))}
        if empties:
            for f in ast.walk(mod.tree):
                if isinstance(f, (ast.FunctionDef, ast.AsyncFunctionDef)):
                    for n in ast.walk(f):
                        if isinstance(n, ast.Subscript) and isinstance(n.ctx, (ast.Store, ast.Del)) and isinstance(n.value, ast.Name) and n.value.id in empties:
                            self.gdicts.add(n.value.id)
                        elif isinstance(n, ast.Call) and isinstance(n.func, ast.Attribute) and isinstance(n.func.value, ast.Name) and \
                                n.func.value.id in empties and n.func.attr in ("update", "setdefault", "pop", "clear", "popitem"):
                            self.gdicts.add(n.func.value.id)
        uses_globals_dict = False
        strs = set()
        for f in ast.walk(mod.tree):
            if isinstance(f, ast.Global):
                self.proc_globals.update(f.names)
            elif isinstance(f, ast.Call) and isinstance(f.func, ast.Name) and f.func.id in ("globals", "vars"):
                uses_globals_dict = True
            elif isinstance(f, ast.Constant) and isinstance(f.value, str):
                strs.add(f.value)
        if uses_globals_dict:
            self.star_import = True      # names may be created through the dict: no name is known to be undefined
            # `globals()[name] = ...` needs no declaration: every module-level name that is spelled as a string somewhere may be rebound
            self.proc_globals.update(n for n in self.consts if n in strs)


class World:
    def __init__(self, ctx, rels):
        self.ctx = ctx
        self.rels = list(rels)
        self.mods = {rel: ModInfo(self, rel, ctx.src.mod(rel)) for rel in rels}
        self._summ = {}
        for rel, mi in self.mods.items():
            for nm, v in list(mi.imports.items()):
                if v[0] == "imp":
                    mi.imports[nm] = self._resolve_import(v[1])

    def _resolve_import(self, full):
        rel = full.replace(".", "/") + ".py"
        if rel in self.mods:
            return ("rmod", rel)
        # from X import name  where X is an analysed module
        if "." in full:
            m, nm = full.rsplit(".", 1)
            mrel = m.replace(".", "/") + ".py"
            if mrel in self.mods and nm in self.mods[mrel].funcs:
                return ("fn", mrel, nm)
        return ("ext", full)

    def func(self, rel, q):
        f = self.mods[rel].funcs.get(q)
        if f is not None:
            self.ctx.src.funcs_consulted.add(f"{rel}:{q}")
        return f

    # ---- syntactic effect summary: decides whether a call in the parent has to be followed
    def summary(self, rel, q, _stack=()):
        key = (rel, q)
        if key in self._summ:
            return self._summ[key]
        if key in _stack:
            return set()
        fn = self.mods[rel].funcs.get(q)
        out = set()
        if fn is None:
            return out
        mi = self.mods[rel]
        params = {a.arg for a in fn.args.posonlyargs + fn.args.args + fn.args.kwonlyargs}
        if fn.args.vararg:
            params.add(fn.args.vararg.arg)
        alias = set(params)
        changed = True
        while changed:
            changed = False
            for st in ast.walk(fn):
                if isinstance(st, ast.Assign) and len(st.targets) == 1 and isinstance(st.targets[0], ast.Name) and st.targets[0].id not in alias:
                    v = st.value
                    while isinstance(v, (ast.Subscript, ast.Attribute)):
                        v = v.value
                    if isinstance(v, ast.Call) and isinstance(v.func, ast.Attribute) and v.func.attr in ("reshape", "ravel", "view", "transpose"):
                        v = v.func.value
                        while isinstance(v, (ast.Subscript, ast.Attribute)):
                            v = v.value
                    if isinstance(v, ast.Name) and v.id in alias:
                        alias.add(st.targets[0].id)
                        changed = True

        def base(t):
            while isinstance(t, (ast.Subscript, ast.Attribute)):
                t = t.value
            return t.id if isinstance(t, ast.Name) else None

        body_stmts = [s for s in fn.body if not (isinstance(s, ast.Expr) and isinstance(s.value, ast.Constant))]
        if len(body_stmts) == 1 and isinstance(body_stmts[0], ast.Return):
            out.add("trivial")
        for n in ast.walk(fn):
            if isinstance(n, (ast.Yield, ast.YieldFrom)):
                out.add("iter")
            if isinstance(n, ast.Return) and n.value is not None:
                v = n.value
                fx = v.func if isinstance(v, ast.Call) else None
                last = fx.attr if isinstance(fx, ast.Attribute) else (fx.id if isinstance(fx, ast.Name) else None)
                if isinstance(v, (ast.GeneratorExp, ast.ListComp)) or last in ("zip", "enumerate", "range", "map", "iter", "reversed", "pairwise", "repeat"):
                    out.add("iter")     # hands back an iterable description (task lists, block edges): followed so that its structure is seen
            if isinstance(n, (ast.For, ast.While)) or (isinstance(n, ast.Subscript) and isinstance(n.ctx, ast.Store)) or \
                    (isinstance(n, ast.AugAssign) and not isinstance(n.target, ast.Name)):
                out.add("stores")       # fills arrays itself: followed, so that a loop moved into a helper is still seen
            if isinstance(n, (ast.Global, ast.Nonlocal)) or \
                    (isinstance(n, ast.Call) and isinstance(n.func, ast.Name) and n.func.id in ("globals", "vars", "setattr")):
                out.add("global")
            elif isinstance(n, ast.AugAssign):
                if base(n.target) in alias and not (isinstance(n.target, ast.Name) and n.target.id not in params and False):
                    out.add("mutates")
            elif isinstance(n, ast.Assign):
                for t in n.targets:
                    for x in ([t] if not isinstance(t, (ast.Tuple, ast.List)) else t.elts):
                        if isinstance(x, ast.Subscript) and base(x) in alias:
                            out.add("mutates")
            elif isinstance(n, ast.Call):
                fx = n.func
                last = fx.attr if isinstance(fx, ast.Attribute) else (fx.id if isinstance(fx, ast.Name) else None)
                if last in MP_NAMES:
                    out.add("mp")
                if isinstance(fx, ast.Attribute) and fx.attr in MUT_METHODS and base(fx.value) in alias:
                    out.add("mutates")
                for k in n.keywords:
                    if k.arg == "out":
                        out.add("mutates")
                if isinstance(fx, ast.Name) and fx.id in params:
                    out.add("calls_param")
                # transitive
                callee = None
                if isinstance(fx, ast.Name) and fx.id in mi.funcs and fx.id not in params:
                    callee = (rel, fx.id)
                elif isinstance(fx, ast.Name) and mi.imports.get(fx.id, ("",))[0] == "fn":
                    callee = mi.imports[fx.id][1:]
                elif isinstance(fx, ast.Attribute) and isinstance(fx.value, ast.Name) and mi.imports.get(fx.value.id, ("",))[0] == "rmod":
                    r2 = mi.imports[fx.value.id][1]
                    if fx.attr in self.mods[r2].funcs:
                        callee = (r2, fx.attr)
                if callee is not None:
                    out |= (self.summary(callee[0], callee[1], _stack + (key,)) - {"trivial"})
        self._summ[key] = out
        return out
