"""C08 engine -- configuration-driven symbolic execution of the generator bodies (and their siblings) on *values*.

`GenEval` evaluates a function for one configuration of the solver object (order, which partitions exist, mass None / diagonal / full,
real / complex system ...).  Tests are decided by the *value* of the tested expression under the configuration's facts (`truth`), never by
their spelling, so `if self.rfsize`, `if self.rfsize > 0`, `if not rfsize ... else`, `order != _ZOH` with a module constant, an `elif`
chain or a `continue` all lead to the same path.  A generator loop (`while <true constant>` that contains a `yield`) is run for ONE
symbolic iteration: every name (or attribute of a local object) the loop body assigns starts as the symbol `carry:<name>` - the value left
by an earlier send - and the received message is the pair (j, F1all).  Array accesses are kept as references (root, rows, column) that compose
through views (`D = d[kdof]; D[:, i-1]`, `Force[kdof, i-1]`, `Force[:, i-1][kdof]` are one reference), helpers of the same classes/modules are
followed on their argument values, attribute stores / setattr / getattr / delattr with constant names are attribute effects, `for` over a
constant tuple and list comprehensions over one are unrolled.  Nothing here knows how a local is called.

Objects have identity: `x += y`, `np.add(.., out=x)`, `x[:] = ..` update the object every other name (in this frame and, through parameters, in the
caller's) refers to - when the value is provably an array (`is_array`; for a value an earlier send left behind this is an induction the rule checks),
otherwise those other names become Unknown.  A column of a watched array bound to a local stays a view of it (`col = V[:, i]; col += ..` is a store),
a load of a cell the same iteration has stored reads the stored value, copies are new objects."""
from __future__ import annotations

import ast

from . import e2_formula as F
from . import sem
from .core import Unsupported
from .e1_srcmodel import dotted, walk_no_nested
from .e2_eval import AutoEvaluator, Evaluator, Unknown, const_from_node, is_unknown, need, ZERO_CTORS

NONE = F.sym("None")
ALLM = F.sym(":")
J = F.sym("j")
F1ALL = F.sym("F1all")
_NEWAXIS = object()


def symname(v):
    """name of a value that is exactly one symbol, else None"""
    if v is None or is_unknown(v) or isinstance(v, tuple):
        return None
    try:
        if not v.d.is_const() or v.d.const_value() != 1 or len(v.n.t) != 1:
            return None
        (m, c), = v.n.t.items()
        if c != 1 or len(m) != 1 or m[0][1] != 1:
            return None
        d = F.atom_desc(m[0][0])
    except Exception:  # noqa
        return None
    return d[1] if d[0] == "s" else None


def is_all(v):
    return v is ALLM or symname(v) == ":"


def strconst(v):
    """the Python string a value stands for (AutoEvaluator reads 'abc' as the symbol named repr('abc'))"""
    s = symname(v)
    if s and len(s) >= 2 and s[0] in "'\"" and s[-1] == s[0]:
        try:
            r = ast.literal_eval(s)
        except Exception:  # noqa
            return None
        return r if isinstance(r, str) else None
    return None


def depends(v, name):
    if v is None or is_unknown(v):
        return False
    if isinstance(v, tuple):
        return any(depends(x, name) for x in v)
    if not isinstance(v, F.Rat):
        return False
    return v.depends_on(name)


# ---------------------------------------------------------------------------------------------------------------- values that are not formulas
class Closure:
    """a function defined inside the function being evaluated (`def` statement or lambda): called on its argument values in the scope that
    defined it (late binding: the defining scope's environment at the time of the call)"""

    def __init__(self, node, ev):
        self.node, self.ev = node, ev

    def __repr__(self):
        return f"Closure({getattr(self.node, 'name', 'lambda')})"


class OpenStar:
    """`*seq` at the end of a call's positional arguments where `seq` is an opaque sequence of unknown length"""

    def __init__(self, seq):
        self.seq = seq


class Getter:
    """operator.attrgetter(...) / operator.itemgetter(...) with constant keys"""

    def __init__(self, kind, keys):
        self.kind, self.keys = kind, tuple(keys)

    def __repr__(self):
        return f"Getter({self.kind}, {self.keys})"


class Partial:
    """functools.partial(f, *args, **kw)"""

    def __init__(self, func, args, kw):
        self.func, self.args, self.kw = func, list(args), dict(kw)

    def __repr__(self):
        return f"Partial({self.func!r})"


def is_callable_value(v):
    return isinstance(v, (Closure, Getter, Partial))


HEAP = "obj#"


def slot_key(k):
    """text of a constant key (a string or an integer) in the name of a heap slot: obj#3['frc'], obj#3[0]"""
    return repr(k)


# ---------------------------------------------------------------------------------------------------------------- truth of a value
class Facts:
    """what a configuration knows: truth of some values, sign of some symbols, symbols that are pairwise different objects, and
    *generic* symbols (a generic symbol differs from whatever it is compared with)"""

    def __init__(self, truths=(), signs=None, generic=(), distinct=("None", "float", "complex"), generic_prefix=None, ge2=()):
        self.ge2 = list(ge2)                # values known to be at least 2 (the number of time steps when a send is possible)
        self.ge2_exact = False              # ... taken to be exactly 2 (the smallest case in which a send is possible)
        self.truths = list(truths)
        self.signs = dict(signs or {})
        self.generic = set(generic)
        self.generic_prefix = generic_prefix
        self.distinct = set(distinct)
        self.tests = []
        self.pin = {}                       # symbol -> constant it is taken to be when a comparison is decided (a world: the first send, j = 1)
        self.generic_side = None            # '+' / '-': a world in which a generic step index lies far after / far before the step being sent
        self.lost = []                      # calls whose effects on the arrays could not be followed: the evaluation must not be used
        self.crashes = []                   # (message, statement): a name read on the path taken that nothing has bound (NameError / UnboundLocalError)
        self.carry_inits = {}               # carried slot -> its value before the receiving loop
        self.no_assume = set()              # carried slots for which that assumption must not be made
        self.assumed_arrays = set()         # carried slots taken to hold an array because their initial value is one (to be checked on what sends leave)

    def is_generic(self, name):
        return name in self.generic or (self.generic_prefix is not None and name.startswith(self.generic_prefix))


def free_syms(v, out=None):
    """names of the symbols a value is built from (through opaque applications too)"""
    out = set() if out is None else out
    if v is None or is_unknown(v):
        return out
    if isinstance(v, tuple):
        for x in v:
            free_syms(x, out)
        return out
    if not isinstance(v, F.Rat):
        return out
    for p_ in (v.n, v.d):
        for a in p_.atoms():
            _atom_syms(a, out)
    return out


def _atom_syms(a, out):
    d = F.atom_desc(a)
    if d[0] == "s":
        out.add(d[1])
    elif d[0] in ("exp", "sin", "cos", "sqrt"):
        for a2 in F._poly_from_key(d[1]).atoms():
            _atom_syms(a2, out)
    elif d[0] == "fn":
        for k in d[2]:
            if isinstance(k, tuple) and k and k[0] == "rat":
                for a2 in F._poly_from_key(k[1]).atoms():
                    _atom_syms(a2, out)
                for a2 in F._poly_from_key(k[2]).atoms():
                    _atom_syms(a2, out)


def _sign(v, facts):
    if facts.pin and not v.is_const():
        v = v.subs(facts.pin)
    if v.is_const():
        c = v.const_value()
        return "+" if c > 0 else ("-" if c < 0 else "0")
    s = symname(v)
    if s is not None and s in facts.signs:
        return facts.signs.get(s)
    for g in facts.ge2:
        k = v - g
        if k.is_const():                    # v = g + k >= 2 + k
            lo = 2 + k.const_value()
            if facts.ge2_exact:
                return "+" if lo > 0 else ("-" if lo < 0 else "0")
            return "+" if lo > 0 else (">=0" if lo == 0 else None)
        k = v + g
        if k.is_const():                    # v = k - g <= k - 2
            hi = k.const_value() - 2
            if facts.ge2_exact:
                return "+" if hi > 0 else ("-" if hi < 0 else "0")
            return "-" if hi < 0 else None
    return None


def _equal3(a, b, facts):
    if a.equals(b):
        return True
    d = a - b
    if facts.pin and not d.is_const():
        d = d.subs(facts.pin)
        if d.is_zero():
            return True
    if d.is_const():
        return False
    if (facts.generic or facts.generic_prefix) and any(facts.is_generic(s_) for s_ in free_syms(d)):
        return False
    sa, sb = symname(a), symname(b)
    if sa == "None" or sb == "None":
        return False           # a value that is not the None of this configuration is an object
    if sa in facts.distinct and sb in facts.distinct:
        return False
    if sa and sb and sa[0] in "'\"" and sb[0] in "'\"":
        return False           # two different string constants
    sg = _sign(d, facts)
    if sg in ("+", "-"):
        return False
    if sg == "0":
        return True
    return None


def _sided_sign(d, facts):
    """sign of c*g + r for a single generic symbol g (a step index an earlier send left behind) in a world of send histories in which g lies
    far after ('+') or far before ('-') the step being sent: c a non-zero number, r built from the sent index j and numbers only (anything else -
    the number of time steps, a second generic symbol - bounds g or is unordered with it: undecided).  Such histories exist for every margin
    (send(1 .. j+M) then send(j); send(j-M) then send(j)), so the sign is that of c (resp. -c) for all M from some margin on."""
    if facts.pin and not d.is_const():
        d = d.subs(facts.pin)
    gs = [s_ for s_ in free_syms(d) if facts.is_generic(s_)]
    if len(gs) != 1:
        return None
    try:
        c = d.diff(gs[0])
    except Exception:  # noqa
        return None
    if not isinstance(c, F.Rat) or not c.is_const() or c.const_value() == 0:
        return None
    r = d - c * F.sym(gs[0])
    if not free_syms(r) <= {"j"}:
        return None
    up = (c.const_value() > 0) == (facts.generic_side == "+")
    return "+" if up else "-"


def truth(v, facts):
    """three-valued truth of a value under the facts of a configuration"""
    if v is None or is_unknown(v):
        return None
    if isinstance(v, tuple):
        return len(v) > 0
    if not isinstance(v, F.Rat):
        return True if is_callable_value(v) else None
    for fv, tv in facts.truths:
        if v.equals(fv):
            return tv
    if v.is_const():
        return v.const_value() != 0
    s = symname(v)
    if s is not None:
        if s in ("None", "False"):
            return False
        if s == "True":
            return True
        sg = facts.signs.get(s)
        if sg in ("+", "-"):
            return True
        if sg == "0":
            return False
        return None
    u = sem.unfn(v)
    if u is None:
        return None
    name, args = u
    if name == "not":
        t = truth(args[0], facts)
        return None if t is None else (not t)
    if name in ("bool:And", "bool:Or"):
        ts = [truth(a, facts) for a in args]
        if name == "bool:And":
            if any(t is False for t in ts):
                return False
            return True if all(t is True for t in ts) else None
        if any(t is True for t in ts):
            return True
        return False if all(t is False for t in ts) else None
    if name.startswith("cmp:") and len(args) == 2 and not isinstance(args[0], str) and not isinstance(args[1], str):
        op = name[4:]
        a, b = args
        if op in ("Eq", "Is", "NotEq", "IsNot"):
            e = _equal3(a, b, facts)
            if e is None:
                return None
            return e if op in ("Eq", "Is") else (not e)
        sg = _sign(a - b, facts)
        if sg is None and facts.generic_side in ("+", "-"):
            sg = _sided_sign(a - b, facts)
        if sg is None:
            return None
        table = {"Lt": {"-": True, "0": False, "+": False, ">=0": False}, "LtE": {"-": True, "0": True, "+": False},
                 "Gt": {"+": True, "0": False, "-": False}, "GtE": {"+": True, "0": True, ">=0": True, "-": False}}
        return table.get(op, {}).get(sg)
    return None


# ---------------------------------------------------------------------------------------------------------------- module constants
class ModConsts:
    """module-level constants (numbers, strings, tuples of them), followed through `from .x import NAME` inside the package"""

    def __init__(self, src):
        self.src = src
        self.cache = {}

    def get(self, rel, name, depth=0):
        key = (rel, name)
        if key in self.cache:
            return self.cache[key]
        self.cache[key] = None
        try:
            m = self.src.mod(rel)
        except Exception:  # noqa
            return None
        val = None
        for st in m.tree.body:
            if isinstance(st, ast.FunctionDef) and st.name == name and depth > 0:
                val = F.sym(name)           # a function named inside a module-level table: the reference to it
            elif isinstance(st, (ast.Assign, ast.AnnAssign)):
                tg = st.targets if isinstance(st, ast.Assign) else [st.target]
                if st.value is not None and any(isinstance(t, ast.Name) and t.id == name for t in tg):
                    val = self._lit(st.value, rel, depth)
            elif isinstance(st, ast.ImportFrom) and st.level >= 1 and depth < 3 and st.module:
                for al in st.names:
                    if (al.asname or al.name) == name:
                        base = rel.rsplit("/", st.level)[0]
                        val = self.get(f"{base}/{st.module.replace('.', '/')}.py", al.name, depth + 1)
        self.cache[key] = val
        return val

    def _lit(self, node, rel, depth):
        if isinstance(node, ast.Constant):
            if isinstance(node.value, bool):
                return F.sym(str(node.value))
            if isinstance(node.value, (int, float)):
                return F.const(const_from_node(node, self.src))
            if isinstance(node.value, str):
                return F.sym(repr(node.value))
            return None
        if isinstance(node, (ast.Tuple, ast.List)):
            out = tuple(self._lit(e, rel, depth) for e in node.elts)
            return None if any(x is None for x in out) else out
        if isinstance(node, ast.Name) and depth < 3:
            return self.get(rel, node.id, depth + 1)
        if isinstance(node, ast.UnaryOp) and isinstance(node.op, ast.USub):
            v = self._lit(node.operand, rel, depth)
            return None if v is None or isinstance(v, tuple) or not isinstance(v, F.Rat) else -v
        if isinstance(node, ast.Call):
            return getter_of(node)
        return None


# partitions of the equations that never share a row (rf / non-rf; kdof is a subset of nonrf; rb and el split kdof / nonrf)
_DISJOINT = [{"self.rf", "self.kdof"}, {"self.rf", "self.nonrf"}, {"self.rf", "self.rb"}, {"self.rf", "self.el"}, {"self.rb", "self.el"},
             {"self.rb", "self.kdof"}]
_INPLACE_METHODS = frozenset(("fill", "sort", "partition", "resize", "itemset", "put", "setfield", "byteswap", "__setitem__", "__iadd__", "__isub__",
                             "__imul__", "__itruediv__", "__imatmul__", "setflags"))
_OPERATOR_BIN = {"operator.mul": ast.Mult, "operator.matmul": ast.Mult, "operator.add": ast.Add, "operator.sub": ast.Sub, "operator.truediv": ast.Div,
                 "operator.__mul__": ast.Mult, "operator.__matmul__": ast.Mult, "operator.__add__": ast.Add, "operator.__sub__": ast.Sub}


def getter_of(node):
    """operator.attrgetter('a', 'b') / operator.itemgetter(0, 2) with constant keys -> Getter, else None"""
    d = dotted(node.func) or ""
    kind = {"attrgetter": "attr", "itemgetter": "item"}.get(d.split(".")[-1])
    if kind is None or node.keywords or not node.args or d.split(".")[0] not in ("operator", "attrgetter", "itemgetter"):
        return None
    keys = []
    for a in node.args:
        if not isinstance(a, ast.Constant) or isinstance(a.value, bool):
            return None
        if kind == "attr" and not isinstance(a.value, str):
            return None
        if kind == "item" and not isinstance(a.value, (int, str)):
            return None
        keys.append(a.value)
    return Getter(kind, keys)


def parent_if(node):
    n = getattr(node, "_vparent", None)
    while n is not None and not isinstance(n, ast.If):
        n = getattr(n, "_vparent", None)
    return n


def rel_of(fn):
    m = getattr(fn, "_vmod", None)
    return m.rel if m is not None else None


def _contains(stmts, types):
    for st in stmts:
        for n in ast.walk(st):
            if isinstance(n, types):
                return True
    return False


def _has_yield(node):
    return any(isinstance(n, (ast.Yield, ast.YieldFrom)) for n in ast.walk(node))


def _has_yield_in_handlers(st):
    return any(_has_yield(x) for h in st.handlers for x in h.body)


def _only_raises(stmts):
    return bool(stmts) and all(isinstance(s, ast.Raise) or (isinstance(s, ast.Expr) and isinstance(s.value, ast.Constant)) for s in stmts)


def _store_targets(stmts):
    """names and dotted attribute chains (as written) assigned anywhere in the statements"""
    out = []

    def tgt(t):
        if isinstance(t, ast.Name):
            out.append(t)
        elif isinstance(t, ast.Attribute):
            out.append(t)
        elif isinstance(t, (ast.Tuple, ast.List)):
            for e in t.elts:
                tgt(e)
        elif isinstance(t, ast.Starred):
            tgt(t.value)

    for st in stmts:
        for n in ast.walk(st):
            if isinstance(n, ast.Assign):
                for t in n.targets:
                    tgt(t)
            elif isinstance(n, (ast.AugAssign, ast.AnnAssign)):
                tgt(n.target)
            elif isinstance(n, ast.NamedExpr):
                tgt(n.target)
            elif isinstance(n, ast.For):
                tgt(n.target)
            elif isinstance(n, ast.Call):
                for k in n.keywords:
                    if k.arg == "out":
                        tgt(k.value)
    return out


# ---------------------------------------------------------------------------------------------------------------- the evaluator
class GenEval(AutoEvaluator):
    def __init__(self, ctx, fn, env=None, facts=None, inline=None, refhook=None, sided=False, carry=None, fresh_arrays=False,
                 consts=None, depth=0, strict=False, shapes=None, heap=None, heap_written=None, heap_carried=None):
        super().__init__(None, src=ctx.src, env=env)
        self.ctx = ctx
        self.fn = fn
        self.rel = rel_of(fn)
        self.shapes = shapes if shapes is not None else {}      # symbol of an array -> tuple of its dimensions (values)
        self.heap = heap if heap is not None else {}            # obj#N -> kind ('namespace' | 'dict'): mutable objects live in env as obj#N.attr / obj#N['key']
        self.heap_written = heap_written if heap_written is not None else set()     # heap slots stored into inside the generator loop
        self.heap_carried = heap_carried                        # heap slots that start the iteration as carry symbols (None: all that exist at loop entry)
        self.heap_entry = []                                    # heap slots that existed at loop entry
        self.loop_ev = None                                     # the evaluator that ran the generator loop (self, or a `yield from` sub-generator)
        self.views = {}
        self.skipped_handlers = []                              # `except` handlers not followed
        self.facts = facts or Facts()
        self.cond = self._cond
        self.inline = inline or {}
        self.refhook = refhook
        self.sided = sided
        self.carry_over = dict(carry or {})     # carried name -> value to start the iteration with (default: the symbol carry:<name>)
        self.fresh_arrays = fresh_arrays
        self.fresh = {}                         # fresh array symbol -> (kind, source value)
        self.consts = consts or ModConsts(ctx.src)
        self.inline_depth = depth
        self.strict = strict                    # an undecided test is an error (inside generator loops and followed helpers)
        self.loop = None
        self.in_loop = False
        self.iter_done = False
        self.pre_env = None
        self.carried = []                       # canonical names that start the iteration as carry symbols
        self.carry_init = {}                    # canonical name -> value before the loop (absent: unbound before the first positive send)
        self.gcells = []                        # dict(root, rows, col, value, cur, node, in_loop)
        self.events = []                        # ("call", name, pos, kws, node) | ("setattr", dotted, value, node) | ("del", dotted, node) | ("raise", node)
        self.trace = []                         # ("stmt", node) | ("enter", call node, fn) | ("exit", call node, fn)
        self.skipped_guards = []
        self.prime_yields = []                  # bare `yield` statements executed before the generator loop
        self.maybe_prime = []                   # ... that sit under a test the configuration does not decide
        a = fn.args
        params = {x.arg for x in a.posonlyargs + a.args + a.kwonlyargs} | ({a.vararg.arg} if a.vararg else set()) | ({a.kwarg.arg} if a.kwarg else set())
        self.params_ = params
        self.locals_ = set()
        self.nonlocals_ = set()
        for n in walk_no_nested(fn):
            if isinstance(n, ast.Name) and isinstance(n.ctx, (ast.Store, ast.Del)) and n.id not in params:
                self.locals_.add(n.id)
            elif isinstance(n, (ast.Nonlocal, ast.Global)):
                self.nonlocals_.update(n.names)
            elif isinstance(n, (ast.FunctionDef, ast.AsyncFunctionDef)) and n is not fn:
                self.locals_.add(n.name)
        self.locals_ -= self.nonlocals_

    # ------------------------------------------------------------------ conditions
    def _cond(self, test, ev):
        v = self.ev(test)
        self.facts.tests.append(v)
        return truth(v, self.facts)

    # ------------------------------------------------------------------ expressions
    def _ev(self, node):
        if isinstance(node, ast.Name):
            return self._name(node.id)
        if isinstance(node, ast.Attribute):
            return self._attr(node)
        if isinstance(node, ast.Subscript):
            return self._subscript(node)
        if isinstance(node, ast.Yield):
            if self.in_loop:
                return (J, F1ALL)
            return NONE
        if isinstance(node, ast.YieldFrom):
            return self._yield_from(node)
        if isinstance(node, ast.Lambda):
            return Closure(node, self)
        if isinstance(node, ast.Dict) and all(k is not None for k in node.keys):
            return self._new_dict([(self.ev(k), self.ev(v)) for k, v in zip(node.keys, node.values)], node)
        if isinstance(node, ast.Compare) and len(node.ops) == 1 and isinstance(node.ops[0], (ast.Is, ast.IsNot, ast.Eq, ast.NotEq)):
            a, b = self.ev(node.left), self.ev(node.comparators[0])
            for x, y in ((a, b), (b, a)):
                # a tuple, a function or an object created here is not None
                if symname(x) == "None" and (isinstance(y, tuple) or is_callable_value(y) or (symname(y) or "").startswith(HEAP)):
                    return F.sym("False" if isinstance(node.ops[0], (ast.Is, ast.Eq)) else "True")
        if isinstance(node, (ast.ListComp, ast.GeneratorExp)):
            return self._comprehension(node)
        if isinstance(node, ast.Compare) and len(node.ops) > 1 \
                and not any(isinstance(n_, (ast.Call, ast.NamedExpr, ast.Yield, ast.YieldFrom, ast.Await)) for c_ in node.comparators[:-1] for n_ in ast.walk(c_)):
            # a < b <= c is (a < b) and (b <= c); b is evaluated once by Python, which makes no difference for an operand without calls
            terms, left = [], node.left
            for op_, right in zip(node.ops, node.comparators):
                terms.append(ast.copy_location(ast.Compare(left=left, ops=[op_], comparators=[right]), node))
                left = right
            return self._ev(ast.copy_location(ast.BoolOp(op=ast.And(), values=terms), node))
        if isinstance(node, ast.BoolOp):
            # operands left to right; evaluation stops where Python stops, and is speculative once an operand is undecided
            vals, spec = [], 0
            try:
                for x in node.values:
                    v = self.ev(x)
                    t = truth(v, self.facts)
                    if (t is False and isinstance(node.op, ast.And)) or (t is True and isinstance(node.op, ast.Or)):
                        if not vals:
                            return v
                        vals.append(v)
                        break
                    if t is None:
                        self.speculative += 1
                        spec += 1
                        vals.append(v)
                    # a decided operand that does not stop the evaluation does not change the value of the whole
                if not vals:
                    return v
                if len(vals) == 1 and spec == 0:
                    return vals[0]
            finally:
                self.speculative -= spec
            if any(is_unknown(v) or not isinstance(v, F.Rat) for v in vals):
                return next((v for v in vals if is_unknown(v)), Unknown("bool of objects"))
            return F.fn("bool:" + type(node.op).__name__, *[need(v) for v in vals]) if len(vals) > 1 else vals[0]
        if isinstance(node, ast.Compare) or (isinstance(node, ast.UnaryOp) and isinstance(node.op, ast.Not)):
            v = super()._ev(node)
            if isinstance(v, F.Rat) and not v.is_const():
                # a test the configuration decides is the constant it evaluates to (`first_order = self.order == 1` used as an index or a key);
                # tests on what an earlier send left behind stay symbolic: the rules look at them
                t = truth(v, self.facts)
                if t is not None and not any(s_.startswith("carry:") for s_ in free_syms(v)):
                    return F.sym("True" if t else "False")
            return v
        if isinstance(node, ast.JoinedStr):
            parts = []
            for x in node.values:
                if isinstance(x, ast.Constant) and isinstance(x.value, str):
                    parts.append(x.value)
                elif isinstance(x, ast.FormattedValue) and x.format_spec is None and x.conversion == -1 and strconst(self.ev(x.value)) is not None:
                    parts.append(strconst(self.ev(x.value)))
                else:
                    return F.sym("<text>")
            return F.sym(repr("".join(parts)))
        if isinstance(node, ast.BinOp) and isinstance(node.op, ast.Mod) and isinstance(node.left, ast.Constant) and isinstance(node.left.value, str):
            return F.sym("<text>")
        if isinstance(node, ast.BinOp) and isinstance(node.op, ast.Add):
            a, b = self.ev(node.left), self.ev(node.right)
            if strconst(a) is not None and strconst(b) is not None:
                return F.sym(repr(strconst(a) + strconst(b)))
            if isinstance(a, tuple) and isinstance(b, tuple):
                return a + b
        if isinstance(node, ast.NamedExpr):
            v = self.ev(node.value)
            self._assign(node.target, v, node)
            return v
        if isinstance(node, ast.Starred):
            return Unknown("starred expression")
        return super()._ev(node)

    def _name(self, nm):
        if nm in self.env:
            v = self.env[nm]
            if self.in_loop and nm in self.carried and nm not in self.carry_init and self.facts.signs.get("j") == "+" and symname(v) == "carry:" + nm \
                    and not any(isinstance(g_, F.Rat) and g_.equals(J) for g_ in self.facts.ge2):
                # nothing binds the name before the loop and this send has not bound it yet: the very first send (a positive one) dies here
                self._crash(f"local `{nm}` is not bound on this path (the first send reads it before anything is bound to it)")
            return v
        if nm in self.locals_:
            # a local that no statement on this path has bound: reading it is an UnboundLocalError, not a symbol of its own
            self._crash(f"local `{nm}` is not bound on this path")
            return Unknown(f"local `{nm}` is not bound on this path")
        if self.rel is not None:
            c = self.consts.get(self.rel, nm)
            if c is not None:
                return c
        if nm not in self.params_ and not self._is_global(nm):
            self._crash(f"name `{nm}` is not defined")
            return Unknown(f"name `{nm}` is not defined")       # NameError at run time - never a symbol that may coincide with an expected one
        return F.sym(nm)

    speculative = 0         # > 0 while evaluating something Python might not evaluate (operands after an undecided short-circuit)
    cur_stmt = None

    def _crash(self, msg):
        if not self.speculative and not any(m == msg for m, _ in self.facts.crashes):
            self.facts.crashes.append((msg, self.cur_stmt))

    def _is_global(self, nm):
        import builtins
        if hasattr(builtins, nm):
            return True
        m = getattr(self.fn, "_vmod", None)
        if m is None:
            return True
        g = getattr(m, "_c08_globals", None)
        if g is None:
            g = set()
            for st in m.tree.body:
                for n in ([st] if not isinstance(st, (ast.If, ast.Try)) else ast.walk(st)):
                    if isinstance(n, (ast.Import, ast.ImportFrom)):
                        for al in n.names:
                            g.add((al.asname or al.name).split(".")[0])
                    elif isinstance(n, (ast.FunctionDef, ast.ClassDef, ast.AsyncFunctionDef)):
                        g.add(n.name)
                    elif isinstance(n, (ast.Assign, ast.AnnAssign, ast.AugAssign)):
                        for t in (n.targets if isinstance(n, ast.Assign) else [n.target]):
                            for x in ast.walk(t):
                                if isinstance(x, ast.Name):
                                    g.add(x.id)
            m._c08_globals = g
        return nm in g

    def canon_dotted(self, node):
        """dotted chain with the root local replaced by the object it names (`pc = self.pc; pc.F` -> self.pc.F)"""
        parts = []
        n = node
        while isinstance(n, ast.Attribute):
            parts.append(n.attr)
            n = n.value
        if not isinstance(n, ast.Name):
            return None
        root = n.id
        if root in self.env:
            s = symname(self.env[root])
            if s is not None and not s.startswith("'"):
                root = s
        return ".".join([root] + parts[::-1])

    def _attr(self, node):
        d = self.canon_dotted(node)
        if d is not None and d in self.env:
            return self.env[d]
        if d is not None and d in self.inline and self.inline_depth < 5 and self.inline[d] is not self.fn and isinstance(node.ctx, ast.Load) \
                and any((dotted(x) or "").split(".")[-1] in ("property", "cached_property") for x in self.inline[d].decorator_list):
            call = ast.copy_location(ast.Call(func=node, args=[], keywords=[]), node)       # a property: reading it runs the method
            r = self._inline(call, d)
            if r is not NotImplemented:
                return r
        base = self._ev(node.value)
        return self.attr_value(base, node.attr, node)

    def attr_value(self, base, attr, node=None):
        """value of <base value>.attr"""
        if is_unknown(base):
            return base
        if attr == "T":
            return self._T(base)
        if isinstance(base, tuple):
            return Unknown(f"attribute `{attr}` of a tuple")
        if not isinstance(base, F.Rat):
            return Unknown(f"attribute `{attr}` of {base!r}")
        if attr in ("real", "imag"):
            return F.fn("re" if attr == "real" else "im", need(base))
        s = symname(base)
        if s is not None and attr == "__dict__":
            return F.sym("vars:" + s)
        if s is not None:
            dd = f"{s}.{attr}"
            if dd in self.env:
                return self.env[dd]
            if attr == "shape" and s in self.shapes:
                return self.shapes[s]
            if s.startswith(HEAP):
                if self.heap.get(s) == "dict":
                    return F.sym(f"{s}.{attr}")         # a method of the dict (.get, .items ...): the call decides
                return Unknown(f"attribute `{attr}` of the object is not defined")
            return F.sym(dd)
        return F.fn("attr:" + attr, need(base))

    # ---- mutable objects created by the code (SimpleNamespace, dict): identity obj#N, content in env
    def _new_obj(self, kind):
        s = f"{HEAP}{len(self.heap)}"
        self.heap[s] = kind
        return s

    def _new_namespace(self, kws, node):
        s = self._new_obj("namespace")
        for k, v in kws.items():
            self.env[f"{s}.{k}"] = v
        return F.sym(s)

    def _const_key(self, v):
        """the Python constant (str / int) an index value stands for, else None"""
        if v is None or is_unknown(v) or isinstance(v, tuple) or not isinstance(v, F.Rat):
            return None
        t = strconst(v)
        if t is not None:
            return t
        if v.is_const() and v.const_value().denominator == 1:
            return int(v.const_value())
        if symname(v) in ("True", "False"):
            return int(symname(v) == "True")
        return None

    def _new_dict(self, items, node):
        s = self._new_obj("dict")
        for k, v in items:
            ck = self._const_key(k)
            if ck is None:
                return Unknown("dict with a key that is not a constant")
            self.env[f"{s}[{slot_key(ck)}]"] = v
        return F.sym(s)

    def dict_view(self, obj, what="keys"):
        """keys / values / items of a dict built here, in insertion order"""
        out = []
        for slot in self.heap_slots(obj):
            try:
                key = ast.literal_eval(slot[len(obj) + 1:-1])
            except Exception:  # noqa
                return Unknown("dict key")
            kv = F.sym(repr(key)) if isinstance(key, str) else F.const(key)
            out.append(kv if what == "keys" else (self.env[slot] if what == "values" else (kv, self.env[slot])))
        return tuple(out)

    def heap_slots(self, obj):
        return [k for k in self.env if k.startswith(obj + ".") or k.startswith(obj + "[")]

    def slot_value(self, slot):
        """value of a carried slot: a name, an attribute path, a heap slot, or a component name[k] of a tuple"""
        if slot in self.env:
            return self.env[slot]
        if slot.endswith("]") and "[" in slot:
            base, _, k = slot[:-1].rpartition("[")
            try:
                k = int(k)
            except ValueError:
                return None
            v = self.slot_value(base)
            if isinstance(v, tuple) and -len(v) <= k < len(v):
                return v[k]
        return None

    def _T(self, v):
        if is_unknown(v) or isinstance(v, tuple):
            return v
        if not self.sided:
            return v
        if v.is_const():
            return v
        u = sem.unfn(v)
        if u is not None and u[0] == "T":
            return u[1][0]
        return F.fn("T", v)

    # ---- subscripts: references (root, rows, column) that compose through views
    def _comp(self, e):
        if isinstance(e, ast.Slice):
            if e.lower is None and e.upper is None and e.step is None:
                return ALLM
            parts = []
            for p_ in (e.lower, e.upper, e.step):
                if p_ is None:
                    parts.append(NONE)
                else:
                    v = self._ev(p_)
                    if is_unknown(v) or isinstance(v, tuple):
                        raise Unsupported(f"slice bound {ast.unparse(p_)}")
                    parts.append(v)
            return F.fn("slice", *parts)
        if isinstance(e, ast.Constant) and e.value is None:
            return _NEWAXIS
        if dotted(e) in ("np.newaxis", "numpy.newaxis"):
            return _NEWAXIS
        v = self._ev(e)
        if is_unknown(v):
            raise Unsupported(v.why)
        if isinstance(v, tuple):
            raise Unsupported(f"tuple used as an index: {ast.unparse(e)}")
        if symname(v) == "None":
            return _NEWAXIS
        u = sem.unfn(v)
        if u is not None and u[0] == "slice" and all(symname(a) == "None" for a in u[1]):
            return ALLM
        return v

    def _comps(self, sl):
        elts = sl.elts if isinstance(sl, ast.Tuple) else [sl]
        return [self._comp(e) for e in elts]

    def _subscript(self, node):
        base = self._ev(node.value)
        if is_unknown(base):
            return base
        if isinstance(base, tuple):
            return self._tuple_index(base, node)
        if not isinstance(base, F.Rat):
            return Unknown(f"subscript of {base!r}")
        s = symname(base)
        if s is not None and s.startswith("vars:"):
            an = strconst(self.ev(node.slice))
            if an is None:
                return Unknown(f"attribute dictionary indexed with a key that is not a constant: {ast.unparse(node)}")
            d = f"{s[5:]}.{an}"
            self.events.append(("getattr", d, node))
            return self.env.get(d, F.sym(d))
        if s is not None and self.heap.get(s) == "dict":
            ck = self._const_key(self.ev(node.slice))
            if ck is None:
                return Unknown(f"dict lookup with a key that is not a constant: {ast.unparse(node)}")
            k = f"{s}[{slot_key(ck)}]"
            if k in self.env:
                return self.env[k]
            return Unknown(f"key {ck!r} of the dict is not defined")
        try:
            comps = self._comps(node.slice)
            return self._index(base, comps)
        except Unsupported as e:
            return Unknown(str(e))

    def _tuple_index(self, base, node):
        from .e2_eval import _vec_index
        r = _vec_index(base, node.slice)
        if r is NotImplemented:
            # an index that is a value (a module constant ...)
            try:
                v = self._ev(node.slice)
            except Unsupported:
                v = None
            k = self._const_key(v)
            if isinstance(k, int) and -len(base) <= k < len(base):
                return base[k]
            return Unknown(f"index into a tuple: {ast.unparse(node)}")
        return r

    def _index(self, base, comps):
        comps = [c for c in comps if c is not _NEWAXIS]
        if not comps or all(is_all(c) for c in comps):
            return base
        u = sem.unfn(base)
        if len(comps) == 1:
            c = comps[0]
            uc = sem.unfn(c)
            sl = uc[1] if (uc is not None and uc[0] == "slice") else None
            if u is not None and (u[0].startswith("call:") or u[0] == "item"):
                # an opaque sequence (the tuple a method returns): constant positions are its items
                if c.is_const():
                    return F.fn("item", base, c)
                if sl is not None and all(symname(x) == "None" or x.is_const() for x in sl) and sl[1].is_const() and symname(sl[2]) == "None":
                    lo = 0 if symname(sl[0]) == "None" else int(sl[0].const_value())
                    hi = int(sl[1].const_value())
                    if 0 <= lo <= hi:
                        return tuple(F.fn("item", base, F.const(k)) for k in range(lo, hi))
            if sl is not None:
                # a row range of a value: linear selector (distributes over sums and products, so (Q @ f)[n:] == Q[n:] @ f)
                return F.fn("rowsel", sl[0], sl[1], sl[2]) * base
        root, rows, col = base, ALLM, ALLM
        if u is not None and u[0] == "ref":
            root, rows, col = u[1]
        if len(comps) == 1:
            r = comps[0]
            rows = r if is_all(rows) else F.fn("sub", rows, r)
        elif len(comps) == 2:
            r, c = comps
            if not is_all(col):
                raise Unsupported("two indices into a selected column")
            if not is_all(r):
                rows = r if is_all(rows) else F.fn("sub", rows, r)
            col = c
        else:
            raise Unsupported("more than two indices")
        if self.iter_stores:
            fw = self._forward(root, rows, col)
            if fw is not None:
                if is_unknown(fw):
                    raise Unsupported(fw.why)
                fw = self._copy_of(fw)
                self._note_view(fw, root, rows, col)
                return fw
        r = self.mkref(root, rows, col)
        self._note_view(r, root, rows, col)
        return r

    def mkref(self, root, rows, col):
        if self.refhook is not None:
            r = self.refhook(self, root, rows, col)
            if r is not None:
                return r
        return F.fn("ref", root, rows, col)

    def target_ref(self, target):
        """(root, rows, col) of a subscript store target, or None"""
        base = self._ev(target.value)
        if is_unknown(base) or isinstance(base, tuple):
            return None
        try:
            comps = [c for c in self._comps(target.slice) if c is not _NEWAXIS]
        except Unsupported:
            return None
        u = sem.unfn(base)
        root, rows, col = base, ALLM, ALLM
        if u is not None and u[0] == "ref":
            root, rows, col = u[1]
        elif self._view_triple(base) is not None:
            root, rows, col = self._view_triple(base)       # a column bound to a local: `col = V[:, i]; col[:] = ...`
        comps = [c for c in comps if symname(c) != "Ellipsis"]
        if not comps:
            pass
        elif len(comps) == 1:
            r = comps[0]
            if not is_all(r):
                rows = r if is_all(rows) else F.fn("sub", rows, r)
        elif len(comps) == 2:
            r, c = comps
            if not is_all(col):
                return None
            if not is_all(r):
                rows = r if is_all(rows) else F.fn("sub", rows, r)
            col = c
        else:
            return None
        return root, rows, col

    def _comprehension(self, node):
        if len(node.generators) != 1 or node.generators[0].ifs or node.generators[0].is_async:
            return Unknown("comprehension")
        g = node.generators[0]
        it = self.ev(g.iter)
        if not isinstance(it, tuple):
            return Unknown("comprehension over a non-constant sequence")
        saved = dict(self.env)
        out = []
        for x in it:
            self._assign(g.target, x, node)
            out.append(self.ev(node.elt))
        names = {t.id for t in ast.walk(g.target) if isinstance(t, ast.Name)}
        for n in names:
            if n in saved:
                self.env[n] = saved[n]
            else:
                self.env.pop(n, None)
        return tuple(out)

    # ------------------------------------------------------------------ calls
    def _callee_name(self, node):
        f = node.func
        if isinstance(f, ast.Name):
            return f.id
        if isinstance(f, ast.Attribute):
            return self.canon_dotted(f)
        return None

    def _record_call(self, node, name=None):
        """one call the evaluator does not follow: (name, positional values, keyword values) with `*seq` / `**dict` expanded; a method of a
        value that is not a named object is recorded as '.method' with the receiver as the first positional value"""
        name = name or self._callee_name(node)
        recv = None
        if isinstance(node.func, ast.Attribute) and (name is None or isinstance(node.func.value, ast.Name) and node.func.value.id in self.env):
            bv = self.ev(node.func.value)
            if name is None or (isinstance(bv, F.Rat) and symname(bv) is None):
                name, recv = "." + node.func.attr, bv
        if name is None:
            return
        av = self._argvals(node)
        if av is not None:
            pos, kws = av
        else:
            pos = [self.ev(a) for a in node.args if not isinstance(a, ast.Starred)]
            kws = {k.arg: self.ev(k.value) for k in node.keywords if k.arg is not None}
        if recv is not None:
            pos = [recv] + list(pos)
        self.seq += 1
        self.call_seq.append(self.seq)
        self.calls.append((name, pos, kws, node))
        self.events.append(("call", name, pos, kws, node))

    def _callee_value(self, node):
        """the value the called expression has when it is not simply the name of a function / method defined elsewhere"""
        f = node.func
        if isinstance(f, ast.Name):
            if f.id in self.env:
                return self.env[f.id]
            if f.id not in self.locals_ and self.rel is not None:
                c = self.consts.get(self.rel, f.id)
                if is_callable_value(c):
                    return c
                return self._module_alias(f.id)
            return None
        if isinstance(f, ast.Attribute):
            d = self.canon_dotted(f)
            if d is not None and d in self.env:
                return self.env[d]
            return None
        return self.ev(f)

    def _module_alias(self, nm):
        """a module-level name bound once to a library function (`_mm = np.matmul`): the symbol of that function; a module-level variable
        bound to anything else that is not a def / class / import: Unknown (calling it cannot be followed)"""
        m = getattr(self.fn, "_vmod", None)
        if m is None:
            return None
        hits = []
        for st in m.tree.body:
            if isinstance(st, (ast.Assign, ast.AnnAssign)):
                tg = st.targets if isinstance(st, ast.Assign) else [st.target]
                if any(isinstance(t, ast.Name) and t.id == nm for t in tg):
                    hits.append(st.value)
            elif isinstance(st, (ast.FunctionDef, ast.ClassDef)) and st.name == nm:
                return None
        if not hits:
            return None
        if len(hits) == 1 and hits[0] is not None:
            d = dotted(hits[0])
            if d and "." in d and d.split(".")[0] in self._lib_modules():
                return F.sym(d)
            if isinstance(hits[0], ast.Call) and (dotted(hits[0].func) or "").split(".")[-1] in ("njit", "jit", "vectorize"):
                return None                 # `f = numba.njit(...)(f)`: the function itself
        return Unknown(f"module-level name `{nm}` is not a function the engine can follow")

    def _apply_value(self, fv, node, argvals=None):
        """call of a function value (closure, getter, partial); NotImplemented when the value is not one.  A call that cannot be followed
        is an error: its effects on the arrays would be lost."""
        if not is_callable_value(fv):
            return NotImplemented
        av = argvals if argvals is not None else self._argvals(node)
        if av is None:
            return self._lost(f"call `{ast.unparse(node)[:60]}` with starred arguments that are not sequences built here")
        if isinstance(fv, Closure):
            return self._call_closure(fv, node, av)
        if isinstance(fv, Getter):
            if len(av[0]) != 1 or av[1]:
                raise Unsupported("getter called with other than one argument")
            out = []
            for k in fv.keys:
                v = av[0][0]
                if fv.kind == "attr":
                    for part in k.split("."):
                        v = self.attr_value(v, part)
                elif fv.kind == "item":
                    v = self.item_value(v, k)
                else:
                    v = self.index_value(v, k)
                out.append(v)
            return out[0] if len(out) == 1 else tuple(out)
        pos, kw = list(fv.args) + list(av[0]), dict(fv.kw)
        kw.update(av[1])
        inner = fv.func
        if is_callable_value(inner):
            return self._apply_value(inner, node, (pos, kw))
        nm = symname(inner)
        if nm is not None and nm in self.inline:
            r = self._inline(node, nm, (pos, kw))
            if r is not NotImplemented:
                return r
        return self._lost(f"partial of a function that cannot be followed: {ast.unparse(node)[:60]}")

    def _lost(self, msg):
        self.facts.lost.append(msg)
        raise Unsupported(msg)

    def index_value(self, base, key):
        """<base value>[key value]"""
        if is_unknown(base) or is_unknown(key):
            return base if is_unknown(base) else key
        if isinstance(base, tuple):
            ck = self._const_key(key)
            return self.item_value(base, ck) if isinstance(ck, int) else Unknown("index into a tuple")
        if not isinstance(base, F.Rat) or not isinstance(key, F.Rat):
            return Unknown("subscript")
        s_ = symname(base)
        if s_ is not None and self.heap.get(s_) == "dict":
            ck = self._const_key(key)
            return self.item_value(base, ck) if ck is not None else Unknown("dict lookup with a key that is not a constant")
        try:
            u = sem.unfn(key)
            if symname(key) == "None":
                return base
            if u is not None and u[0] == "slice" and all(symname(a) == "None" for a in u[1]):
                return base
            return self._index(base, [key])
        except Unsupported as e:
            return Unknown(str(e))

    def item_value(self, base, key):
        """<base value>[constant key]"""
        if is_unknown(base):
            return base
        if isinstance(base, tuple):
            if isinstance(key, int) and -len(base) <= key < len(base):
                return base[key]
            return Unknown(f"item {key!r} of a tuple")
        s = symname(base)
        if s is not None and self.heap.get(s) == "dict":
            return self.env.get(f"{s}[{slot_key(key)}]", Unknown(f"key {key!r} of the dict is not defined"))
        if isinstance(key, int) and isinstance(base, F.Rat):
            try:
                return self._index(base, [F.const(key)])
            except Unsupported as e:
                return Unknown(str(e))
        return Unknown(f"item {key!r}")

    def _heap_method(self, node):
        """(object, FunctionDef) when the call is a method call on an object of a small class of the module created here"""
        if not isinstance(node.func, ast.Attribute) or dotted(node.func.value) is None:
            return None                     # (the receiver is a name or an attribute chain: evaluating it twice has no effect)
        try:
            bv = self.ev(node.func.value)
        except Unsupported:
            return None
        s_ = symname(bv)
        cdef = self.heap.get("class:" + s_) if s_ is not None and s_.startswith(HEAP) else None
        if cdef is None:
            return None
        if f"{s_}.{node.func.attr}" in self.env:
            return None                     # an instance attribute that holds a function: called as a value
        for x in cdef.body:
            if isinstance(x, ast.FunctionDef) and x.name == node.func.attr:
                if any((dotted(d) or "").split(".")[-1] in ("staticmethod", "classmethod", "property") for d in x.decorator_list):
                    return s_, None
                return s_, x
        return s_, None

    def _call(self, node):
        hm = self._heap_method(node)
        if hm is not None:
            obj, mfn = hm
            r = self._inline(node, f"{obj}.{node.func.attr}", fn=mfn, selfobj=obj) if mfn is not None and self.inline_depth < 5 else NotImplemented
            if r is NotImplemented:
                return self._lost(f"`{ast.unparse(node)[:60]}`: a method of an object created here that cannot be followed")
            return r
        name = self._callee_name(node)
        if name is not None and name not in self.inline:
            name = self._lib_name(name)               # `from operator import matmul as _mm` -> operator.matmul; numpy.x -> np.x
        fv = self._callee_value(node)
        if fv is not None:
            r = self._apply_value(fv, node)
            if r is not NotImplemented:
                return r
            s_ = symname(fv)
            if s_ is not None and s_ in self.inline:
                name = s_          # a local that names a function / bound method defined elsewhere: `step = _cdf_step`, `f = self._helper`
            elif s_ is not None and "." in s_ and (s_.split(".")[0] in self._lib_modules() or s_.split(".")[0] in ("operator", "np", "numpy", "scipy", "math", "la"))\
                    and isinstance(node.func, ast.Name):
                name = s_          # a library function under another name: `times = operator.mul if unc else operator.matmul`, `mm = np.matmul`
            elif isinstance(node.func, ast.Name):
                # a name bound here to something that is not a function the engine knows: what the call computes (and changes) is not known
                return self._lost(f"`{ast.unparse(node)[:60]}`: `{node.func.id}` is bound to a value the engine cannot call ({fv!r})"[:200])
        if name is not None and name in self.inline and self.inline_depth < 5 and self.inline[name] is not self.fn:
            r = self._inline(node, name)
            if r is not NotImplemented:
                return r
            if not _has_yield(self.inline[name]):
                return self._lost(f"call `{ast.unparse(node)[:60]}` of a function of these modules cannot be followed")
        args = node.args
        kw = {k.arg: k.value for k in node.keywords if k.arg is not None}
        meth = node.func.attr if isinstance(node.func, ast.Attribute) else None

        # --- effects on attributes / in-place library calls are not "calls" of the trace
        if name in ("getattr",) and len(args) >= 2:
            o, a = self.ev(args[0]), self.ev(args[1])
            s, an = symname(o), strconst(a)
            if s is not None and an is not None:
                d = f"{s}.{an}"
                self.events.append(("getattr", d, node))
                return self.env.get(d, F.sym(d))
        if name in ("setattr",) and len(args) == 3:
            o, a = self.ev(args[0]), self.ev(args[1])
            s, an = symname(o), strconst(a)
            if s is not None and an is not None:
                v = self.ev(args[2])
                self.env[f"{s}.{an}"] = v
                self.events.append(("setattr", f"{s}.{an}", v, node))
                return NONE
        if name in ("delattr",) and len(args) == 2:
            o, a = self.ev(args[0]), self.ev(args[1])
            s, an = symname(o), strconst(a)
            if s is not None and an is not None:
                self.env.pop(f"{s}.{an}", None)
                self.events.append(("del", f"{s}.{an}", node))
                return NONE
        if name == "vars" and len(args) == 1 and not kw:
            o = symname(self.ev(args[0]))
            if o is not None:
                return F.sym("vars:" + o)          # the attribute dictionary of a named object: its items are the object's attribute slots
        if meth in ("pop", "get", "update", "setdefault", "__getitem__") and isinstance(node.func, ast.Attribute):
            o = symname(self.ev(node.func.value)) or ""
            if o.startswith("vars:"):
                o = o[5:]
                an = strconst(self.ev(args[0])) if args else None
                if meth in ("pop", "get", "__getitem__") and an is not None and len(args) <= 2 and not kw:
                    d = f"{o}.{an}"
                    self.events.append(("getattr", d, node))
                    if d in self.env:
                        v = self.env[d]
                    elif len(args) == 2:
                        v = self.ev(args[1])
                    else:
                        v = F.sym(d) if not o.startswith(HEAP) else Unknown(f"attribute `{an}` of the object is not defined")
                    if meth == "pop":
                        self.env.pop(d, None)
                        self.events.append(("del", d, node))
                    return v
                if meth == "update" and not args and all(k.arg is not None for k in node.keywords):
                    for k_, x in kw.items():
                        v = self.ev(x)
                        self.env[f"{o}.{k_}"] = v
                        self.events.append(("setattr", f"{o}.{k_}", v, node))
                    return NONE
                return self._lost(f"`{ast.unparse(node)[:60]}`: the attribute dictionary of an object used in a way the engine does not follow")
        if name == "zip" and args and not kw:
            vs = [self.ev(a) for a in args]
            vs = [tuple(F.sym(repr(ch)) for ch in strconst(v)) if strconst(v) is not None else v for v in vs]
            n = min((len(v) for v in vs if isinstance(v, tuple)), default=None)
            if n is not None:
                cols = []
                for v in vs:
                    if isinstance(v, tuple):
                        cols.append(v[:n])
                    elif is_unknown(v):
                        return v
                    else:
                        cols.append(tuple(F.fn("item", v, F.const(k)) for k in range(n)))
                return tuple(tuple(c[k] for c in cols) for k in range(n))
        if name == "slice" and 1 <= len(args) <= 3 and not kw:
            vs = [self.ev(a) for a in args]
            if any(is_unknown(v) or isinstance(v, tuple) for v in vs):
                return Unknown("slice()")
            if len(vs) == 1:
                vs = [NONE, vs[0], NONE]
            elif len(vs) == 2:
                vs = vs + [NONE]
            return F.fn("slice", *vs)
        if name == "isinstance" and len(args) == 2 and dotted(args[1]) == "float":
            v = self.ev(args[0])
            if is_unknown(v):
                return v
            return F.sym("True") if (not isinstance(v, tuple) and v.is_const()) else F.sym("False")
        if name in ("tuple", "list") and len(args) == 1:
            v = self.ev(args[0])
            if isinstance(v, tuple):
                return v
        cdef = self._class_def(name) if isinstance(node.func, ast.Name) and name not in self.env else None
        if cdef is not None:
            r = self._instantiate(cdef, node)
            if r is not NotImplemented:
                return r
        if name is not None and name.split(".")[-1] == "SimpleNamespace" and not args and all(k.arg is not None for k in node.keywords):
            self._record_call(node)
            return self._new_namespace({k: self.ev(x) for k, x in kw.items()}, node)
        if name == "dict" and not args and all(k.arg is not None for k in node.keywords):
            return self._new_dict([(F.sym(repr(k)), self.ev(x)) for k, x in kw.items()], node)
        if name in ("functools.partial", "partial") and args and all(k.arg is not None for k in node.keywords) \
                and not any(isinstance(a, ast.Starred) for a in args):
            f0 = args[0]
            fv0 = self._callee_value(ast.Call(func=f0, args=[], keywords=[]))
            if fv0 is None:
                nm0 = self._callee_name(ast.Call(func=f0, args=[], keywords=[]))
                fv0 = F.sym(nm0) if nm0 is not None else self.ev(f0)
            return Partial(fv0, [self.ev(a) for a in args[1:]], {k: self.ev(x) for k, x in kw.items()})
        if name is not None and name.split(".")[-1] in ("attrgetter", "itemgetter"):
            g = getter_of(node)
            if g is not None:
                return g
            if name.split(".")[-1] == "itemgetter" and args and not kw and not any(isinstance(a, ast.Starred) for a in args):
                return Getter("index", [self.ev(a) for a in args])
            if name.split(".")[-1] == "attrgetter" and args and not kw and not any(isinstance(a, ast.Starred) for a in args):
                keys = [strconst(self.ev(a)) for a in args]          # names computed from constants: attrgetter("Bp" if velo else "B")
                if all(k is not None for k in keys):
                    return Getter("attr", keys)
        if meth in ("append", "extend", "insert") and isinstance(node.func.value, ast.Name) and isinstance(self.env.get(node.func.value.id), tuple) \
                and not kw and not any(isinstance(a, ast.Starred) for a in args):
            lst, nm_ = self.env[node.func.value.id], node.func.value.id
            if nm_ in self.params_:
                return self._lost(f"`{ast.unparse(node)[:60]}`: a list received as an argument is changed in place")
            if meth == "append" and len(args) == 1:
                self.env[nm_] = lst + (self.ev(args[0]),)
                return NONE
            if meth == "extend" and len(args) == 1 and isinstance(self.ev(args[0]), tuple):
                self.env[nm_] = lst + self.ev(args[0])
                return NONE
            return self._lost(f"`{ast.unparse(node)[:60]}`")
        if name in ("np.copyto", "np.put", "np.place", "np.putmask", "np.put_along_axis"):
            return self._lost(f"in-place procedure {name}")
        if name == "bool" and len(args) == 1 and not kw:
            v = self.ev(args[0])
            t = truth(v, self.facts)
            return v if t is None else F.sym("True" if t else "False")
        if name in ("functools.reduce", "reduce") and 2 <= len(args) <= 3 and not kw:
            seq = self.ev(args[1])
            if isinstance(seq, tuple) and (seq or len(args) == 3):
                fv = self.ev(args[0])
                opn = self._lib_name(symname(fv)) if isinstance(fv, F.Rat) and symname(fv) else None
                items = list(seq)
                acc = self.ev(args[2]) if len(args) == 3 else items.pop(0)
                for x in items:
                    if is_callable_value(fv):
                        acc = self._apply_value(fv, node, ([acc, x], {}))
                    elif opn in _OPERATOR_BIN:
                        acc = self._arith(_OPERATOR_BIN[opn](), acc, x)
                    else:
                        return self._lost(f"`{ast.unparse(node)[:60]}`: reduce with a function the engine cannot follow")
                return acc
        if name == "sum" and 1 <= len(args) <= 2 and set(kw) <= {"start"}:
            v = self.ev(args[0])
            if isinstance(v, tuple):
                tot = self.ev(args[1]) if len(args) == 2 else (self.ev(kw["start"]) if "start" in kw else F.const(0))
                for x in v:
                    tot = self._arith(ast.Add(), tot, x)      # 0 + x0 + x1 + ...: the association Python uses
                return tot
        if name == "len" and len(args) == 1 and not kw:
            v = self.ev(args[0])
            if isinstance(v, tuple):
                return F.const(len(v))
        if name == "enumerate" and len(args) == 1 and not kw:
            v = self.ev(args[0])
            if isinstance(v, tuple):
                return tuple((F.const(k), x) for k, x in enumerate(v))
        if name == "range" and 1 <= len(args) <= 2 and not kw:
            vs = [self.ev(a) for a in args]
            if all(isinstance(x, F.Rat) and x.is_const() and x.const_value().denominator == 1 for x in vs):
                ks = [int(x.const_value()) for x in vs]
                lo, hi = (0, ks[0]) if len(ks) == 1 else ks
                if 0 <= hi - lo <= 16:
                    return tuple(F.const(k) for k in range(lo, hi))
        if meth in ("get", "pop", "keys", "values", "items", "clear") and isinstance(node.func, ast.Attribute) and len(args) <= 2 and not kw:
            b_ = symname(self.ev(node.func.value))
            if b_ is not None and self.heap.get(b_) == "dict":
                if meth in ("keys", "values", "items") and not args:
                    return self.dict_view(b_, meth)
                if meth == "clear" and not args:
                    for k_ in self.heap_slots(b_):
                        del self.env[k_]
                        self.heap_written.add(k_)
                    return NONE
                if meth in ("get", "pop") and args:
                    ck = self._const_key(self.ev(args[0]))
                    if ck is None:
                        return self._lost(f"dict.{meth} with a key that is not a constant")
                    k_ = f"{b_}[{slot_key(ck)}]"
                    if k_ in self.env:
                        v = self.env[k_]
                        if meth == "pop":
                            del self.env[k_]
                            self.heap_written.add(k_)
                        return v
                    if len(args) == 2:
                        return self.ev(args[1])
                    return NONE if meth == "get" else Unknown(f"key {ck!r} of the dict is not defined")

        self._record_call(node, name if (fv is not None and name in self.inline) else None)
        if name is not None and name not in self.inline and self.tracked is not None and self._own_code(name) and name.split(".")[-1] not in self.opaque_ok:
            for v in [self.ev(a) for a in args if not isinstance(a, ast.Starred)] + [self.ev(x) for x in kw.values()]:
                if self._is_view(v):
                    return self._lost(f"`{ast.unparse(node)[:60]}`: a function that is not followed receives a view of a solution array")

        if name in ("np.eye", "np.identity", "numpy.eye", "numpy.identity"):
            return F.const(1)
        if name in _OPERATOR_BIN and len(args) == 2 and not kw:
            return self._arith(_OPERATOR_BIN[name](), self.ev(args[0]), self.ev(args[1]))
        if name in ("operator.neg", "np.negative") and len(args) == 1 and not kw:
            return self._arith(ast.Sub(), F.const(0), self.ev(args[0]))
        if name in ("operator.pos", "np.positive") and len(args) == 1 and not kw:
            return self.ev(args[0])
        if name is not None and name.startswith("operator.i") and name[9:] in ("add", "sub", "mul", "matmul", "truediv", "concat", "pow"):
            return self._lost(f"in-place operator function {name}")
        if name in ("la.lu_solve", "scipy.linalg.lu_solve", "lu_solve", "linalg.lu_solve") and len(args) >= 2:
            return self._lusolve(node, kw)
        if name in ("np.dot", "np.matmul") and len(args) == 2 and "out" not in kw:
            a, b = self.ev(args[0]), self.ev(args[1])
            return self._arith(ast.Mult(), a, b)
        if name == "np.transpose" and len(args) == 1:
            return self._T(self.ev(args[0]))
        if name in ("np.ravel", "np.asarray", "np.array", "np.atleast_1d", "np.atleast_2d", "np.ascontiguousarray", "np.asfortranarray",
                    "np.squeeze", "np.real", "float", "complex", "int", "operator.index") and len(args) >= 1:
            v = self.ev(args[0])
            return self._copy_of(v) if name in ("np.array", "float", "complex", "int") else v
        if name in ("np.add", "np.subtract", "np.multiply", "np.divide") and len(args) >= 2:
            op = {"np.add": ast.Add(), "np.subtract": ast.Sub(), "np.multiply": ast.Mult(), "np.divide": ast.Div()}[name]
            v = self._arith(op, self.ev(args[0]), self.ev(args[1]))
            out = kw.get("out") or (args[2] if len(args) > 2 else None)
            if out is not None:
                cur = self.env.get(out.id) if isinstance(out, ast.Name) else None
                vt = self._view_triple(cur)
                self._assign(out, v, node, aug=True)
                if vt is not None:
                    self._store_view(vt, v, None, self.cur_stmt if self.cur_stmt is not None else node, f"{out.id} (out=)")
                if isinstance(cur, F.Rat) and not cur.is_const() and cur is not v:
                    self._update_object(cur, v)          # `out=` writes into the array itself: every other name of it follows
            return v
        if name == "np.fill_diagonal" and len(args) == 2:
            b, w = self.ev(args[0]), self.ev(args[1])
            if not is_unknown(b) and not is_unknown(w) and not isinstance(b, tuple) and not isinstance(w, tuple):
                self._assign(args[0], F.fn("withdiag", b, w), node, aug=True) if isinstance(args[0], (ast.Name, ast.Attribute)) else None
            return NONE
        if name in ("np.copy",) and len(args) >= 1:
            v = self.ev(args[0])
            return self._fresh("copy", v) if self.fresh_arrays is True else self._copy_of(v)
        if name in ZERO_CTORS or name in ("np.ones", "np.ones_like"):
            if self.fresh_arrays:
                return self._fresh("zeros" if name in ZERO_CTORS else "ones", None)
            return F.const(0) if name in ZERO_CTORS else F.const(1)
        if meth in _INPLACE_METHODS and isinstance(node.func, ast.Attribute):
            bv = self.ev(node.func.value)
            if isinstance(bv, F.Rat) and not is_unknown(bv) and not (bv.is_const() and not self.fresh_arrays):
                if meth == "fill" and len(args) == 1 and not kw and isinstance(node.func.value, ast.Name) and not (self.tracked is not None and self._is_view(bv)) \
                        and symname(bv) not in self.fresh:
                    self._update_object(bv, self.ev(args[0]))
                    return NONE
                return self._lost(f"`{ast.unparse(node)[:60]}`: a method that changes an array in place")
        if meth is not None:
            if meth in ("ravel", "squeeze", "reshape", "view", "conj_none"):
                return self.ev(node.func.value)
            if meth == "copy":
                v = self.ev(node.func.value)
                return self._fresh("copy", v) if self.fresh_arrays is True else self._copy_of(v)
            if meth in ("astype", "flatten"):
                return self._copy_of(self.ev(node.func.value))
            if meth == "transpose" and not args:
                return self._T(self.ev(node.func.value))
            if meth == "dot" and len(args) == 1:
                return self._arith(ast.Mult(), self.ev(node.func.value), self.ev(args[0]))
        r = Evaluator._call(self, node)
        if not is_unknown(r):
            return r
        return self._opaque_call(node, name, r)

    tracked = None          # predicate: root value -> True when it is one of the arrays the rule watches (None: no such arrays)
    views = None            # {id(value object): (value object, root, rows, col)}: values obtained by indexing a watched array (a column bound to a local)

    @staticmethod
    def _copy_of(v):
        """an equal value that is another object (a copy of an array is not a view of it, and not the same object as the original)"""
        return F.Rat(v.n, v.d) if isinstance(v, F.Rat) and not is_unknown(v) and not v.is_const() else v

    def _note_view(self, v, root, rows, col):
        if self.views is not None and self.tracked is not None and isinstance(v, F.Rat) and isinstance(root, F.Rat) and self.tracked(root):
            self.views[id(v)] = (v, root, rows, col)

    def _view_triple(self, v):
        """(root, rows, col) when the value is a view of a watched array, else None"""
        if self.tracked is None or not isinstance(v, F.Rat) or is_unknown(v):
            return None
        if self.views is not None and id(v) in self.views and self.views[id(v)][0] is v:
            return self.views[id(v)][1:]
        u = sem.unfn(v)
        if u is not None and u[0] == "ref" and isinstance(u[1][0], F.Rat) and self.tracked(u[1][0]):
            return tuple(u[1])
        return None

    def _store_view(self, triple, new, cur, st, text):
        """an in-place update of a view of a watched array through a local name (`col = V[:, i]; col += x`, `np.add(.., out=col)`) is a store"""
        self.seq += 1
        if self.iter_stores is not None:
            self.iter_stores.append((triple[0], triple[1], triple[2], new))
        self.gcells.append(dict(root=triple[0], rows=triple[1], col=triple[2], value=new, cur=cur, node=st, in_loop=self.in_loop, seq=self.seq, text=text))
        if isinstance(new, F.Rat) and not is_unknown(new):
            self.views[id(new)] = (new,) + tuple(triple)

    iter_stores = None      # [(root, rows, col, value)] stored so far by the iteration of the receiving loop (shared with followed helpers); None: outside

    def _forward(self, root, rows, col):
        """the value this iteration has already stored into the cell (root, rows, col), None when it has not touched it; Unknown when an
        earlier store of the iteration may overlap the cell in a way the engine cannot tell"""
        if not self.iter_stores or not isinstance(col, F.Rat) or not isinstance(rows, F.Rat) or not isinstance(root, F.Rat):
            return None
        if is_all(col):
            return None                 # all columns: a view of the array (`D = d[kdof]`, `Force[kdof]`), nothing is read yet
        for r0, rw0, c0, v0 in reversed(self.iter_stores):
            if r0 is None:
                return Unknown("a store of this iteration the engine cannot place may overlap the cell that is read")
            if not r0.equals(root):
                continue
            if not isinstance(c0, F.Rat) or not isinstance(rw0, F.Rat):
                return Unknown("a store of this iteration the engine cannot place may overlap the cell that is read")
            same_col = c0.equals(col) or (is_all(c0) and is_all(col))
            if not same_col:
                dc = c0 - col
                if is_all(c0) or is_all(col) or not dc.is_const():
                    return Unknown("a store of this iteration into a column the engine cannot tell from the one that is read")
                continue                                     # another column
            if rw0.equals(rows) or (is_all(rw0) and is_all(rows)):
                return v0 if isinstance(v0, F.Rat) else Unknown("the value stored earlier in this iteration is not a formula")
            if is_all(rw0) and isinstance(v0, F.Rat) and not is_unknown(v0):
                try:
                    return self._index(v0, [rows])           # all rows were stored: the rows read are that part of the stored value
                except Unsupported as e:
                    return Unknown(str(e))
            if symname(rw0) is not None and symname(rows) is not None and not is_all(rw0) and not is_all(rows) \
                    and {symname(rw0), symname(rows)} in _DISJOINT:
                continue                                     # another partition
            return Unknown("a store of this iteration into rows that may overlap the cell that is read")
        return None
    opaque_ok = frozenset()   # functions the rule deliberately does not follow

    def _own_code(self, name):
        """a call that may run code of this package: a method of self / a bare name that is neither a builtin nor an imported library module"""
        import builtins
        if name.startswith("self.") and name.count(".") == 1:
            return True
        if "." in name:
            return name.split(".")[0] in self._own_modules()
        return not hasattr(builtins, name)

    def _lib_modules(self):
        """local names bound to library modules by the module's imports (`import numpy as np`, `import operator`, `import scipy.linalg as la`)"""
        m = getattr(self.fn, "_vmod", None)
        if m is None:
            return ()
        g = getattr(m, "_c08_libmods", None)
        if g is None:
            g = set()
            for st in ast.walk(m.tree):
                if isinstance(st, ast.Import):
                    for al in st.names:
                        if al.name.split(".")[0] != "pyyeti":
                            g.add((al.asname or al.name).split(".")[0])
            m._c08_libmods = g
        return g

    def _own_modules(self):
        """local names bound to modules of this package (`from pyyeti import ytools`, `from . import _utilities as ut`)"""
        m = getattr(self.fn, "_vmod", None)
        if m is None:
            return ()
        g = getattr(m, "_c08_ownmods", None)
        if g is None:
            g = set()
            for st in ast.walk(m.tree):
                if isinstance(st, ast.ImportFrom) and (st.level >= 1 or (st.module or "").split(".")[0] == "pyyeti"):
                    for al in st.names:
                        g.add(al.asname or al.name)
                elif isinstance(st, ast.Import):
                    for al in st.names:
                        if al.name.split(".")[0] == "pyyeti":
                            g.add((al.asname or al.name).split(".")[0])
            m._c08_ownmods = g
        return g

    def _is_view(self, v):
        if v is None or is_unknown(v):
            return False
        if isinstance(v, tuple):
            return any(self._is_view(x) for x in v)
        if not isinstance(v, F.Rat):
            return False
        if self.tracked(v):
            return True
        u = sem.unfn(v)
        return u is not None and u[0] == "ref" and not isinstance(u[1][0], str) and self.tracked(u[1][0])

    # ---- small record classes of the module (a dataclass, or a class whose __init__ only stores its arguments): objects with identity
    def _class_def(self, name):
        m = getattr(self.fn, "_vmod", None)
        if name is not None and ("localclass:" + name) in self.heap:
            return self.heap["localclass:" + name]
        if m is None or name is None:
            return None
        for st in m.tree.body:
            if isinstance(st, ast.ClassDef) and st.name == name:
                return st
        return None

    def _instantiate(self, cdef, node):
        av = self._argvals(node)
        if av is None or cdef.bases and any(dotted(b) not in ("object",) for b in cdef.bases):
            return NotImplemented
        init = next((x for x in cdef.body if isinstance(x, ast.FunctionDef) and x.name == "__init__"), None)
        is_dc = any((dotted(d) or dotted(getattr(d, "func", None)) or "").split(".")[-1] == "dataclass" for d in cdef.decorator_list)
        obj = self._new_obj("namespace")
        self.heap["class:" + obj] = cdef
        self.heap["classenv:" + obj] = self.heap.get("localclassenv:" + cdef.name) if self.heap.get("localclass:" + cdef.name) is cdef else None
        if init is not None:
            env = self._bind(init, [F.sym(obj)] + list(av[0]), av[1], False, self)
            if env is None or _has_yield(init):
                return NotImplemented
            for k, v in self.env.items():
                if k.startswith(HEAP):
                    env[k] = v
            sub = self._sub(init, env, strict=True)
            self.trace.append(("enter", node, init))
            sub.run(init.body)
            self._merge(sub)
            self.trace.append(("exit", node, init))
            for k, v in sub.env.items():
                if k.startswith(HEAP):
                    self.env[k] = v
            return F.sym(obj)
        if is_dc:
            fields = [(x.target.id, x.value) for x in cdef.body if isinstance(x, ast.AnnAssign) and isinstance(x.target, ast.Name)]
            names = [f for f, _ in fields]
            if len(av[0]) > len(names) or any(k not in names for k in av[1]):
                return NotImplemented
            vals = dict(zip(names, av[0]))
            vals.update(av[1])
            for f, dflt in fields:
                if f not in vals:
                    if dflt is None:
                        return NotImplemented
                    vals[f] = self.ev(dflt)
                self.env[f"{obj}.{f}"] = vals[f]
            return F.sym(obj)
        return NotImplemented

    def _arith(self, op, a, b):
        if is_unknown(a):
            return a
        if is_unknown(b):
            return b
        if isinstance(a, tuple) or isinstance(b, tuple):
            from .e2_eval import _vec_binop
            return _vec_binop(op, a, b)
        from .e2_eval import _binop
        try:
            return _binop(op, need(a), need(b))
        except Unsupported as e:
            return Unknown(str(e))

    def _fresh(self, kind, src):
        s = F.sym(f"new#{len(self.fresh)}:{kind}")
        self.fresh[symname(s)] = (kind, src)
        return s

    def _lusolve(self, node, kw):
        a, x = self.ev(node.args[0]), self.ev(node.args[1])
        if is_unknown(a):
            return a
        if is_unknown(x):
            return x
        if isinstance(a, tuple) or isinstance(x, tuple):
            return Unknown("lu_solve of tuples")
        if x.is_const() and x.const_value() == 1:
            # lu_solve(lu, identity): the explicit inverse, applied from the left wherever it is used; unsided, `a` stands for the inverse operator
            return F.fn("preinv", a) if self.sided else a
        t = 0
        tn = kw.get("trans") or (node.args[2] if len(node.args) > 2 else None)
        if tn is not None:
            tv = self.ev(tn)
            if is_unknown(tv) or isinstance(tv, tuple) or not tv.is_const():
                return Unknown("lu_solve: trans")
            t = int(tv.const_value())
        if not self.sided:
            return a * x
        if t == 0:
            return F.fn("preinv", a) * x
        ux = sem.unfn(x)
        if ux is not None and ux[0] == "T":
            return F.fn("T", ux[1][0] * F.fn("postinv", a))      # A^-T X^T = (X A^-1)^T
        return F.fn("preinvT", a) * x

    def _opaque_call(self, node, name, r):
        args = []
        if name is None or (isinstance(node.func, ast.Attribute) and isinstance(node.func.value, ast.Name) and node.func.value.id in self.env
                            and symname(self.env[node.func.value.id]) is None and not isinstance(self.env[node.func.value.id], tuple)
                            and not is_unknown(self.env[node.func.value.id])):
            if isinstance(node.func, ast.Attribute):
                b = self._ev(node.func.value)
                if is_unknown(b) or isinstance(b, tuple):
                    return r
                args.append(need(b))
                name = "." + node.func.attr
            else:
                return r
        av = self._argvals(node)
        if av is None:
            return Unknown("starred arguments that are not sequences built here")
        for v in av[0]:
            if is_unknown(v):
                return v
            if isinstance(v, tuple):
                if any(is_unknown(x) or isinstance(x, tuple) or not isinstance(x, F.Rat) for x in v):
                    return Unknown("nested tuple argument")
                v = F.fn("tuple", *[need(x) for x in v])
            if not isinstance(v, F.Rat):
                return Unknown(f"argument {v!r}")
            args.append(need(v))
        for k, v in av[1].items():
            if is_unknown(v) or isinstance(v, tuple) or not isinstance(v, F.Rat):
                return Unknown(f"keyword {k}")
            args.append(F.fn("kw:" + k, need(v)))
        return F.fn("call:" + name, *args)

    # ---- following a helper on its argument values
    def _argvals(self, node, open_star=False):
        """([positional values], {keyword: value}) of a call; `*t` with a tuple value and `**d` with a dict built here are expanded.
        open_star: a trailing `*seq` whose value is an opaque sequence (what a method that is not followed returns) is kept as OpenStar(seq):
        `_bind` gives the callee's remaining positional parameters its items (a call that does not crash supplies exactly those)"""
        pos, kw = [], {}
        for k_, a in enumerate(node.args):
            if isinstance(a, ast.Starred):
                v = self.ev(a.value)
                if open_star and k_ == len(node.args) - 1 and isinstance(v, F.Rat) and not is_unknown(v) and sem.unfn(v) is not None \
                        and (sem.unfn(v)[0].startswith("call:") or sem.unfn(v)[0] == "item"):
                    pos.append(OpenStar(v))
                    continue
                if not isinstance(v, tuple):
                    return None
                pos.extend(v)
            else:
                pos.append(self.ev(a))
        for k in node.keywords:
            if k.arg is None:
                s_ = symname(self.ev(k.value))
                if s_ is None or self.heap.get(s_) != "dict":
                    return None
                for slot in self.heap_slots(s_):
                    try:
                        key = ast.literal_eval(slot[len(s_) + 1:-1])
                    except Exception:  # noqa
                        return None
                    if not isinstance(key, str):
                        return None
                    kw[key] = self.env[slot]
            else:
                kw[k.arg] = self.ev(k.value)
        return pos, kw

    def _bind(self, fn, pos, kw, skip_first, dev):
        """{parameter: value} of a call of `fn` (defaults evaluated by `dev`), or None when the call does not fit the signature"""
        a = fn.args
        params = [x.arg for x in a.posonlyargs + a.args]
        if skip_first:
            params = params[1:]
        env = {}
        pos = list(pos)
        if pos and isinstance(pos[-1], OpenStar):
            seq, pos = pos[-1].seq, pos[:-1]
            rest = params[len(pos):]
            ndef = len(a.defaults or [])
            if len(pos) > len(params) or any(p_ in kw for p_ in rest):
                return None
            if a.vararg:
                if rest:
                    return None                     # how many items go to the named parameters is not known
                env[a.vararg.arg] = seq             # all of it is the *args tuple
                for p_, x in zip(params, pos):
                    env[p_] = x
                pos = None
            elif ndef and set(params[len(params) - ndef:]) & set(rest):
                return None                         # optional parameters among the remaining ones: the length of the sequence decides
            else:
                pos = pos + [F.fn("item", seq, F.const(k)) for k in range(len(rest))]
        if pos is None:
            pass
        elif len(pos) > len(params):
            if not a.vararg:
                return None
            env[a.vararg.arg] = tuple(pos[len(params):])
            pos = pos[:len(params)]
        elif a.vararg:
            env[a.vararg.arg] = ()
        for p_, x in zip(params, pos or []):
            env.setdefault(p_, x)
        kwonly = [x.arg for x in a.kwonlyargs]
        extra = []
        for k, v in kw.items():
            if k in params or k in kwonly:
                if k in env:
                    return None
                env[k] = v
            elif a.kwarg:
                extra.append((F.sym(repr(k)), v))
            else:
                return None
        if a.kwarg:
            env[a.kwarg.arg] = self._new_dict(extra, fn)
        dflt = dict(zip(params[::-1], (a.defaults or [])[::-1]))
        for p_ in params:
            if p_ not in env:
                if p_ not in dflt:
                    return None
                env[p_] = dev.ev(dflt[p_])
        for p_, d in zip(kwonly, a.kw_defaults):
            if p_ not in env:
                if d is None:
                    return None
                env[p_] = dev.ev(d)
        return env

    def _sub(self, fn, env, strict=True):
        sub = type(self)(self.ctx, fn, env=env, facts=self.facts, inline=self.inline, refhook=self.refhook, sided=self.sided,
                         fresh_arrays=self.fresh_arrays, consts=self.consts, depth=self.inline_depth + 1, strict=strict, shapes=self.shapes,
                         heap=self.heap, heap_written=self.heap_written, heap_carried=self.heap_carried)
        sub.erase_T = self.erase_T
        sub.seq = self.seq
        sub.fresh = self.fresh
        sub.in_loop = False
        sub.carry_over = self.carry_over
        sub.tracked, sub.opaque_ok = self.tracked, self.opaque_ok
        sub.iter_stores = self.iter_stores
        sub.views = self.views
        return sub

    def _merge(self, sub, keep_loop_flags=False):
        self.trace.extend(sub.trace)
        self.calls.extend(sub.calls)
        self.call_seq.extend(sub.call_seq)
        self.events.extend(sub.events)
        for c in sub.gcells:
            self.gcells.append(c if keep_loop_flags else dict(c, in_loop=self.in_loop))
        self.skipped_guards.extend(sub.skipped_guards)
        self.skipped_handlers.extend(sub.skipped_handlers)
        self.prime_yields.extend(sub.prime_yields)
        self.maybe_prime.extend(sub.maybe_prime)
        self.seq = sub.seq

    def _result(self, sub):
        if any(e[0] == "raise" for e in sub.events) and not sub.returns:
            self.done = True
            return NONE
        if not sub.returns:
            return NONE
        v = sub.returns[-1][0]
        return NONE if v is None else v

    def _inline(self, node, name, argvals=None, gen=False, fn=None, selfobj=None):
        """follow a function / method defined elsewhere on its argument values; gen: a sub-generator entered through `yield from`;
        fn + selfobj: a method of a small class of the module called on an object created here (the object is the first argument)"""
        fn = fn if fn is not None else self.inline[name]
        if _has_yield(fn) != gen:
            return NotImplemented
        params = [x.arg for x in fn.args.posonlyargs + fn.args.args]
        method = bool(params) and params[0] in ("self", "cls") and "." in name and selfobj is None
        unbound = False
        if not method and "." in name and bool(params) and params[0] in ("self", "cls") and selfobj is None:
            unbound = True                      # Class.method(self, ...): the receiver is the first argument
        av = argvals if argvals is not None else self._argvals(node, open_star=True)
        if av is None:
            return NotImplemented
        pos, kw = av
        outer = None
        if selfobj is not None:
            pos = [F.sym(selfobj)] + list(pos)
            outer = self.heap.get("classenv:" + selfobj)
        recv = name.rsplit(".", 1)[0] if method else None
        if unbound:
            if not pos or symname(pos[0]) is None:
                return NotImplemented
            recv, pos, method = symname(pos[0]), pos[1:], True
        env = self._bind(fn, pos, kw, method, self)
        if env is None:
            return NotImplemented
        own = set(env)
        if outer is not None:
            # a method of a class defined inside a function reads the variables of that function (late binding, as a nested function does)
            for k, v in outer.env.items():
                if k not in env and "." not in k and not k.startswith(HEAP):
                    env[k] = v
            for p_ in outer.params_:
                env.setdefault(p_, F.sym(p_))
        if method:
            # the object's attributes are visible to its methods
            for k, v in self.env.items():
                if k.startswith(recv + ".") and ("self." + k[len(recv) + 1:]) not in env:
                    env["self." + k[len(recv) + 1:]] = v
        for k, v in self.env.items():
            if k.startswith(HEAP):
                env[k] = v
        # attribute slots of named objects (`self.pc.F`, `self.order`) belong to the objects, not to the caller's frame: a helper that is
        # handed the object (`_coefs(pc)` with pc = self.pc) reads the same slots.  (Keys are canonical: rooted at the object's symbol.)
        shared = {}
        # (the callee reaches a slot `r.attr` through its own name `r` only when `r` is not bound to another object there: a parameter bound to an
        # object - `_step(self, ...)` as a module-level function, `self` of a small class - is replaced by that object's symbol in every key)
        callee_names = {p_ for p_ in env if "." not in p_ and symname(env[p_]) is None} \
            | {n.id for n in walk_no_nested(fn) if isinstance(n, ast.Name) and isinstance(n.ctx, (ast.Store, ast.Del))}
        for k, v in self.env.items():
            if "." in k and not k.startswith(HEAP) and k not in env:
                root = k.split(".")[0].split("[")[0]
                if root not in callee_names and not (method and (root == "self" or k.startswith(recv + "."))):
                    shared[k] = env[k] = v
        sub = self._sub(fn, env, strict=(True if not gen else self.strict))
        if gen:
            sub.in_loop = self.in_loop
        sub.param_objs = {p_: x for p_, x in env.items() if p_ in own and "." not in p_ and isinstance(x, F.Rat) and not x.is_const()}
        self.trace.append(("enter", node, fn))
        sub.run(fn.body)
        self._merge(sub, keep_loop_flags=gen)
        self.trace.append(("exit", node, fn))
        if method:
            for k, v in sub.env.items():
                if k.startswith("self.") and k not in own:
                    self.env[recv + "." + k[5:]] = v
        for k, v in sub.env.items():
            if k.startswith(HEAP):
                self.env[k] = v
            elif "." in k and k not in own and not (method and k.startswith("self.")) and self.env.get(k) is not v:
                root = k.split(".")[0].split("[")[0]
                if root not in callee_names:
                    self.env[k] = v                      # an attribute of a named object stored by the helper
        for k in shared:
            if k not in sub.env:
                self.env.pop(k, None)                    # ... or deleted by it
        self._inplace_back(sub)
        if gen and self._adopt_loop(sub):
            return NONE
        return self._result(sub)

    def _adopt_loop(self, sub):
        """a sub-generator that reached its own receiving loop never returns: its loop is the loop of this generator"""
        if sub.loop is None:
            return False
        if self.loop is not None or self.in_loop:
            raise Unsupported("nested generator loops")
        self.loop = sub.loop
        self.loop_ev = sub.loop_ev or sub
        self.done = True
        return True

    def _call_closure(self, clo, node, argvals=None, gen=False):
        fn = clo.node
        body = fn.body if isinstance(fn, ast.Lambda) else None
        if (_has_yield(fn) and not isinstance(fn, ast.Lambda)) != gen:
            return Unknown("call of a generator function defined here") if not gen else NotImplemented
        if self.inline_depth >= 6:
            return self._lost("closure nesting too deep")
        av = argvals if argvals is not None else self._argvals(node)
        if av is None:
            return self._lost("call of a local function with starred arguments that are not tuples built here")
        bound = self._bind(fn, av[0], av[1], False, clo.ev)
        if bound is None:
            return self._lost(f"call of {clo!r} does not fit its signature")
        env = dict(clo.ev.env)          # late binding: the defining scope as it is now
        for p_ in clo.ev.params_:
            env.setdefault(p_, F.sym(p_))    # ... including its parameters (symbols of their own there)
        if clo.ev is not self:
            for k, v in self.env.items():
                if k.startswith(HEAP):
                    env[k] = v
        before = dict(env)
        env.update(bound)
        sub = self._sub(fn, env, strict=(True if not gen else self.strict))
        sub.rel = clo.ev.rel
        if gen:
            sub.in_loop = self.in_loop
        sub.param_objs = {p_: x for p_, x in bound.items() if isinstance(x, F.Rat) and not x.is_const()}
        self.trace.append(("enter_closure", node, fn))
        if body is not None:
            sub.returns.append((sub.ev(body), fn))
        else:
            sub.run(fn.body)
        self._merge(sub, keep_loop_flags=gen)
        self.trace.append(("exit", node, fn))
        shadow = set(bound) | sub.locals_
        for k, v in sub.env.items():
            root = k.split(".")[0].split("[")[0]
            if k in sub.nonlocals_ or (k.startswith(HEAP)) or ("." in k and root not in shadow):
                if before.get(k) is not v:
                    clo.ev.env[k] = v
                    if k.startswith(HEAP):
                        self.env[k] = v
        self._inplace_back(sub)
        if gen and self._adopt_loop(sub):
            return NONE
        return self._result(sub)

    def _yield_from(self, node):
        """`yield from g(...)`: the sub-generator's body runs in place of the statement (its receiving `yield`s are this generator's)"""
        call = node.value
        if not isinstance(call, ast.Call):
            raise Unsupported(f"yield from `{ast.unparse(call)[:60]}`")
        name = self._callee_name(call)
        fv = self._callee_value(call)
        if isinstance(fv, Closure):
            r = self._call_closure(fv, call, gen=True)
            if r is not NotImplemented:
                return r
        if fv is not None and symname(fv) in self.inline:
            name = symname(fv)
        if name is not None and name in self.inline and self.inline_depth < 5 and self.inline[name] is not self.fn:
            r = self._inline(call, name, gen=True)
            if r is not NotImplemented:
                return r
        raise Unsupported(f"yield from `{ast.unparse(call.func)}`: the sub-generator is not a function of these modules")

    # ------------------------------------------------------------------ statements
    def run(self, stmts):
        for st in stmts:
            if self.done or self.iter_done:
                break
            self.stmt(st)

    def stmt(self, st):
        if self.done or self.iter_done:
            return
        self.cur_stmt = st
        if isinstance(st, ast.While):
            return self._while(st)
        if isinstance(st, ast.For):
            return self._for(st)
        if isinstance(st, ast.Continue):
            if not self.in_loop:
                raise Unsupported("continue outside the generator loop")
            self.iter_done = True
            return
        if isinstance(st, ast.Break):
            raise Unsupported("break")
        if isinstance(st, ast.If):
            c = self.decide(st.test)
            if c is True:
                self.run(st.body)
            elif c is False:
                self.run(st.orelse)
            else:
                if _only_raises(st.body) and not st.orelse:
                    self.skipped_guards.append(st)        # argument validation: the accepted inputs go on
                    return
                risky = _contains(st.body + st.orelse, (ast.Return, ast.Continue, ast.Break, ast.While, ast.Raise, ast.Delete)) or \
                    any(isinstance(t, ast.Subscript) for s_ in st.body + st.orelse for n in ast.walk(s_)
                        if isinstance(n, (ast.Assign, ast.AugAssign)) for t in (n.targets if isinstance(n, ast.Assign) else [n.target]))
                if self.strict or self.in_loop or risky:
                    if not (_has_yield(st) and not self.in_loop and all(isinstance(s_, ast.Expr) for s_ in st.body) and not st.orelse):
                        raise Unsupported(f"undecided test `{ast.unparse(st.test)}` at line {st.lineno}")
                if _has_yield(st):
                    self.maybe_prime.append(st)
                for t in _store_targets(st.body + st.orelse):
                    d = t.id if isinstance(t, ast.Name) else self.canon_dotted(t)
                    if d:
                        self.env[d] = Unknown(f"assigned under undecided test {ast.unparse(st.test)}")
            return
        if isinstance(st, ast.Raise):
            self.events.append(("raise", st))
            self.done = True
            return
        if isinstance(st, ast.Delete):
            for t in st.targets:
                for e in (t.elts if isinstance(t, (ast.Tuple, ast.List)) else [t]):
                    d = e.id if isinstance(e, ast.Name) else (self.canon_dotted(e) if isinstance(e, ast.Attribute) else None)
                    if isinstance(e, ast.Subscript):
                        bs = symname(self.ev(e.value)) or ""
                        an = strconst(self.ev(e.slice)) if bs.startswith("vars:") else None
                        if an is None:
                            raise Unsupported(f"del {ast.unparse(e)[:50]}")
                        d = f"{bs[5:]}.{an}"
                    if d:
                        self.env.pop(d, None)
                        self.events.append(("del", d, st))
            self.trace.append(("stmt", st))
            return
        if isinstance(st, ast.Expr):
            if isinstance(st.value, ast.Constant):
                return
            if isinstance(st.value, ast.Yield) and not self.in_loop:
                self.prime_yields.append(st)         # the generator parks here before it ever receives a message
                return
            self.ev(st.value)
            self.trace.append(("stmt", st))
            return
        if isinstance(st, (ast.With,)):
            for it in st.items:
                v = self.ev(it.context_expr)
                if it.optional_vars is not None:
                    self._assign(it.optional_vars, v if isinstance(v, F.Rat) else Unknown("context manager"), st)
            self.run(st.body)
            return
        if isinstance(st, (ast.Import, ast.ImportFrom)):
            for al in st.names:
                nm = (al.asname or al.name).split(".")[0]
                if isinstance(st, ast.ImportFrom) and st.level == 0 and st.module:
                    self.env[nm] = F.sym(self._lib_name(f"{st.module}.{al.name}"))      # `from operator import mul`: the library function
                else:
                    self.env.setdefault(nm, F.sym(nm))
            return
        if isinstance(st, ast.Try):
            # the path without an exception: accepted inputs raise nothing (the handlers are not followed)
            if _has_yield_in_handlers(st):
                raise Unsupported("a `yield` inside an exception handler")
            self.skipped_handlers.extend(st.handlers)
            self.run(st.body)
            self.run(st.orelse)
            self.run(st.finalbody)
            return
        if isinstance(st, (ast.FunctionDef,)):
            self.env[st.name] = Closure(st, self)
            return
        if isinstance(st, ast.ClassDef) and not st.keywords and not st.decorator_list or \
                isinstance(st, ast.ClassDef) and all((dotted(d_) or dotted(getattr(d_, "func", None)) or "").split(".")[-1] == "dataclass" for d_ in st.decorator_list):
            self.heap["localclass:" + st.name] = st          # a small class defined inside the function (instances are objects created here)
            self.heap["localclassenv:" + st.name] = self      # ... its methods read the variables of this scope
            for x in st.body:
                if isinstance(x, ast.FunctionDef):
                    x._vmod = getattr(self.fn, "_vmod", None)
            return
        if isinstance(st, (ast.Assign, ast.AugAssign, ast.AnnAssign, ast.Return)):
            if isinstance(st, ast.AugAssign) and isinstance(st.target, ast.Name):
                cur = self.env.get(st.target.id)
                if isinstance(cur, F.Rat) and not cur.is_const():
                    # `frc = state[0]; frc += x` (or `x += y` on an argument inside a helper) updates an array in place - every other name
                    # of the same object sees the new content - but rebinds the one name when the object is a number.  Where the value is
                    # provably an array the aliases follow; otherwise what they hold afterwards is not known to the engine: reading it is an
                    # analysis error, never a verdict
                    vt = self._view_triple(cur)
                    Evaluator.stmt(self, st)
                    new = self.env.get(st.target.id)
                    if vt is not None:
                        self._store_view(vt, new, cur, st, f"{st.target.id} (a view of {ast.unparse(st.target)})")
                        self._update_object(cur, new)
                    elif self.is_array(cur) is True and isinstance(new, F.Rat):
                        self._update_object(cur, new)
                    else:
                        self._update_object(cur, Unknown(f"`{ast.unparse(st)[:50]}` may have updated this object in place through another name"))
                    self.trace.append(("stmt", st))
                    return
            Evaluator.stmt(self, st)
            self.trace.append(("stmt", st))
            return
        if isinstance(st, (ast.Pass, ast.Import, ast.ImportFrom, ast.Assert, ast.Global, ast.Nonlocal)):
            return
        raise Unsupported(f"statement {type(st).__name__}")

    def _while(self, st):
        t = self.decide(st.test)
        if not _has_yield(st):
            if t is True and not st.orelse and not _contains(st.body, (ast.Break, ast.Return)):
                self._crash("a `while True` loop without yield, break or return never hands control back: the caller's next() / send() hangs (or dies inside)")
            raise Unsupported("a while loop that is not a generator loop")
        if t is False:
            return
        if t is not True or st.orelse:
            raise Unsupported(f"generator loop with the test `{ast.unparse(st.test)}`")
        self._gen_loop(st)

    def _endless(self, node):
        """the value a `for` target gets in every iteration when the iterable never ends (`itertools.count()`, `itertools.repeat(x)`,
        `iter(int, 1)`), else None"""
        if not isinstance(node, ast.Call) or node.keywords and not all(k.arg in ("start", "step", "object") for k in node.keywords):
            return None
        name = self._lib_name(self._callee_name(node))
        if name == "itertools.count" and len(node.args) <= 2:
            return Unknown("the counter of an endless loop")
        if name == "itertools.repeat" and len(node.args) + len(node.keywords) == 1:
            return self.ev(node.args[0] if node.args else node.keywords[0].value)
        if name == "iter" and len(node.args) == 2 and not node.keywords and dotted(node.args[0]) in ("int", "float", "bool", "str", "list", "tuple", "dict"):
            v = self.ev(node.args[1])
            if isinstance(v, F.Rat) and not is_unknown(v) and v.is_const() and v.const_value() != 0:
                return Unknown("the item of an endless iterator")       # int() is 0, never the sentinel
        return None

    def _lib_name(self, name):
        """`count` imported by `from itertools import count` -> 'itertools.count'"""
        if name is None:
            return name
        if "." in name:
            return "np." + name[6:] if name.startswith("numpy.") else name
        m = getattr(self.fn, "_vmod", None)
        if m is not None and name not in self.env and name not in self.locals_:
            for st in m.tree.body:
                if isinstance(st, ast.ImportFrom) and st.level == 0 and st.module:
                    for al in st.names:
                        if (al.asname or al.name) == name:
                            return self._lib_name(f"{st.module}.{al.name}")
        return name

    def _gen_loop(self, st, item=None):
        """run the receiving loop `st` (a `while <true>` or a `for` over an endless iterable whose target gets `item`) for one iteration"""
        if self.loop is not None:
            raise Unsupported("nested generator loops")
        self.loop = st
        self.loop_ev = self
        self.pre_env = dict(self.env)
        seen = set()
        for t_ in _store_targets(st.body):
            d = t_.id if isinstance(t_, ast.Name) else self.canon_dotted(t_)
            if not d or d in seen or d.startswith(HEAP):
                continue
            seen.add(d)
            self.env[d] = self._carry(d, self.env.get(d), d in self.env)
        # mutable objects that exist when the loop is entered: what an earlier send stored into them is still there
        self.heap_entry = sorted(k for k in self.env if k.startswith(HEAP))
        for k in self.heap_entry:
            if self.heap_carried is None or k in self.heap_carried:
                self.env[k] = self._carry(k, self.env[k], True)
        self.heap_written.clear()
        self.in_loop = True
        self.iter_stores = []
        self.trace.append(("loop", st))
        if isinstance(st, ast.For):
            self._assign(st.target, item, st)
        self.run(st.body)
        self.done = True          # the loop never ends: nothing after it is reachable

    # ---- objects updated in place (an array reached through several names, or through an argument of a helper)
    param_objs = None       # {parameter: the caller's object it was bound to} of a followed helper (None: not a helper frame)
    foreign = None          # [[caller's object, what it holds now]] for the objects of param_objs that were updated in place

    def _update_object(self, obj, new):
        """the object `obj` (identity) now holds `new`: every name, tuple item and slot of this frame that is the same object follows, and
        so does the caller's object when `obj` came in as an argument"""
        def repl(x):
            if isinstance(x, tuple):
                y = tuple(new if e is obj else repl(e) for e in x)
                return y if any(a is not b for a, b in zip(x, y)) else x
            return x
        for k, x in list(self.env.items()):
            if x is obj:
                self.env[k] = new
            elif isinstance(x, tuple):
                self.env[k] = repl(x)
        if self.param_objs is not None:
            if self.foreign is None:
                self.foreign = []
            for rec in self.foreign:
                if rec[1] is obj:
                    rec[1] = new
                    return
            if any(x is obj for x in self.param_objs.values()):
                self.foreign.append([obj, new])

    def _inplace_back(self, sub):
        """objects of this frame a followed helper updated in place through its parameters"""
        for orig, new in (sub.foreign or []):
            if new is not orig:
                self._update_object(orig, new)

    def is_array(self, v, depth=0):
        """True when the value is provably a numpy array (so that `x += y` updates the object in place): every term is linear in exactly one
        column / partition of a time history, of the sent force, or of a carried value that is itself such an array; None: not known"""
        if not isinstance(v, F.Rat) or is_unknown(v) or depth > 4:
            return None
        try:
            if not v.d.is_const() or v.n.is_zero():
                return None
            for mono in v.n.t:
                n = 0
                for a, e in mono:
                    k = self._array_atom(a, depth)
                    if k is None:
                        return None
                    if k:
                        n += e
                if n != 1:
                    return None
        except Exception:  # noqa
            return None
        return True

    def _array_atom(self, a, depth):
        """1: the atom is a vector of the solution / force history; 0: a coefficient (anything that maps vectors to vectors); None: not known"""
        d = F.atom_desc(a)
        if d[0] == "s":
            nm = d[1]
            if nm == "F1all" or nm.startswith("@"):
                return 1
            if nm.startswith("carry:"):
                init = self.facts.carry_inits.get(nm[6:])
                if nm[6:] in self.facts.no_assume:
                    return None
                if init is not None and self.is_array(init, depth + 1) is True:
                    self.facts.assumed_arrays.add(nm[6:])
                    return 1
                return None
            if nm in ("stale_cache",) or nm.startswith(HEAP):
                return None
            return 0
        if d[0] == "fn":
            if d[1] == "ref":
                args = [F.Rat(F._poly_from_key(k[1]), F._poly_from_key(k[2])) if isinstance(k, tuple) and k and k[0] == "rat" else None for k in d[2]]
                if len(args) == 3 and args[1] is not None and (is_all(args[1]) or symname(args[1]) is not None) and not args[1].is_const():
                    return 1            # rows: a partition (or all rows) of an array
                return None
            if d[1] == "rowsel":
                return 0
        return None

    def _carry(self, slot, init, bound):
        """the value a carried slot starts the iteration with: what an earlier send left there.  A tuple is carried component by component."""
        if isinstance(init, tuple):
            return tuple(self._carry(f"{slot}[{k}]", x, True) for k, x in enumerate(init))
        self.carried.append(slot)
        if bound:
            self.carry_init[slot] = init
            if isinstance(init, F.Rat):
                self.facts.carry_inits[slot] = init
        return self.carry_over.get(slot, F.sym("carry:" + slot))

    def _for(self, st):
        if _has_yield(st) and not st.orelse:
            item = self._endless(st.iter)
            if item is not None:
                return self._gen_loop(st, item)
        it = self.ev(st.iter)
        if isinstance(it, F.Rat) and self.heap.get(symname(it)) == "dict":
            it = self.dict_view(symname(it))
        if isinstance(it, tuple) and not st.orelse and not _contains(st.body, (ast.Break, ast.Continue)):
            for x in it:
                self._assign(st.target, x, st)
                self.run(st.body)
            return
        raise Unsupported(f"for loop over `{ast.unparse(st.iter)}`")

    def _assign(self, target, v, st, aug=False):
        if isinstance(target, ast.Name):
            if target.id in self.pinned:
                return
            self.env[target.id] = v
            if symname(v) == "F1all":
                self.trace.append(("bind", target.id, "F1all"))
            return
        if isinstance(target, ast.Attribute):
            d = self.canon_dotted(target)
            if d is None:
                raise Unsupported(f"attribute store {ast.unparse(target)}")
            if d not in self.pinned:
                self.env[d] = v
                if d.startswith(HEAP):
                    self.heap_written.add(d)
                else:
                    self.events.append(("setattr", d, v, st))
            return
        if isinstance(target, (ast.Tuple, ast.List)):
            n = len(target.elts)
            stars = [k for k, t in enumerate(target.elts) if isinstance(t, ast.Starred)]
            if len(stars) == 1 and isinstance(v, tuple) and len(v) >= n - 1:
                k = stars[0]
                tail = n - 1 - k
                for t, x in zip(target.elts[:k], v[:k]):
                    self._assign(t, x, st)
                self._assign(target.elts[k].value, tuple(v[k:len(v) - tail]), st)
                for t, x in zip(target.elts[k + 1:], v[len(v) - tail:]):
                    self._assign(t, x, st)
            elif isinstance(v, tuple) and len(v) == n and not stars:
                for t, x in zip(target.elts, v):
                    self._assign(t, x, st)
            elif len(stars) == 1 and isinstance(v, F.Rat) and sem.unfn(v) is not None and (sem.unfn(v)[0].startswith("call:") or sem.unfn(v)[0] == "item"):
                # an opaque sequence of unknown length: the items before the star are known by position
                for k, t in enumerate(target.elts):
                    if k < stars[0]:
                        self._assign(t, F.fn("item", v, F.const(k)), st)
                    else:
                        self._assign(t.value if isinstance(t, ast.Starred) else t, Unknown("item of a sequence of unknown length"), st)
            elif v is not None and not is_unknown(v) and not isinstance(v, tuple) and sem.unfn(v) is not None \
                    and (sem.unfn(v)[0].startswith("call:") or sem.unfn(v)[0] == "item"):
                for k, t in enumerate(target.elts):
                    self._assign(t, F.fn("item", v, F.const(k)), st)
            else:
                for t in target.elts:
                    self._assign(t, Unknown("tuple unpacking of a non-tuple"), st)
            return
        if isinstance(target, ast.Subscript):
            bv = self.ev(target.value)
            bs = symname(bv)
            if bs is not None and bs.startswith("vars:"):
                an = strconst(self.ev(target.slice))
                if an is None:
                    raise Unsupported(f"store into the attribute dictionary of an object under a key that is not a constant: {ast.unparse(target)}")
                self.env[f"{bs[5:]}.{an}"] = v
                self.events.append(("setattr", f"{bs[5:]}.{an}", v, st))
                return
            if bs is not None and self.heap.get(bs) == "dict":
                ck = self._const_key(self.ev(target.slice))
                if ck is None:
                    raise Unsupported(f"store into a dict under a key that is not a constant: {ast.unparse(target)}")
                k = f"{bs}[{slot_key(ck)}]"
                self.env[k] = v
                self.heap_written.add(k)
                return
            if isinstance(bv, tuple):
                # a list built here: the element is replaced (the list must not be shared with a helper, see _bind callers)
                ck = self._const_key(self.ev(target.slice))
                d = target.value.id if isinstance(target.value, ast.Name) else self.canon_dotted(target.value) if isinstance(target.value, ast.Attribute) else None
                if d is None or not isinstance(ck, int) or not -len(bv) <= ck < len(bv) or d in self.params_:
                    raise Unsupported(f"store into a sequence: {ast.unparse(target)}")
                lst = list(bv)
                lst[ck] = v
                self.env[d] = tuple(lst)
                return
            if isinstance(bv, F.Rat) and not is_unknown(bv) and not bv.is_const() and symname(bv) not in self.fresh \
                    and any(s_.startswith("carry:") for s_ in free_syms(bv)) and not (self.tracked is not None and self._is_view(bv)):
                # a store into an array an earlier send left behind (`cache[:] = ...`, `cache[...] += ...`): the object is updated in place
                try:
                    whole = all(is_all(c) or symname(c) == "Ellipsis" for c in self._comps(target.slice) if c is not _NEWAXIS)
                except Unsupported:
                    whole = False
                if whole and isinstance(v, F.Rat):
                    self._update_object(bv, v)
                else:
                    self._update_object(bv, Unknown(f"`{ast.unparse(target)[:50]} = ...` stores into part of a value an earlier send left behind"))
            ref = self.target_ref(target)
            cur = None
            if aug:
                import copy
                ld = copy.copy(target)
                ld.ctx = ast.Load()
                cur = self.ev(ld)
            self.seq += 1
            if self.iter_stores is not None:
                self.iter_stores.append((ref[0], ref[1], ref[2], v) if ref is not None else (bv if isinstance(bv, F.Rat) else None, None, None, v))
            if ref is not None and self.views and isinstance(v, F.Rat) and not is_unknown(v):
                # a local bound to a view of the same cell (`col = V[:, i]` before `V[:, i] = ...`) sees the new content
                for obj, r0, rw0, c0 in list(self.views.values()):
                    if obj is not v and all(isinstance(x, F.Rat) for x in (r0, rw0, c0, ref[0], ref[1], ref[2])) and r0.equals(ref[0]) and rw0.equals(ref[1]) \
                            and c0.equals(ref[2]) and any(x is obj for x in self.env.values()):
                        nv = self._copy_of(v)
                        self._update_object(obj, nv)
                        self.views[id(nv)] = (nv, r0, rw0, c0)
            if ref is None:
                self.gcells.append(dict(root=None, rows=None, col=None, value=v, cur=cur, node=st, in_loop=self.in_loop, seq=self.seq,
                                        text=ast.unparse(target)))
            else:
                self.gcells.append(dict(root=ref[0], rows=ref[1], col=ref[2], value=v, cur=cur, node=st, in_loop=self.in_loop, seq=self.seq,
                                        text=ast.unparse(target)))
            return
        raise Unsupported(f"assignment target {type(target).__name__}")


def inline_table(ctx, specs, exclude=()):
    """{call name: FunctionDef} from [(file, class or None)]: module-level functions by bare name, methods as self.<name>; an earlier spec
    wins (so list the most derived class first)"""
    out = {}
    for rel, cls in specs:
        try:
            t = sem.module_funcs(ctx, rel, cls=cls, exclude=exclude)
        except Exception:  # noqa
            continue
        for k, v in t.items():
            if k.startswith("self.") and k[5:] in exclude:
                continue
            out.setdefault(k, v)                      # generator functions too: followed only through `yield from`
            if k.startswith("self.") and cls:
                out.setdefault(f"{cls}.{k[5:]}", v)   # Class.method(self, ...)
    # functions of sibling modules the listed modules import by name (`from ._utilities import _helper`): a helper may live there
    for rel, _cls in specs:
        try:
            m = ctx.src.mod(rel)
        except Exception:  # noqa
            continue
        for st in m.tree.body:
            if isinstance(st, ast.ImportFrom) and st.level >= 1 and st.module:
                base = rel.rsplit("/", st.level)[0]
                rel2 = f"{base}/{st.module.replace('.', '/')}.py"
                try:
                    m2 = ctx.src.mod(rel2)
                except Exception:  # noqa
                    continue
                for al in st.names:
                    f2 = m2.funcs.get(al.name)
                    if f2 is not None and al.name not in exclude:
                        out.setdefault(al.asname or al.name, f2)
    return out
