"""C08 engine -- configuration-driven symbolic execution of the generator bodies (and their siblings) on *values*.

`GenEval` evaluates a function for one configuration of the solver object (order, which partitions exist, mass None / diagonal / full,
real / complex system ...).  Tests are decided by the *value* of the tested expression under the configuration's facts (`truth`), never by
their spelling, so `if self.rfsize`, `if self.rfsize > 0`, `if not rfsize ... else`, `order != _ZOH` with a module constant, an `elif`
chain or a `continue` all lead to the same path.  A generator loop (`while <true constant>` that contains a `yield`) is run for ONE
symbolic iteration: every name (or attribute of a local object) the loop body assigns starts as the symbol `carry:<name>` - the value left
by an earlier send - and the received message is the pair (j, F1all).  Array accesses are kept as references (root, rows, column) that compose
through views (`D = d[kdof]; D[:, i-1]`, `Force[kdof, i-1]`, `Force[:, i-1][kdof]` are one reference), helpers of the same classes/modules are
followed on their argument values, attribute stores / setattr / getattr / delattr with constant names are attribute effects, `for` over a
constant tuple and list comprehensions over one are unrolled.  Nothing here knows how a local is called."""
from __future__ import annotations

import ast

from . import e2_formula as F
from . import sem
from .core import Unsupported
from .e1_srcmodel import dotted, walk_no_nested
from .e2_eval import AutoEvaluator, Evaluator, Unknown, const_from_node, is_unknown, need, ZERO_CTORS

NONE = F.sym("None")
ALLM = F.sym(":")
J = F.sym("j")
F1ALL = F.sym("F1all")
_NEWAXIS = object()


def symname(v):
    """name of a value that is exactly one symbol, else None"""
    if v is None or is_unknown(v) or isinstance(v, tuple):
        return None
    try:
        if not v.d.is_const() or v.d.const_value() != 1 or len(v.n.t) != 1:
            return None
        (m, c), = v.n.t.items()
        if c != 1 or len(m) != 1 or m[0][1] != 1:
            return None
        d = F.atom_desc(m[0][0])
    except Exception:  # noqa
        return None
    return d[1] if d[0] == "s" else None


def is_all(v):
    return v is ALLM or symname(v) == ":"


def strconst(v):
    """the Python string a value stands for (AutoEvaluator reads 'abc' as the symbol named repr('abc'))"""
    s = symname(v)
    if s and len(s) >= 2 and s[0] in "'\"" and s[-1] == s[0]:
        try:
            r = ast.literal_eval(s)
        except Exception:  # noqa
            return None
        return r if isinstance(r, str) else None
    return None


def depends(v, name):
    if v is None or is_unknown(v):
        return False
    if isinstance(v, tuple):
        return any(depends(x, name) for x in v)
    return v.depends_on(name)


# ---------------------------------------------------------------------------------------------------------------- truth of a value
class Facts:
    """what a configuration knows: truth of some values, sign of some symbols, symbols that are pairwise different objects, and
    *generic* symbols (a generic symbol differs from whatever it is compared with)"""

    def __init__(self, truths=(), signs=None, generic=(), distinct=("None", "float", "complex"), generic_prefix=None, ge2=()):
        self.ge2 = list(ge2)                # values known to be at least 2 (the number of time steps when a send is possible)
        self.ge2_exact = False              # ... taken to be exactly 2 (the smallest case in which a send is possible)
        self.truths = list(truths)
        self.signs = dict(signs or {})
        self.generic = set(generic)
        self.generic_prefix = generic_prefix
        self.distinct = set(distinct)
        self.tests = []

    def is_generic(self, name):
        return name in self.generic or (self.generic_prefix is not None and name.startswith(self.generic_prefix))


def free_syms(v, out=None):
    """names of the symbols a value is built from (through opaque applications too)"""
    out = set() if out is None else out
    if v is None or is_unknown(v):
        return out
    if isinstance(v, tuple):
        for x in v:
            free_syms(x, out)
        return out
    for p_ in (v.n, v.d):
        for a in p_.atoms():
            _atom_syms(a, out)
    return out


def _atom_syms(a, out):
    d = F.atom_desc(a)
    if d[0] == "s":
        out.add(d[1])
    elif d[0] in ("exp", "sin", "cos", "sqrt"):
        for a2 in F._poly_from_key(d[1]).atoms():
            _atom_syms(a2, out)
    elif d[0] == "fn":
        for k in d[2]:
            if isinstance(k, tuple) and k and k[0] == "rat":
                for a2 in F._poly_from_key(k[1]).atoms():
                    _atom_syms(a2, out)
                for a2 in F._poly_from_key(k[2]).atoms():
                    _atom_syms(a2, out)


def _sign(v, facts):
    if v.is_const():
        c = v.const_value()
        return "+" if c > 0 else ("-" if c < 0 else "0")
    s = symname(v)
    if s is not None and s in facts.signs:
        return facts.signs.get(s)
    for g in facts.ge2:
        k = v - g
        if k.is_const():                    # v = g + k >= 2 + k
            lo = 2 + k.const_value()
            if facts.ge2_exact:
                return "+" if lo > 0 else ("-" if lo < 0 else "0")
            return "+" if lo > 0 else (">=0" if lo == 0 else None)
        k = v + g
        if k.is_const():                    # v = k - g <= k - 2
            hi = k.const_value() - 2
            if facts.ge2_exact:
                return "+" if hi > 0 else ("-" if hi < 0 else "0")
            return "-" if hi < 0 else None
    return None


def _equal3(a, b, facts):
    if a.equals(b):
        return True
    d = a - b
    if d.is_const():
        return False
    if (facts.generic or facts.generic_prefix) and any(facts.is_generic(s_) for s_ in free_syms(d)):
        return False
    sa, sb = symname(a), symname(b)
    if sa == "None" or sb == "None":
        return False           # a value that is not the None of this configuration is an object
    if sa in facts.distinct and sb in facts.distinct:
        return False
    sg = _sign(d, facts)
    if sg in ("+", "-"):
        return False
    if sg == "0":
        return True
    return None


def truth(v, facts):
    """three-valued truth of a value under the facts of a configuration"""
    if v is None or is_unknown(v):
        return None
    if isinstance(v, tuple):
        return len(v) > 0
    for fv, tv in facts.truths:
        if v.equals(fv):
            return tv
    if v.is_const():
        return v.const_value() != 0
    s = symname(v)
    if s is not None:
        if s in ("None", "False"):
            return False
        if s == "True":
            return True
        sg = facts.signs.get(s)
        if sg in ("+", "-"):
            return True
        if sg == "0":
            return False
        return None
    u = sem.unfn(v)
    if u is None:
        return None
    name, args = u
    if name == "not":
        t = truth(args[0], facts)
        return None if t is None else (not t)
    if name in ("bool:And", "bool:Or"):
        ts = [truth(a, facts) for a in args]
        if name == "bool:And":
            if any(t is False for t in ts):
                return False
            return True if all(t is True for t in ts) else None
        if any(t is True for t in ts):
            return True
        return False if all(t is False for t in ts) else None
    if name.startswith("cmp:") and len(args) == 2 and not isinstance(args[0], str) and not isinstance(args[1], str):
        op = name[4:]
        a, b = args
        if op in ("Eq", "Is", "NotEq", "IsNot"):
            e = _equal3(a, b, facts)
            if e is None:
                return None
            return e if op in ("Eq", "Is") else (not e)
        sg = _sign(a - b, facts)
        if sg is None:
            return None
        table = {"Lt": {"-": True, "0": False, "+": False, ">=0": False}, "LtE": {"-": True, "0": True, "+": False},
                 "Gt": {"+": True, "0": False, "-": False}, "GtE": {"+": True, "0": True, ">=0": True, "-": False}}
        return table.get(op, {}).get(sg)
    return None


# ---------------------------------------------------------------------------------------------------------------- module constants
class ModConsts:
    """module-level constants (numbers, strings, tuples of them), followed through `from .x import NAME` inside the package"""

    def __init__(self, src):
        self.src = src
        self.cache = {}

    def get(self, rel, name, depth=0):
        key = (rel, name)
        if key in self.cache:
            return self.cache[key]
        self.cache[key] = None
        try:
            m = self.src.mod(rel)
        except Exception:  # noqa
            return None
        val = None
        for st in m.tree.body:
            if isinstance(st, (ast.Assign, ast.AnnAssign)):
                tg = st.targets if isinstance(st, ast.Assign) else [st.target]
                if st.value is not None and any(isinstance(t, ast.Name) and t.id == name for t in tg):
                    val = self._lit(st.value, rel, depth)
            elif isinstance(st, ast.ImportFrom) and st.level >= 1 and depth < 3 and st.module:
                for al in st.names:
                    if (al.asname or al.name) == name:
                        base = rel.rsplit("/", st.level)[0]
                        val = self.get(f"{base}/{st.module.replace('.', '/')}.py", al.name, depth + 1)
        self.cache[key] = val
        return val

    def _lit(self, node, rel, depth):
        if isinstance(node, ast.Constant):
            if isinstance(node.value, bool):
                return F.sym(str(node.value))
            if isinstance(node.value, (int, float)):
                return F.const(const_from_node(node, self.src))
            if isinstance(node.value, str):
                return F.sym(repr(node.value))
            return None
        if isinstance(node, (ast.Tuple, ast.List)):
            out = tuple(self._lit(e, rel, depth) for e in node.elts)
            return None if any(x is None for x in out) else out
        if isinstance(node, ast.Name) and depth < 3:
            return self.get(rel, node.id, depth + 1)
        if isinstance(node, ast.UnaryOp) and isinstance(node.op, ast.USub):
            v = self._lit(node.operand, rel, depth)
            return None if v is None or isinstance(v, tuple) else -v
        return None


def parent_if(node):
    n = getattr(node, "_vparent", None)
    while n is not None and not isinstance(n, ast.If):
        n = getattr(n, "_vparent", None)
    return n


def rel_of(fn):
    m = getattr(fn, "_vmod", None)
    return m.rel if m is not None else None


def _contains(stmts, types):
    for st in stmts:
        for n in ast.walk(st):
            if isinstance(n, types):
                return True
    return False


def _has_yield(node):
    return any(isinstance(n, (ast.Yield, ast.YieldFrom)) for n in ast.walk(node))


def _only_raises(stmts):
    return bool(stmts) and all(isinstance(s, ast.Raise) or (isinstance(s, ast.Expr) and isinstance(s.value, ast.Constant)) for s in stmts)


def _store_targets(stmts):
    """names and dotted attribute chains (as written) assigned anywhere in the statements"""
    out = []

    def tgt(t):
        if isinstance(t, ast.Name):
            out.append(t)
        elif isinstance(t, ast.Attribute):
            out.append(t)
        elif isinstance(t, (ast.Tuple, ast.List)):
            for e in t.elts:
                tgt(e)
        elif isinstance(t, ast.Starred):
            tgt(t.value)

    for st in stmts:
        for n in ast.walk(st):
            if isinstance(n, ast.Assign):
                for t in n.targets:
                    tgt(t)
            elif isinstance(n, (ast.AugAssign, ast.AnnAssign)):
                tgt(n.target)
            elif isinstance(n, ast.NamedExpr):
                tgt(n.target)
            elif isinstance(n, ast.For):
                tgt(n.target)
            elif isinstance(n, ast.Call):
                for k in n.keywords:
                    if k.arg == "out":
                        tgt(k.value)
    return out


# ---------------------------------------------------------------------------------------------------------------- the evaluator
class GenEval(AutoEvaluator):
    def __init__(self, ctx, fn, env=None, facts=None, inline=None, refhook=None, sided=False, carry=None, fresh_arrays=False,
                 consts=None, depth=0, strict=False):
        super().__init__(None, src=ctx.src, env=env)
        self.ctx = ctx
        self.fn = fn
        self.rel = rel_of(fn)
        self.facts = facts or Facts()
        self.cond = self._cond
        self.inline = inline or {}
        self.refhook = refhook
        self.sided = sided
        self.carry_over = dict(carry or {})     # carried name -> value to start the iteration with (default: the symbol carry:<name>)
        self.fresh_arrays = fresh_arrays
        self.fresh = {}                         # fresh array symbol -> (kind, source value)
        self.consts = consts or ModConsts(ctx.src)
        self.inline_depth = depth
        self.strict = strict                    # an undecided test is an error (inside generator loops and followed helpers)
        self.loop = None
        self.in_loop = False
        self.iter_done = False
        self.pre_env = None
        self.carried = []                       # canonical names that start the iteration as carry symbols
        self.carry_init = {}                    # canonical name -> value before the loop (absent: unbound before the first positive send)
        self.gcells = []                        # dict(root, rows, col, value, cur, node, in_loop)
        self.events = []                        # ("call", name, pos, kws, node) | ("setattr", dotted, value, node) | ("del", dotted, node) | ("raise", node)
        self.trace = []                         # ("stmt", node) | ("enter", call node, fn) | ("exit", call node, fn)
        self.skipped_guards = []
        self.prime_yields = []                  # bare `yield` statements executed before the generator loop
        self.maybe_prime = []                   # ... that sit under a test the configuration does not decide
        a = fn.args
        params = {x.arg for x in a.posonlyargs + a.args + a.kwonlyargs} | ({a.vararg.arg} if a.vararg else set()) | ({a.kwarg.arg} if a.kwarg else set())
        self.params_ = params
        self.locals_ = set()
        for n in walk_no_nested(fn):
            if isinstance(n, ast.Name) and isinstance(n.ctx, (ast.Store, ast.Del)) and n.id not in params:
                self.locals_.add(n.id)

    # ------------------------------------------------------------------ conditions
    def _cond(self, test, ev):
        v = self.ev(test)
        self.facts.tests.append(v)
        return truth(v, self.facts)

    # ------------------------------------------------------------------ expressions
    def _ev(self, node):
        if isinstance(node, ast.Name):
            return self._name(node.id)
        if isinstance(node, ast.Attribute):
            return self._attr(node)
        if isinstance(node, ast.Subscript):
            return self._subscript(node)
        if isinstance(node, ast.Yield):
            if self.in_loop:
                return (J, F1ALL)
            return NONE
        if isinstance(node, (ast.ListComp, ast.GeneratorExp)):
            return self._comprehension(node)
        if isinstance(node, ast.JoinedStr):
            return F.sym("<text>")
        if isinstance(node, ast.BinOp) and isinstance(node.op, ast.Mod) and isinstance(node.left, ast.Constant) and isinstance(node.left.value, str):
            return F.sym("<text>")
        if isinstance(node, ast.NamedExpr):
            v = self.ev(node.value)
            self._assign(node.target, v, node)
            return v
        if isinstance(node, ast.Starred):
            return Unknown("starred expression")
        return super()._ev(node)

    def _name(self, nm):
        if nm in self.env:
            return self.env[nm]
        if nm in self.locals_:
            # a local that no statement on this path has bound: reading it is an UnboundLocalError, not a symbol of its own
            return Unknown(f"local `{nm}` is not bound on this path")
        if self.rel is not None:
            c = self.consts.get(self.rel, nm)
            if c is not None:
                return c
        if nm not in self.params_ and not self._is_global(nm):
            return Unknown(f"name `{nm}` is not defined")       # NameError at run time - never a symbol that may coincide with an expected one
        return F.sym(nm)

    def _is_global(self, nm):
        import builtins
        if hasattr(builtins, nm):
            return True
        m = getattr(self.fn, "_vmod", None)
        if m is None:
            return True
        g = getattr(m, "_c08_globals", None)
        if g is None:
            g = set()
            for st in m.tree.body:
                for n in ([st] if not isinstance(st, (ast.If, ast.Try)) else ast.walk(st)):
                    if isinstance(n, (ast.Import, ast.ImportFrom)):
                        for al in n.names:
                            g.add((al.asname or al.name).split(".")[0])
                    elif isinstance(n, (ast.FunctionDef, ast.ClassDef, ast.AsyncFunctionDef)):
                        g.add(n.name)
                    elif isinstance(n, (ast.Assign, ast.AnnAssign, ast.AugAssign)):
                        for t in (n.targets if isinstance(n, ast.Assign) else [n.target]):
                            for x in ast.walk(t):
                                if isinstance(x, ast.Name):
                                    g.add(x.id)
            m._c08_globals = g
        return nm in g

    def canon_dotted(self, node):
        """dotted chain with the root local replaced by the object it names (`pc = self.pc; pc.F` -> self.pc.F)"""
        parts = []
        n = node
        while isinstance(n, ast.Attribute):
            parts.append(n.attr)
            n = n.value
        if not isinstance(n, ast.Name):
            return None
        root = n.id
        if root in self.env:
            s = symname(self.env[root])
            if s is not None and not s.startswith("'"):
                root = s
        return ".".join([root] + parts[::-1])

    def _attr(self, node):
        d = self.canon_dotted(node)
        if d is not None and d in self.env:
            return self.env[d]
        base = self._ev(node.value)
        if is_unknown(base):
            return base
        attr = node.attr
        if attr == "T":
            return self._T(base)
        if isinstance(base, tuple):
            return Unknown(f"attribute of a tuple {ast.unparse(node)}")
        if attr in ("real", "imag"):
            return F.fn("re" if attr == "real" else "im", need(base))
        s = symname(base)
        if s is not None:
            dd = f"{s}.{attr}"
            if dd in self.env:
                return self.env[dd]
            return F.sym(dd)
        return F.fn("attr:" + attr, need(base))

    def _T(self, v):
        if is_unknown(v) or isinstance(v, tuple):
            return v
        if not self.sided:
            return v
        if v.is_const():
            return v
        u = sem.unfn(v)
        if u is not None and u[0] == "T":
            return u[1][0]
        return F.fn("T", v)

    # ---- subscripts: references (root, rows, column) that compose through views
    def _comp(self, e):
        if isinstance(e, ast.Slice):
            if e.lower is None and e.upper is None and e.step is None:
                return ALLM
            parts = []
            for p_ in (e.lower, e.upper, e.step):
                if p_ is None:
                    parts.append(NONE)
                else:
                    v = self._ev(p_)
                    if is_unknown(v) or isinstance(v, tuple):
                        raise Unsupported(f"slice bound {ast.unparse(p_)}")
                    parts.append(v)
            return F.fn("slice", *parts)
        if isinstance(e, ast.Constant) and e.value is None:
            return _NEWAXIS
        if dotted(e) in ("np.newaxis", "numpy.newaxis"):
            return _NEWAXIS
        v = self._ev(e)
        if is_unknown(v):
            raise Unsupported(v.why)
        if isinstance(v, tuple):
            raise Unsupported(f"tuple used as an index: {ast.unparse(e)}")
        if symname(v) == "None":
            return _NEWAXIS
        u = sem.unfn(v)
        if u is not None and u[0] == "slice" and all(symname(a) == "None" for a in u[1]):
            return ALLM
        return v

    def _comps(self, sl):
        elts = sl.elts if isinstance(sl, ast.Tuple) else [sl]
        return [self._comp(e) for e in elts]

    def _subscript(self, node):
        base = self._ev(node.value)
        if is_unknown(base):
            return base
        if isinstance(base, tuple):
            return self._tuple_index(base, node)
        try:
            comps = self._comps(node.slice)
            return self._index(base, comps)
        except Unsupported as e:
            return Unknown(str(e))

    def _tuple_index(self, base, node):
        from .e2_eval import _vec_index
        r = _vec_index(base, node.slice)
        if r is NotImplemented:
            # an index that is a value (a module constant ...)
            try:
                v = self._ev(node.slice)
            except Unsupported:
                v = None
            if v is not None and not is_unknown(v) and not isinstance(v, tuple) and v.is_const() and v.const_value().denominator == 1:
                k = int(v.const_value())
                if -len(base) <= k < len(base):
                    return base[k]
            return Unknown(f"index into a tuple: {ast.unparse(node)}")
        return r

    def _index(self, base, comps):
        comps = [c for c in comps if c is not _NEWAXIS]
        if not comps or all(is_all(c) for c in comps):
            return base
        u = sem.unfn(base)
        if len(comps) == 1:
            c = comps[0]
            uc = sem.unfn(c)
            sl = uc[1] if (uc is not None and uc[0] == "slice") else None
            if u is not None and (u[0].startswith("call:") or u[0] == "item"):
                # an opaque sequence (the tuple a method returns): constant positions are its items
                if c.is_const():
                    return F.fn("item", base, c)
                if sl is not None and all(symname(x) == "None" or x.is_const() for x in sl) and sl[1].is_const() and symname(sl[2]) == "None":
                    lo = 0 if symname(sl[0]) == "None" else int(sl[0].const_value())
                    hi = int(sl[1].const_value())
                    if 0 <= lo <= hi:
                        return tuple(F.fn("item", base, F.const(k)) for k in range(lo, hi))
            if sl is not None:
                # a row range of a value: linear selector (distributes over sums and products, so (Q @ f)[n:] == Q[n:] @ f)
                return F.fn("rowsel", sl[0], sl[1], sl[2]) * base
        root, rows, col = base, ALLM, ALLM
        if u is not None and u[0] == "ref":
            root, rows, col = u[1]
        if len(comps) == 1:
            r = comps[0]
            rows = r if is_all(rows) else F.fn("sub", rows, r)
        elif len(comps) == 2:
            r, c = comps
            if not is_all(col):
                raise Unsupported("two indices into a selected column")
            if not is_all(r):
                rows = r if is_all(rows) else F.fn("sub", rows, r)
            col = c
        else:
            raise Unsupported("more than two indices")
        return self.mkref(root, rows, col)

    def mkref(self, root, rows, col):
        if self.refhook is not None:
            r = self.refhook(self, root, rows, col)
            if r is not None:
                return r
        return F.fn("ref", root, rows, col)

    def target_ref(self, target):
        """(root, rows, col) of a subscript store target, or None"""
        base = self._ev(target.value)
        if is_unknown(base) or isinstance(base, tuple):
            return None
        try:
            comps = [c for c in self._comps(target.slice) if c is not _NEWAXIS]
        except Unsupported:
            return None
        u = sem.unfn(base)
        root, rows, col = base, ALLM, ALLM
        if u is not None and u[0] == "ref":
            root, rows, col = u[1]
        if len(comps) == 1:
            r = comps[0]
            if not is_all(r):
                rows = r if is_all(rows) else F.fn("sub", rows, r)
        elif len(comps) == 2:
            r, c = comps
            if not is_all(col):
                return None
            if not is_all(r):
                rows = r if is_all(rows) else F.fn("sub", rows, r)
            col = c
        else:
            return None
        return root, rows, col

    def _comprehension(self, node):
        if len(node.generators) != 1 or node.generators[0].ifs or node.generators[0].is_async:
            return Unknown("comprehension")
        g = node.generators[0]
        it = self.ev(g.iter)
        if not isinstance(it, tuple):
            return Unknown("comprehension over a non-constant sequence")
        saved = dict(self.env)
        out = []
        for x in it:
            self._assign(g.target, x, node)
            out.append(self.ev(node.elt))
        names = {t.id for t in ast.walk(g.target) if isinstance(t, ast.Name)}
        for n in names:
            if n in saved:
                self.env[n] = saved[n]
            else:
                self.env.pop(n, None)
        return tuple(out)

    # ------------------------------------------------------------------ calls
    def _callee_name(self, node):
        f = node.func
        if isinstance(f, ast.Name):
            return f.id
        if isinstance(f, ast.Attribute):
            return self.canon_dotted(f)
        return None

    def _record_call(self, node):
        name = self._callee_name(node)
        if name is None and isinstance(node.func, ast.Attribute):
            name = "." + node.func.attr
        if name is None:
            return
        pos = [self.ev(a) for a in node.args if not isinstance(a, ast.Starred)]
        kws = {k.arg: self.ev(k.value) for k in node.keywords if k.arg is not None}
        self.seq += 1
        self.call_seq.append(self.seq)
        self.calls.append((name, pos, kws, node))
        self.events.append(("call", name, pos, kws, node))

    def _call(self, node):
        name = self._callee_name(node)
        if name is not None and name in self.inline and self.inline_depth < 5 and self.inline[name] is not self.fn:
            r = self._inline(node, name)
            if r is not NotImplemented:
                return r
        args = node.args
        kw = {k.arg: k.value for k in node.keywords if k.arg is not None}
        meth = node.func.attr if isinstance(node.func, ast.Attribute) else None

        # --- effects on attributes / in-place library calls are not "calls" of the trace
        if name in ("getattr",) and len(args) >= 2:
            o, a = self.ev(args[0]), self.ev(args[1])
            s, an = symname(o), strconst(a)
            if s is not None and an is not None:
                d = f"{s}.{an}"
                self.events.append(("getattr", d, node))
                return self.env.get(d, F.sym(d))
        if name in ("setattr",) and len(args) == 3:
            o, a = self.ev(args[0]), self.ev(args[1])
            s, an = symname(o), strconst(a)
            if s is not None and an is not None:
                v = self.ev(args[2])
                self.env[f"{s}.{an}"] = v
                self.events.append(("setattr", f"{s}.{an}", v, node))
                return NONE
        if name in ("delattr",) and len(args) == 2:
            o, a = self.ev(args[0]), self.ev(args[1])
            s, an = symname(o), strconst(a)
            if s is not None and an is not None:
                self.env.pop(f"{s}.{an}", None)
                self.events.append(("del", f"{s}.{an}", node))
                return NONE
        if name == "zip" and args and not kw:
            vs = [self.ev(a) for a in args]
            n = min((len(v) for v in vs if isinstance(v, tuple)), default=None)
            if n is not None:
                cols = []
                for v in vs:
                    if isinstance(v, tuple):
                        cols.append(v[:n])
                    elif is_unknown(v):
                        return v
                    else:
                        cols.append(tuple(F.fn("item", v, F.const(k)) for k in range(n)))
                return tuple(tuple(c[k] for c in cols) for k in range(n))
        if name == "slice" and 1 <= len(args) <= 3 and not kw:
            vs = [self.ev(a) for a in args]
            if any(is_unknown(v) or isinstance(v, tuple) for v in vs):
                return Unknown("slice()")
            if len(vs) == 1:
                vs = [NONE, vs[0], NONE]
            elif len(vs) == 2:
                vs = vs + [NONE]
            return F.fn("slice", *vs)
        if name == "isinstance" and len(args) == 2 and dotted(args[1]) == "float":
            v = self.ev(args[0])
            if is_unknown(v):
                return v
            return F.sym("True") if (not isinstance(v, tuple) and v.is_const()) else F.sym("False")
        if name in ("tuple", "list") and len(args) == 1:
            v = self.ev(args[0])
            if isinstance(v, tuple):
                return v

        self._record_call(node)

        if name in ("np.eye", "np.identity", "numpy.eye", "numpy.identity"):
            return F.const(1)
        if name in ("la.lu_solve", "scipy.linalg.lu_solve", "lu_solve", "linalg.lu_solve") and len(args) >= 2:
            return self._lusolve(node, kw)
        if name in ("np.dot", "np.matmul") and len(args) == 2 and "out" not in kw:
            a, b = self.ev(args[0]), self.ev(args[1])
            return self._arith(ast.Mult(), a, b)
        if name == "np.transpose" and len(args) == 1:
            return self._T(self.ev(args[0]))
        if name in ("np.ravel", "np.asarray", "np.array", "np.atleast_1d", "np.atleast_2d", "np.ascontiguousarray", "np.asfortranarray",
                    "np.squeeze", "np.real", "float", "complex", "int", "operator.index") and len(args) >= 1:
            return self.ev(args[0])
        if name in ("np.add", "np.subtract", "np.multiply", "np.divide") and len(args) >= 2:
            op = {"np.add": ast.Add(), "np.subtract": ast.Sub(), "np.multiply": ast.Mult(), "np.divide": ast.Div()}[name]
            v = self._arith(op, self.ev(args[0]), self.ev(args[1]))
            out = kw.get("out") or (args[2] if len(args) > 2 else None)
            if out is not None:
                self._assign(out, v, node, aug=True)
            return v
        if name == "np.fill_diagonal" and len(args) == 2:
            b, w = self.ev(args[0]), self.ev(args[1])
            if not is_unknown(b) and not is_unknown(w) and not isinstance(b, tuple) and not isinstance(w, tuple):
                self._assign(args[0], F.fn("withdiag", b, w), node, aug=True) if isinstance(args[0], (ast.Name, ast.Attribute)) else None
            return NONE
        if name in ("np.copy",) and len(args) >= 1:
            v = self.ev(args[0])
            return self._fresh("copy", v) if self.fresh_arrays else v
        if name in ZERO_CTORS or name in ("np.ones", "np.ones_like"):
            if self.fresh_arrays:
                return self._fresh("zeros" if name in ZERO_CTORS else "ones", None)
            return F.const(0) if name in ZERO_CTORS else F.const(1)
        if meth is not None:
            if meth in ("ravel", "astype", "squeeze", "flatten", "reshape", "view", "conj_none"):
                return self.ev(node.func.value)
            if meth == "copy":
                v = self.ev(node.func.value)
                return self._fresh("copy", v) if self.fresh_arrays else v
            if meth == "transpose" and not args:
                return self._T(self.ev(node.func.value))
            if meth == "dot" and len(args) == 1:
                return self._arith(ast.Mult(), self.ev(node.func.value), self.ev(args[0]))
        r = Evaluator._call(self, node)
        if not is_unknown(r):
            return r
        return self._opaque_call(node, name, r)

    def _arith(self, op, a, b):
        if is_unknown(a):
            return a
        if is_unknown(b):
            return b
        if isinstance(a, tuple) or isinstance(b, tuple):
            from .e2_eval import _vec_binop
            return _vec_binop(op, a, b)
        from .e2_eval import _binop
        try:
            return _binop(op, need(a), need(b))
        except Unsupported as e:
            return Unknown(str(e))

    def _fresh(self, kind, src):
        s = F.sym(f"new#{len(self.fresh)}:{kind}")
        self.fresh[symname(s)] = (kind, src)
        return s

    def _lusolve(self, node, kw):
        a, x = self.ev(node.args[0]), self.ev(node.args[1])
        if is_unknown(a):
            return a
        if is_unknown(x):
            return x
        if isinstance(a, tuple) or isinstance(x, tuple):
            return Unknown("lu_solve of tuples")
        if x.is_const() and x.const_value() == 1:
            # lu_solve(lu, identity): the explicit inverse, applied from the left wherever it is used; unsided, `a` stands for the inverse operator
            return F.fn("preinv", a) if self.sided else a
        t = 0
        tn = kw.get("trans") or (node.args[2] if len(node.args) > 2 else None)
        if tn is not None:
            tv = self.ev(tn)
            if is_unknown(tv) or isinstance(tv, tuple) or not tv.is_const():
                return Unknown("lu_solve: trans")
            t = int(tv.const_value())
        if not self.sided:
            return a * x
        if t == 0:
            return F.fn("preinv", a) * x
        ux = sem.unfn(x)
        if ux is not None and ux[0] == "T":
            return F.fn("T", ux[1][0] * F.fn("postinv", a))      # A^-T X^T = (X A^-1)^T
        return F.fn("preinvT", a) * x

    def _opaque_call(self, node, name, r):
        args = []
        if name is None or (isinstance(node.func, ast.Attribute) and isinstance(node.func.value, ast.Name) and node.func.value.id in self.env
                            and symname(self.env[node.func.value.id]) is None and not isinstance(self.env[node.func.value.id], tuple)
                            and not is_unknown(self.env[node.func.value.id])):
            if isinstance(node.func, ast.Attribute):
                b = self._ev(node.func.value)
                if is_unknown(b) or isinstance(b, tuple):
                    return r
                args.append(need(b))
                name = "." + node.func.attr
            else:
                return r
        for a in node.args:
            v = self.ev(a)
            if is_unknown(v):
                return v
            if isinstance(v, tuple):
                if any(is_unknown(x) or isinstance(x, tuple) for x in v):
                    return Unknown("nested tuple argument")
                v = F.fn("tuple", *[need(x) for x in v])
            args.append(need(v))
        for k in node.keywords:
            if k.arg is None:
                return Unknown("**kwargs")
            v = self.ev(k.value)
            if is_unknown(v) or isinstance(v, tuple):
                return Unknown(f"keyword {k.arg}")
            args.append(F.fn("kw:" + k.arg, need(v)))
        return F.fn("call:" + name, *args)

    # ---- following a helper on its argument values
    def _inline(self, node, name):
        fn = self.inline[name]
        a = fn.args
        params = [x.arg for x in a.posonlyargs + a.args]
        method = bool(params) and params[0] in ("self", "cls") and "." in name
        if method:
            params = params[1:]
        if a.vararg or a.kwarg or any(isinstance(x, ast.Starred) for x in node.args) or any(k.arg is None for k in node.keywords):
            return NotImplemented
        if len(node.args) > len(params) or _has_yield(fn):
            return NotImplemented
        env = {}
        for p_, x in zip(params, node.args):
            env[p_] = self.ev(x)
        kwonly = [x.arg for x in a.kwonlyargs]
        for k in node.keywords:
            if k.arg not in params and k.arg not in kwonly:
                return NotImplemented
            env[k.arg] = self.ev(k.value)
        dflt = dict(zip(params[::-1], (a.defaults or [])[::-1]))
        for p_ in params:
            if p_ not in env:
                if p_ in dflt:
                    env[p_] = self.ev(dflt[p_])
                else:
                    return NotImplemented
        for p_, d in zip(kwonly, a.kw_defaults):
            if p_ not in env and d is not None:
                env[p_] = self.ev(d)
        recv = name.rsplit(".", 1)[0] if method else None
        if method:
            # the object's attributes are visible to its methods
            for k, v in self.env.items():
                if k.startswith(recv + ".") and k not in env:
                    env["self." + k[len(recv) + 1:]] = v
        sub = GenEval(self.ctx, fn, env=env, facts=self.facts, inline=self.inline, refhook=self.refhook, sided=self.sided,
                      fresh_arrays=self.fresh_arrays, consts=self.consts, depth=self.inline_depth + 1, strict=True)
        sub.erase_T = self.erase_T
        sub.seq = self.seq
        sub.fresh = self.fresh
        sub.in_loop = False
        self.trace.append(("enter", node, fn))
        sub.run(fn.body)
        self.trace.extend(sub.trace)
        self.trace.append(("exit", node, fn))
        self.calls.extend(sub.calls)
        self.call_seq.extend(sub.call_seq)
        self.events.extend(sub.events)
        for c in sub.gcells:
            c = dict(c, in_loop=self.in_loop)
            self.gcells.append(c)
        self.skipped_guards.extend(sub.skipped_guards)
        self.seq = sub.seq
        if method:
            for k, v in sub.env.items():
                if k.startswith("self.") and k not in params:
                    self.env[recv + "." + k[5:]] = v
        if any(e[0] == "raise" for e in sub.events) and not sub.returns:
            self.done = True
            return NONE
        if not sub.returns:
            return NONE
        v = sub.returns[-1][0]
        return NONE if v is None else v

    # ------------------------------------------------------------------ statements
    def run(self, stmts):
        for st in stmts:
            if self.done or self.iter_done:
                break
            self.stmt(st)

    def stmt(self, st):
        if self.done or self.iter_done:
            return
        if isinstance(st, ast.While):
            return self._while(st)
        if isinstance(st, ast.For):
            return self._for(st)
        if isinstance(st, ast.Continue):
            if not self.in_loop:
                raise Unsupported("continue outside the generator loop")
            self.iter_done = True
            return
        if isinstance(st, ast.Break):
            raise Unsupported("break")
        if isinstance(st, ast.If):
            c = self.decide(st.test)
            if c is True:
                self.run(st.body)
            elif c is False:
                self.run(st.orelse)
            else:
                if _only_raises(st.body) and not st.orelse:
                    self.skipped_guards.append(st)        # argument validation: the accepted inputs go on
                    return
                risky = _contains(st.body + st.orelse, (ast.Return, ast.Continue, ast.Break, ast.While, ast.Raise, ast.Delete)) or \
                    any(isinstance(t, ast.Subscript) for s_ in st.body + st.orelse for n in ast.walk(s_)
                        if isinstance(n, (ast.Assign, ast.AugAssign)) for t in (n.targets if isinstance(n, ast.Assign) else [n.target]))
                if self.strict or self.in_loop or risky:
                    if not (_has_yield(st) and not self.in_loop and all(isinstance(s_, ast.Expr) for s_ in st.body) and not st.orelse):
                        raise Unsupported(f"undecided test `{ast.unparse(st.test)}` at line {st.lineno}")
                if _has_yield(st):
                    self.maybe_prime.append(st)
                for t in _store_targets(st.body + st.orelse):
                    d = t.id if isinstance(t, ast.Name) else self.canon_dotted(t)
                    if d:
                        self.env[d] = Unknown(f"assigned under undecided test {ast.unparse(st.test)}")
            return
        if isinstance(st, ast.Raise):
            self.events.append(("raise", st))
            self.done = True
            return
        if isinstance(st, ast.Delete):
            for t in st.targets:
                for e in (t.elts if isinstance(t, (ast.Tuple, ast.List)) else [t]):
                    d = e.id if isinstance(e, ast.Name) else (self.canon_dotted(e) if isinstance(e, ast.Attribute) else None)
                    if d:
                        self.env.pop(d, None)
                        self.events.append(("del", d, st))
            self.trace.append(("stmt", st))
            return
        if isinstance(st, ast.Expr):
            if isinstance(st.value, ast.Constant):
                return
            if isinstance(st.value, ast.Yield) and not self.in_loop:
                self.prime_yields.append(st)         # the generator parks here before it ever receives a message
                return
            self.ev(st.value)
            self.trace.append(("stmt", st))
            return
        if isinstance(st, (ast.With,)):
            self.run(st.body)
            return
        if isinstance(st, ast.Try):
            raise Unsupported("try")
        if isinstance(st, (ast.Assign, ast.AugAssign, ast.AnnAssign, ast.Return)):
            Evaluator.stmt(self, st)
            self.trace.append(("stmt", st))
            return
        if isinstance(st, (ast.Pass, ast.Import, ast.ImportFrom, ast.Assert, ast.Global, ast.Nonlocal, ast.FunctionDef)):
            return
        raise Unsupported(f"statement {type(st).__name__}")

    def _while(self, st):
        t = self.decide(st.test)
        if not _has_yield(st):
            raise Unsupported("a while loop that is not a generator loop")
        if t is False:
            return
        if t is not True or st.orelse:
            raise Unsupported(f"generator loop with the test `{ast.unparse(st.test)}`")
        if self.loop is not None:
            raise Unsupported("nested generator loops")
        self.loop = st
        self.pre_env = dict(self.env)
        seen = set()
        for t_ in _store_targets(st.body):
            d = t_.id if isinstance(t_, ast.Name) else self.canon_dotted(t_)
            if not d or d in seen:
                continue
            seen.add(d)
            self.carried.append(d)
            if d in self.env:
                self.carry_init[d] = self.env[d]
            self.env[d] = self.carry_over.get(d, F.sym("carry:" + d))
        self.in_loop = True
        self.trace.append(("loop", st))
        self.run(st.body)
        self.done = True          # the loop never ends: nothing after it is reachable

    def _for(self, st):
        it = self.ev(st.iter)
        if isinstance(it, tuple) and not st.orelse and not _contains(st.body, (ast.Break, ast.Continue)):
            for x in it:
                self._assign(st.target, x, st)
                self.run(st.body)
            return
        raise Unsupported(f"for loop over `{ast.unparse(st.iter)}`")

    def _assign(self, target, v, st, aug=False):
        if isinstance(target, ast.Name):
            if target.id in self.pinned:
                return
            self.env[target.id] = v
            if symname(v) == "F1all":
                self.trace.append(("bind", target.id, "F1all"))
            sc = sem.split_call(v) if (v is not None and not is_unknown(v) and not isinstance(v, tuple)) else None
            if sc is not None and sc[0].split(".")[-1] == "SimpleNamespace" and not sc[1]:
                for k, val in sc[2].items():
                    self.env[f"{target.id}.{k}"] = val
            return
        if isinstance(target, ast.Attribute):
            d = self.canon_dotted(target)
            if d is None:
                raise Unsupported(f"attribute store {ast.unparse(target)}")
            if d not in self.pinned:
                self.env[d] = v
                self.events.append(("setattr", d, v, st))
            return
        if isinstance(target, (ast.Tuple, ast.List)):
            n = len(target.elts)
            if isinstance(v, tuple) and len(v) == n:
                for t, x in zip(target.elts, v):
                    self._assign(t, x, st)
            elif v is not None and not is_unknown(v) and not isinstance(v, tuple) and sem.unfn(v) is not None \
                    and (sem.unfn(v)[0].startswith("call:") or sem.unfn(v)[0] == "item"):
                for k, t in enumerate(target.elts):
                    self._assign(t, F.fn("item", v, F.const(k)), st)
            else:
                for t in target.elts:
                    self._assign(t, Unknown("tuple unpacking of a non-tuple"), st)
            return
        if isinstance(target, ast.Subscript):
            ref = self.target_ref(target)
            cur = None
            if aug:
                import copy
                ld = copy.copy(target)
                ld.ctx = ast.Load()
                cur = self.ev(ld)
            self.seq += 1
            if ref is None:
                self.gcells.append(dict(root=None, rows=None, col=None, value=v, cur=cur, node=st, in_loop=self.in_loop, seq=self.seq,
                                        text=ast.unparse(target)))
            else:
                self.gcells.append(dict(root=ref[0], rows=ref[1], col=ref[2], value=v, cur=cur, node=st, in_loop=self.in_loop, seq=self.seq,
                                        text=ast.unparse(target)))
            return
        raise Unsupported(f"assignment target {type(target).__name__}")


def inline_table(ctx, specs, exclude=()):
    """{call name: FunctionDef} from [(file, class or None)]: module-level functions by bare name, methods as self.<name>; an earlier spec
    wins (so list the most derived class first)"""
    out = {}
    for rel, cls in specs:
        try:
            t = sem.module_funcs(ctx, rel, cls=cls, exclude=exclude)
        except Exception:  # noqa
            continue
        for k, v in t.items():
            if k.startswith("self.") and k[5:] in exclude:
                continue
            if _has_yield(v):
                continue
            out.setdefault(k, v)
    return out
