"""C09 engine, part 3: path enumeration of a parent function up to the statement that joins the parallel and the serial arm, liveness of the
statements that follow, and comparison of two leaf states."""
from __future__ import annotations

import ast

from .c09_terms import Unsup, is_tag, is_const, subterms, tmap, show, first_diff, ZEROS, EMPTY, MP_NAMES, World
from .c09_facts import consistent
from .c09_sim import Sim, Frame, PathDead, _Return, _walk_scope, test_dump

MAXLEAVES = 1500


def _mentions_pool(world, rel, node):
    """syntactically: may evaluating `node` create a pool / shared buffer or start tasks (directly or through helpers of the analysed modules)"""
    mi = world.mods[rel]
    for n in ast.walk(node):
        if isinstance(n, ast.Call):
            fx = n.func
            last = fx.attr if isinstance(fx, ast.Attribute) else (fx.id if isinstance(fx, ast.Name) else None)
            if last in MP_NAMES:
                return True
            callee = None
            if isinstance(fx, ast.Name) and fx.id in mi.funcs:
                callee = (rel, fx.id)
            elif isinstance(fx, ast.Name) and mi.imports.get(fx.id, ("",))[0] == "fn":
                callee = mi.imports[fx.id][1:]
            elif isinstance(fx, ast.Attribute) and isinstance(fx.value, ast.Name) and mi.imports.get(fx.value.id, ("",))[0] == "rmod":
                callee = (mi.imports[fx.value.id][1], fx.attr)
            if callee is not None and callee[1] in world.mods[callee[0]].funcs and "mp" in world.summary(*callee):
                return True
    return False


def join_index(world, rel, fn):
    k = None
    for i, st in enumerate(fn.body):
        if _mentions_pool(world, rel, st):
            k = i
    if k is None:
        raise Unsup(f"{fn.name}: no statement that creates a pool")
    return k


def _loads(node):
    """names of the enclosing scope an expression / statement may read (the variables of a comprehension and the parameters of a lambda are
    names of their own scope: they neither read nor leak)"""
    return _scoped_loads(node, False)


def _must_loads(node):
    """names that are read whenever the expression is evaluated (not: the arms of a conditional expression, the later operands of and / or, the
    element of a comprehension - the sequence may be empty -, the body of a lambda)"""
    return _scoped_loads(node, True)


def _scoped_loads(node, must):
    out = set()

    def go(n, bound):
        if isinstance(n, ast.Name):
            if isinstance(n.ctx, ast.Load) and n.id not in bound:
                out.add(n.id)
            return
        if isinstance(n, (ast.ListComp, ast.SetComp, ast.GeneratorExp, ast.DictComp)):
            inner = set(bound)
            for k, g in enumerate(n.generators):
                if k == 0:
                    go(g.iter, bound)
                elif not must:
                    go(g.iter, inner)
                inner |= _target_names(g.target)
                if not must:
                    for c in g.ifs:
                        go(c, inner)
                    for x in ast.walk(g.target):          # a subscript / attribute target reads its base
                        if isinstance(x, ast.Name) and isinstance(x.ctx, ast.Load) and x.id not in inner:
                            out.add(x.id)
            if not must:
                for e in ([n.key, n.value] if isinstance(n, ast.DictComp) else [n.elt]):
                    go(e, inner)
            return
        if isinstance(n, ast.Lambda):
            a = n.args
            for d in list(a.defaults) + [d for d in a.kw_defaults if d is not None]:
                go(d, bound)
            if not must:
                ps = {x.arg for x in a.posonlyargs + a.args + a.kwonlyargs} | {x.arg for x in (a.vararg, a.kwarg) if x is not None}
                go(n.body, bound | ps)
            return
        if must and isinstance(n, ast.IfExp):
            go(n.test, bound)
            return
        if must and isinstance(n, ast.BoolOp):
            go(n.values[0], bound)
            return
        if must and isinstance(n, (ast.FunctionDef, ast.AsyncFunctionDef, ast.ClassDef)):
            return
        for ch in ast.iter_child_nodes(n):
            go(ch, bound)

    go(node, frozenset())
    return out


def _target_names(t):
    return {n.id for n in ast.walk(t) if isinstance(n, ast.Name) and isinstance(n.ctx, ast.Store)}


def live_in(stmts, live):
    """names whose value on entry to `stmts` may be read (conservative backward pass)"""
    live = set(live)
    for st in reversed(stmts):
        if isinstance(st, ast.Assign):
            kill = set()
            use = _loads(st.value)
            for t in st.targets:
                if isinstance(t, ast.Name):
                    kill.add(t.id)
                elif isinstance(t, (ast.Tuple, ast.List)) and all(isinstance(e, ast.Name) for e in t.elts):
                    kill |= {e.id for e in t.elts}
                else:
                    use |= _loads(t)
            live = (live - kill) | use
        elif isinstance(st, ast.If):
            live = _loads(st.test) | live_in(st.body, live) | live_in(st.orelse, live)
        elif isinstance(st, ast.For):
            tn = _target_names(st.target)
            l1 = live_in(st.body, live)
            l2 = live_in(st.body, live | l1)
            live = _loads(st.iter) | live | (l2 - tn) | live_in(st.orelse, live)
        elif isinstance(st, ast.While):
            l1 = live_in(st.body, live)
            l2 = live_in(st.body, live | l1)
            live = _loads(st.test) | live | l2
        elif isinstance(st, ast.With):
            tn = set()
            use = set()
            for it in st.items:
                use |= _loads(it.context_expr)
                if it.optional_vars is not None:
                    tn |= _target_names(it.optional_vars)
            live = use | (live_in(st.body, live) - tn)
        elif isinstance(st, ast.Return):
            live = _loads(st.value) if st.value is not None else set()
        elif isinstance(st, ast.Raise):
            live = _loads(st)
        elif isinstance(st, (ast.FunctionDef, ast.ClassDef, ast.Lambda)):
            live = live | _loads(st)
        else:
            live = live | _loads(st)
    return live


# ---- what the code after the join does first with one name: READ it (on every way through), or not read it at all (KILL: rebound or the function
# is left first; PASS: untouched; MAYKILL: perhaps rebound), or MAYREAD (it depends on tests that are not decided)
READ, KILL, PASS, MAYKILL, MAYREAD = "read", "kill", "pass", "maykill", "mayread"


def _seq(a, b):
    if a in (READ, KILL, MAYREAD):
        return a
    if a == PASS:
        return b
    # a == MAYKILL
    return {READ: MAYREAD, MAYREAD: MAYREAD, KILL: KILL, PASS: MAYKILL, MAYKILL: MAYKILL}[b]


def _alt(a, b):
    if a == b:
        return a
    if READ in (a, b) or MAYREAD in (a, b):
        return MAYREAD
    return MAYKILL


def _expr_use(node, name):
    if node is None:
        return PASS
    if name in _must_loads(node):
        return READ
    if name in _loads(node):
        return MAYREAD
    return PASS


def _zero_or_more(r):
    """a loop body that may run zero times"""
    return {READ: MAYREAD, MAYREAD: MAYREAD, KILL: MAYKILL, MAYKILL: MAYKILL, PASS: PASS}[r]


def first_use(stmts, name, decide=None):
    """decide(test node) -> True / False / None: the truth of a test of the tail on the path under consideration, when known"""
    r = PASS
    for st in stmts:
        r = _seq(r, _stmt_use(st, name, decide))
        if r in (READ, KILL, MAYREAD):
            return r
    return r


def _stmt_use(st, name, decide):
    if isinstance(st, ast.Assign):
        r = _expr_use(st.value, name)
        for t in st.targets:
            els = t.elts if isinstance(t, (ast.Tuple, ast.List)) else [t]
            for e in els:
                if isinstance(e, ast.Starred):
                    e = e.value
                if isinstance(e, ast.Name):
                    r = _seq(r, KILL if e.id == name else PASS)
                else:
                    r = _seq(r, _expr_use(e, name))
        return r
    if isinstance(st, ast.AnnAssign):
        r = _expr_use(st.value, name)
        if isinstance(st.target, ast.Name):
            return _seq(r, KILL if (st.target.id == name and st.value is not None) else PASS)
        return _seq(r, _expr_use(st.target, name))
    if isinstance(st, ast.AugAssign):
        r = _expr_use(st.value, name)
        if isinstance(st.target, ast.Name):
            return _seq(r, READ if st.target.id == name else PASS)
        return _seq(r, _expr_use(st.target, name))
    if isinstance(st, ast.If):
        r = _expr_use(st.test, name)
        if r in (READ, MAYREAD):
            return r
        d = decide(st.test) if decide is not None else None
        if d is True:
            return first_use(st.body, name, decide)
        if d is False:
            return first_use(st.orelse, name, decide)
        return _alt(first_use(st.body, name, decide), first_use(st.orelse, name, decide))
    if isinstance(st, ast.For):
        r = _expr_use(st.iter, name)
        if name in _target_names(st.target):
            body = MAYKILL
        else:
            body = _zero_or_more(first_use(st.body, name, None))
        r = _seq(r, body)
        return _seq(r, first_use(st.orelse, name, decide))
    if isinstance(st, ast.While):
        r = _expr_use(st.test, name)
        r = _seq(r, _zero_or_more(first_use(st.body, name, None)))
        return _seq(r, first_use(st.orelse, name, decide))
    if isinstance(st, ast.With):
        r = PASS
        for it in st.items:
            r = _seq(r, _expr_use(it.context_expr, name))
            if it.optional_vars is not None and name in _target_names(it.optional_vars):
                r = _seq(r, KILL)
        return _seq(r, first_use(st.body, name, decide))
    if isinstance(st, ast.Return):
        r = _expr_use(st.value, name)
        return _seq(r, KILL)
    if isinstance(st, ast.Raise):
        return _seq(_seq(_expr_use(st.exc, name), _expr_use(st.cause, name)), KILL)
    if isinstance(st, ast.Expr):
        return _expr_use(st.value, name)
    if isinstance(st, ast.Delete):
        return READ if any(isinstance(t, ast.Name) and t.id == name for t in st.targets) else \
            (MAYREAD if name in _loads(st) else PASS)
    if isinstance(st, (ast.Pass, ast.Global, ast.Nonlocal, ast.Break, ast.Continue)):
        return PASS
    if isinstance(st, (ast.Import, ast.ImportFrom)):
        return KILL if any((a.asname or a.name).split(".")[0] == name for a in st.names) else PASS
    if isinstance(st, (ast.FunctionDef, ast.AsyncFunctionDef, ast.ClassDef)):
        if st.name == name:
            return KILL
        return MAYREAD if any(isinstance(n, ast.Name) and n.id == name for n in ast.walk(st)) else PASS
    # try / match / anything else: touched or not
    if any(isinstance(n, ast.Name) and n.id == name and isinstance(n.ctx, (ast.Load, ast.Del)) for n in ast.walk(st)):
        return MAYREAD
    if any(isinstance(n, ast.Name) and n.id == name for n in ast.walk(st)):
        return MAYKILL
    return PASS


_SIMPLE_TEST = (ast.Name, ast.Constant, ast.Compare, ast.BoolOp, ast.UnaryOp, ast.Attribute, ast.cmpop, ast.boolop, ast.unaryop, ast.expr_context,
                ast.Tuple, ast.List)


def tail_test(leaf, node, assign, tail):
    """truth of a test of the code after the join on the path of `leaf` (None: not known).  Only tests made of names, constants, comparisons and
    not / and / or whose names the tail itself never rebinds are looked at; they are evaluated on the state the path left behind."""
    if any(not isinstance(n, _SIMPLE_TEST) for n in ast.walk(node)):
        return None
    names = {n.id for n in ast.walk(node) if isinstance(n, ast.Name)}
    rebound = set()
    for st in tail:
        for n in ast.walk(st):
            if isinstance(n, ast.Name) and isinstance(n.ctx, (ast.Store, ast.Del)):
                rebound.add(n.id)
    if names & rebound:
        return None
    sim = leaf.sim
    keep = (sim.assign, sim.cur_node, len(sim.reads), len(sim.unbound_locals), len(sim.preads), len(sim.none_uses), len(sim.unbound))
    sim.assign = assign
    try:
        t = sim.snap(sim.ev(node, leaf.fr), record=False)
        if any(is_tag(x, "unboundlocal", "poison", "unbound") for x in subterms(t)):
            return None
        return sim.try_decided(t)
    except Exception:  # noqa - an expression the engine does not evaluate: not known
        return None
    finally:
        sim.assign, sim.cur_node = keep[0], keep[1]
        del sim.reads[keep[2]:], sim.unbound_locals[keep[3]:], sim.preads[keep[4]:], sim.none_uses[keep[5]:], sim.unbound[keep[6]:]


class Leaf:
    def __init__(self, sim, fr, ret):
        self.sim = sim
        self.fr = fr
        self.ret = ret          # None when the path reached the join statement, else the returned value
        self.assign = dict(sim.assign)
        self.parallel = bool(sim.launches) or bool(sim.pools) or any(o.kind == "raw" for o in sim.heap.values())

    def value(self, name, assign=None):
        v = self.fr.locals.get(name)
        if v is None:
            return None
        return resolve(self.sim.snap(v, record=False), assign if assign is not None else self.assign, self.sim)

    def term(self, v, assign=None):
        return resolve(self.sim.snap(v, record=False), assign if assign is not None else self.assign, self.sim)


def resolve(t, assign, sim):
    saved = sim.assign
    sim.assign = assign
    try:
        return restar(sim.resolve(t), sim)
    finally:
        sim.assign = saved


def _star_runs(args, lens):
    """Sim.star_runs on an argument list of a finished term: X[0], ..., X[n-1] in a row, X unpacked into exactly n targets, is *X"""
    out, i = [], 0
    while i < len(args):
        a = args[i]
        if is_tag(a, "idx") and a[2] == (_C0,):
            n = lens.get(a[1])
            if n and all(i + k < len(args) and args[i + k] == ("idx", a[1], (("c", "int", k),)) for k in range(n)):
                out.append(("star", a[1]))
                i += n
                continue
        out.append(a)
        i += 1
    return tuple(out)


_C0 = ("c", "int", 0)


def _restar_call(lens):
    def f(x):
        if is_tag(x, "call") and len(x) == 4 and isinstance(x[2], tuple) and len(x[2]) >= 2:
            args = _star_runs(x[2], lens)
            if args != x[2]:
                return (x[0], x[1], args, x[3])
        return x
    return f


def _unstar_call(lens):
    def f(x):
        if is_tag(x, "call") and len(x) == 4 and isinstance(x[2], tuple) and any(is_tag(a, "star") and lens.get(a[1]) for a in x[2]):
            args = []
            for a in x[2]:
                n = lens.get(a[1]) if is_tag(a, "star") else None
                if n:
                    args.extend(("idx", a[1], (("c", "int", k),)) for k in range(n))
                else:
                    args.append(a)
            return (x[0], x[1], tuple(args), x[3])
        return x
    return f


def _lens(sim, spell):
    """Sim.seqlen (sequence term -> number of targets it was unpacked into) with the keys as they look inside a resolved term.  Called under the
    decisions of the path (sim.assign)."""
    lens = dict(sim.seqlen)
    for k, n in list(sim.seqlen.items()):
        if isinstance(k, tuple):
            r = sim.resolve(k)
            lens.setdefault(r, n)
            lens.setdefault(tmap(spell(lens), r), n)
    return lens


def restar(t, sim):
    """the one spelling of `a, b = X; f(a, b, y)` and f(*X, y) (Sim.star_runs) applied again to a resolved term: when the unpacking sits in both
    arms of a test (`if v: a, b = X  else: print(..); a, b = X`) the arguments of f are merged values while the call is evaluated and become
    X[0], X[1] only once the merged conditionals with coinciding arms are collapsed.  Called under the decisions of the path (sim.assign)."""
    if not sim.seqlen or not any(is_tag(x, "idx") and x[2] == (_C0,) for x in subterms(t)):
        return t
    return tmap(_restar_call(_lens(sim, _restar_call)), t)


def unstar(t, sim, assign):
    """the other spelling, used where two trees are judged to differ: *X with X unpacked into n targets on this path written X[0], ..., X[n-1],
    so that `a, b = X; f(b, a, y)` against f(*X, y) is a difference between two complete argument lists and not one in a starred sequence"""
    if not sim.seqlen or not any(is_tag(x, "star") for x in subterms(t)):
        return t
    saved, sim.assign = sim.assign, assign
    try:
        lens = _lens(sim, _restar_call)
        for k, n in list(lens.items()):
            if isinstance(k, tuple):
                lens.setdefault(tmap(_unstar_call(lens), k), n)
        return tmap(_unstar_call(lens), t)
    finally:
        sim.assign = saved


def explore(world, rel, q, upto=None, params=None):
    """all live paths of function q up to (and including) top-level statement `upto` -> [Leaf]"""
    fn = world.func(rel, q)
    if fn is None:
        from .core import AnchorError
        raise AnchorError(f"function {q} not found in {rel}")
    work = [[]]
    leaves = []
    n = 0
    while work:
        script = work.pop()
        n += 1
        if n > MAXLEAVES:
            raise Unsup(f"more than {MAXLEAVES} paths through {q}")
        sim = Sim(world, script, work)
        fr = Frame(fn, rel, 0)
        a = fn.args
        for x in a.posonlyargs + a.args + a.kwonlyargs:
            fr.locals[x.arg] = (params or {}).get(x.arg, ("s", x.arg))
            sim.entry_params.add(x.arg)
        ret = None
        body = fn.body if upto is None else fn.body[: upto + 1]
        try:
            sim.exec_block(body, fr)
            if upto is None:
                ret = ("c", "NoneType", None)
        except _Return as r:
            ret = r.value
        except PathDead:
            continue
        leaves.append(Leaf(sim, fr, ret))
    return leaves


def compatible(a, b):
    for k, v in a.items():
        if k in b and b[k] != v:
            return False
    eqs = {}
    for asg in (a, b):
        for k, v in asg.items():
            if v and is_tag(k, "cmp") and k[1] == "Eq" and is_const(k[3]):
                eqs.setdefault(k[2], set()).add(k[3])
    if not all(len(s) <= 1 for s in eqs.values()):
        return False
    u = dict(a)
    u.update(b)
    return consistent(u)


def equal_mod_alloc(a, b, tolerated):
    """structural equality; an `empty` allocation may stand against a `zeros` allocation (collected in `tolerated`)"""
    if a == b:
        return True
    if a in (ZEROS, EMPTY) and b in (ZEROS, EMPTY):
        tolerated.append((a, b))
        return True
    if isinstance(a, tuple) and isinstance(b, tuple) and len(a) == len(b):
        return all(equal_mod_alloc(x, y, tolerated) if isinstance(x, tuple) or isinstance(y, tuple) else x == y for x, y in zip(a, b))
    return False


def diff_text(a, b):
    d = first_diff(a, b)
    if d is None:
        return None
    return {"parallel": show(d[0])[:400], "serial": show(d[1])[:400]}


def mode_atoms(leaves):
    """the tests that tell the parallel mode from the serial mode: wherever they are decided, one way on all parallel paths and the other way on
    all serial paths"""
    P = [lf for lf in leaves if lf.parallel]
    S = [lf for lf in leaves if not lf.parallel]
    mode = set()
    for a in set().union(*[set(lf.assign) for lf in leaves]) if leaves else ():
        vp = {lf.assign[a] for lf in P if a in lf.assign}
        vs = {lf.assign[a] for lf in S if a in lf.assign}
        if len(vp) == 1 and len(vs) == 1 and vp != vs:
            mode.add(a)
    return mode


def extend_join(fn, K, leaves):
    """the serial arm may sit in a later statement than the pool (`if parallel == "yes": ...` followed by `if parallel != "yes": ...`): the
    join is the last top-level statement that tests the mode again"""
    mode = mode_atoms(leaves)
    dumps = set()
    for lf in leaves:
        for a in mode:
            dumps |= lf.sim.atom_nodes.get(a, set())
    k = K
    for i in range(K + 1, len(fn.body)):
        for n in ast.walk(fn.body[i]):
            if isinstance(n, ast.expr) and isinstance(n, (ast.Compare, ast.Name, ast.UnaryOp, ast.Attribute, ast.Call)) and test_dump(n) in dumps:
                par = getattr(n, "_vparent", None)
                if isinstance(par, (ast.If, ast.IfExp, ast.BoolOp, ast.UnaryOp, ast.While)):
                    k = i
    return k
