"""C13-R3, DMIG form 9: writer / reader agreement on the NCOL header field.

The form-9 reader (`rddmig(..., expanded=True)`) allocates its columns from a field of the header card and finds the column of an entry by searching the
label of the column card in an array it builds from that field.  The writer puts a value computed from the column labels into that header field and the
label itself on the column card.  Necessary condition of the round trip: for every column label set, every label the writer puts on a column card is found
(exact member, position inside the allocated extent) in what the reader builds from the header value the writer wrote for that label set.

Both sides are followed *by value*: the symbolic value the writer's engine computed for the header field / the label field, and the symbolic index /
extent expressions of the reader's store, are evaluated concretely on a tiny finite world of column label sequences.  Labels are only compared, counted and
used as indices.  Whatever is outside the whitelisted operations below is `_Unk` (the obligation is then not decided: exit 2, never exit 1).
"""
from __future__ import annotations

import bisect
from fractions import Fraction

from . import c13_sem as M
from .c13_sem import Lin, S, lin, show

# column label sequences (order as handed to the writer): contiguous 1..n, a gap (null columns omitted), a single far column, unsorted labels
WORLDS = ((1, 2, 3), (1, 2, 5), (6,), (5, 1, 2))


class _Unk(Exception):
    pass


def _sub(v, out=None):
    """every nested value of v (tuples and the atoms of linear forms)"""
    out = [] if out is None else out
    if isinstance(v, Lin):
        for at in v.t:
            _sub(at, out)
    elif isinstance(v, S):
        for part in v.p:
            for x in part[1:]:
                if isinstance(x, (tuple, Lin, S)):
                    _sub(x, out)
    elif isinstance(v, tuple):
        out.append(v)
        for x in v:
            if isinstance(x, (tuple, Lin, S)):
                _sub(x, out)
    return out


_SEQ_ID = ("list", "tuple", "np.array", "np.asarray", "np.asanyarray", ".tolist", ".to_list", ".to_numpy", ".copy", "np.atleast_1d", ".astype", "np.ravel", ".ravel")
_SEQ_SORT = ("sorted", "np.sort", ".sort_values")
_MAX = (".max", "np.max", "np.amax", "max")
_MIN = (".min", "np.min", "np.amin", "min")
_ALLOC = ("np.zeros", "np.empty", "np.ones", "np.full")


def cval(v, env):
    """concrete value (int / tuple of ints / ("array2", rows, cols)) of a symbolic value under `env`:
       env["hook"](v) -> value or None is asked first for every tuple value (labels, header fields, loop variables)"""
    if isinstance(v, bool):
        return int(v)
    if isinstance(v, int):
        return v
    if isinstance(v, Fraction):
        if v.denominator != 1:
            raise _Unk(f"non-integer {v}")
        return int(v)
    if isinstance(v, Lin):
        tot = Fraction(v.c)
        for at, coef in v.t.items():
            x = cval(at, env)
            if not isinstance(x, int):
                raise _Unk(f"arithmetic on {show(at)}")
            tot += coef * x
        if tot.denominator != 1:
            raise _Unk(f"non-integer value of {show(v)}")
        return int(tot)
    if isinstance(v, S) or not isinstance(v, tuple) or not v:
        raise _Unk(f"value {show(v)[:80]}")
    got = env["hook"](v)
    if got is not None:
        return got
    tag = v[0]
    if tag == "k":
        if isinstance(v[1], int) and not isinstance(v[1], bool):
            return v[1]
        if v[1] is None:
            return None
        raise _Unk(f"constant {v[1]!r}")
    if tag == "tuple":
        return tuple(cval(x, env) for x in v[1])
    if tag in ("max", "min") and len(v) == 2 and isinstance(v[1], tuple) and v[1] and all(isinstance(x, (Lin, tuple, int)) for x in v[1]):
        # the engine's own form of the builtin on scalar arguments
        a = [cval(x, env) for x in v[1]]
        if all(isinstance(x, int) for x in a):
            return max(a) if tag == "max" else min(a)
        raise _Unk(f"{tag} of non-integers")
    if tag == "range":
        lo, hi, st = (cval(x, env) for x in v[1:4])
        if not all(isinstance(x, int) for x in (lo, hi, st)) or st == 0:
            raise _Unk("range bounds")
        return tuple(range(lo, hi, st))
    if tag == "len":
        x = cval(v[1], env)
        if isinstance(x, tuple) and (not x or x[0] != "array2"):
            return len(x)
        raise _Unk(f"len of {show(v[1])[:80]}")
    if tag == "dim":
        x = cval(v[1], env)
        k = M.ival(lin(v[2])) if M.is_int_const(lin(v[2])) else None
        if isinstance(x, tuple) and x[:1] == ("array2",) and k in (0, 1):
            r = x[1 + k]
            if r is None:
                raise _Unk("row extent")
            return r
        if isinstance(x, tuple) and x[:1] != ("array2",) and k == 0:
            return len(x)
        raise _Unk(f"extent {k} of {show(v[1])[:80]}")
    if tag == "elem":
        b = cval(v[1], env)
        if isinstance(v[2], tuple) and v[2][:1] == ("sl",):
            raise _Unk("slice")
        i = cval(v[2], env)
        if isinstance(b, tuple) and b[:1] != ("array2",) and isinstance(i, int):
            if -len(b) <= i < len(b):
                return b[i]
            raise _Unk(f"index {i} outside a sequence of {len(b)}")
        raise _Unk(f"element of {show(v[1])[:80]}")
    if tag == "attr":
        b = cval(v[1], env)
        if isinstance(b, tuple) and b[:1] != ("array2",):
            if v[2] in ("values", "array", "T"):
                return b
            if v[2] == "size":
                return len(b)
        if isinstance(b, tuple) and b[:1] == ("array2",) and v[2] == "values":
            return b
        if isinstance(b, tuple) and b[:1] == ("array2",) and v[2] == "T":
            return ("array2", b[2], b[1])
        raise _Unk(f"attribute .{v[2]} of {show(v[1])[:80]}")
    if tag == "op" and v[1] in ("T", ".T", "np.transpose", ".transpose") and len(v[2]) == 1:
        b = cval(v[2][0], env)
        if isinstance(b, tuple) and b[:1] == ("array2",):
            return ("array2", b[2], b[1])
        raise _Unk("transpose")
    if tag == "op":
        name, args = v[1], v[2]
        kws = [kv for kv in (v[3] if len(v) > 3 else ()) if not (isinstance(kv, tuple) and kv and kv[0] == "@site")]
        if name in _ALLOC and args:
            if isinstance(args[0], tuple) and args[0][:1] == ("tuple",) and len(args[0][1]) == 2:
                ext = []
                for k_, x in enumerate(args[0][1]):
                    try:
                        ext.append(cval(x, env))
                    except _Unk:
                        if k_ == 1:
                            raise
                        ext.append(None)            # the row extent is not needed (rows are the membership obligation's subject)
                if isinstance(ext[1], int) and (ext[0] is None or isinstance(ext[0], int)):
                    return ("array2", ext[0], ext[1])
            raise _Unk("shape of the allocated array")
        if kws:
            raise _Unk(f"keyword arguments of {name}")
        if name == "np.arange" and 1 <= len(args) <= 3:
            a = [cval(x, env) for x in args]
            if not all(isinstance(x, int) for x in a) or (len(a) == 3 and a[2] == 0):
                raise _Unk("np.arange bounds")
            return tuple(range(*a))
        if name == "range" and 1 <= len(args) <= 3:
            a = [cval(x, env) for x in args]
            if not all(isinstance(x, int) for x in a) or (len(a) == 3 and a[2] == 0):
                raise _Unk("range bounds")
            return tuple(range(*a))
        if name in _MAX + _MIN:
            a = [cval(x, env) for x in args]
            if len(a) == 1 and isinstance(a[0], tuple) and a[0] and a[0][0] != "array2" and all(isinstance(x, int) for x in a[0]):
                seq = a[0]
            elif len(a) >= 2 and all(isinstance(x, int) for x in a) and name in ("max", "min"):
                seq = a
            else:
                raise _Unk(f"{name} of {[show(x)[:60] for x in args]}")
            return max(seq) if name in _MAX else min(seq)
        if name in ("int", "np.int64", "np.int32", "operator.index", ".item") and len(args) == 1:
            x = cval(args[0], env)
            if isinstance(x, int):
                return x
            raise _Unk(f"{name} of a non-integer")
        if name == "len" and len(args) == 1:
            return cval(("len", args[0]), env)
        if name in _SEQ_ID and args:
            x = cval(args[0], env)
            if isinstance(x, tuple) and x[:1] != ("array2",):
                return x
            raise _Unk(f"{name} of {show(args[0])[:80]}")
        if name in _SEQ_SORT and len(args) == 1:
            x = cval(args[0], env)
            if isinstance(x, tuple) and x[:1] != ("array2",) and all(isinstance(y, int) for y in x):
                return tuple(sorted(x))
            raise _Unk(f"{name} of {show(args[0])[:80]}")
        if name == "np.unique" and len(args) == 1:
            x = cval(args[0], env)
            if isinstance(x, tuple) and x[:1] != ("array2",) and all(isinstance(y, int) for y in x):
                return tuple(sorted(set(x)))
            raise _Unk("np.unique")
        if name == "np.searchsorted" and len(args) == 2:
            a, key = cval(args[0], env), cval(args[1], env)
            if isinstance(a, tuple) and a[:1] != ("array2",) and all(isinstance(y, int) for y in a) and list(a) == sorted(a) and isinstance(key, int):
                return bisect.bisect_left(a, key)
            raise _Unk("np.searchsorted on something that is not a sorted integer array")
        raise _Unk(f"call {name}")
    raise _Unk(f"value {show(v)[:80]}")


def field_value(text, name8, c0, c1):
    """what the first line of a written text that starts with the 8-column card name shows in columns c0..c1: an int (literal), "" (blank literal), the
    value formatted into exactly these columns; None if the text is not that card or the columns are not one field"""
    if not isinstance(text, S) or not text.p:
        return None
    col = 0
    first = True
    for p_ in text.p:
        if p_[0] == "lit":
            t = p_[1].split("\n")[0]
            if first and not t.startswith(name8):
                return None
            if col <= c0 and col + len(t) >= c1:
                piece = t[c0 - col:c1 - col].strip()
                if not piece:
                    return ""
                try:
                    return int(piece)
                except ValueError:
                    return None
            if "\n" in p_[1]:
                return None
            col += len(t)
        elif p_[0] == "fv":
            if first:
                return None
            sp = M.parse_spec(p_[1]) if p_[1] is not None else None
            if sp is None or sp.width is None:
                return None
            if col == c0 and sp.width == c1 - c0:
                val = p_[2]
                while isinstance(val, tuple) and val[:1] == ("attr",) and len(val) == 3 and val[2] == "value" and M.is_int_const(lin(val[1])):
                    val = lin(val[1])           # the integer an enum-like constant stands for
                return M.ival(val) if M.is_int_const(val) else val
            col += sp.width
        else:
            return None
        first = False
        if col > c0:
            return None
    return None


def _card_name(text):
    if isinstance(text, S) and text.p and text.p[0][0] == "lit" and len(text.p[0][1]) >= 8:
        return text.p[0][1][:8]
    return None


def _cols(name8, k):
    """columns of field k of a card as the reader counts fields (field 0 follows the card name)"""
    w = 16 if name8.rstrip().endswith("*") else 8
    return 8 + w * k, 8 + w * (k + 1)


def _pinned_card(facts, value):
    """(card, field index) of a header field the facts pin to `value`"""
    for t, pol in facts:
        for at in M.free_symbols(t):
            if isinstance(at, tuple) and at[:1] == ("elem",) and M.is_int_const(lin(at[2])):
                ok_, _ = M.possible_values(at, facts, extra=(value,), lo=0)
                if ok_ == {value}:
                    return at[1], M.ival(lin(at[2]))
    return None


def check(ctx, V, E, Er, prim, is_write, wd, rd):
    v = V()
    inst = ("wtdmig / rddmig, form 9: every column label wtdmig puts on a column card is found (exact member, inside the allocated columns) in the column "
            "index rddmig builds from the NCOL header field wtdmig wrote (finite world of column label sets)")
    # ---- reader: stores whose column position is searched in an array built from a field of the card that carries the form (pinned to 9)
    cands = []
    form9_stores = 0
    for p_ in prim:
        pin = _pinned_card(p_.facts, 9)
        if pin is None:
            continue
        form9_stores += 1
        hdr, kform = pin
        x = p_.d["index"][1][1]
        hf = sorted({M.ival(lin(s[2])) for s in _sub(x) + _sub(p_.d["base"]) if s[:1] == ("elem",) and len(s) == 3 and s[1] == hdr and M.is_int_const(lin(s[2]))})
        if not hf:
            continue                    # nothing of this store comes from the header card: the membership obligation speaks about it
        # the key searched: a field of another card than the one that carries the form
        k_ = x[2][1] if x[:2] == ("op", "np.searchsorted") and len(x[2]) >= 2 else None
        keys = [k_] if isinstance(k_, tuple) and k_[:1] == ("elem",) and len(k_) == 3 and M.is_int_const(lin(k_[2])) and k_[1] != hdr else []
        cands.append((p_, hdr, kform, hf, x, keys))
    if not form9_stores:
        v.unknown("no store of rddmig's card reader under form == 9")
        v.report(ctx, inst, rd)
        return
    if not cands:
        # the reader allocates nothing from the header under form 9: the condition is vacuous for this reader
        ctx.ok(inst + " [the reader takes no extent from the header]", rd, nontrivial=False)
        return
    # ---- writer: header lines of form 9 and the column cards written under the same tests
    writes = [e for e in E.events("call") if is_write(e) and isinstance(e.d["args"][0], S)]
    decided = 0
    opaque = []
    headless = []
    seen = set()
    for p_, hdr, kform, hf, x, keys in cands:
        v.at(p_.node)
        if len(keys) != 1 and not (keys and all(k == keys[0] for k in keys)):
            v.unknown({"column position": show(x)[:200], "note": "the field of the column card that is searched was not singled out"}, p_.node)
            continue
        key = keys[0]
        kcol = M.ival(lin(key[2]))
        for h in writes:
            if len(h.loops) != 1:
                continue
            hname = _card_name(h.d["args"][0])
            if hname is None and isinstance(h.d["args"][0], S) and h.d["args"][0].p and h.d["args"][0].p[0][0] != "lit":
                headless.append(h)          # the line starts with a value this rule does not evaluate: its columns cannot be counted
            if hname is None or hname.strip().upper().rstrip("*") != "DMIG":
                continue
            fv = field_value(h.d["args"][0], hname, *_cols(hname, kform))
            if fv is None:
                v.unknown({"header line": repr(h.d["args"][0])[:200], "note": "the form field of the header line is not one field"}, h.node)
                continue
            if fv != 9:
                if isinstance(fv, int):
                    continue
                v.unknown({"form written": show(fv)[:120]}, h.node)
                continue
            hvals = {k: field_value(h.d["args"][0], hname, *_cols(hname, k)) for k in hf}
            if any(x_ is None for x_ in hvals.values()):
                v.unknown({"header line": repr(h.d["args"][0])[:200], "fields the reader takes": hf}, h.node)
                continue
            cards = [c for c in writes if len(c.loops) == 2 and c.loops[0] == h.loops[0] and c.seq > h.seq
                     and not any((t, not pol) in set(h.facts) for t, pol in c.facts)
                     and (_card_name(c.d["args"][0]) or "").strip().upper().rstrip("*") == "DMIG"]
            if not cards:
                v.unknown("no column card written after a form-9 header", h.node)
                continue
            for c in cards:
                cname = _card_name(c.d["args"][0])
                lab = field_value(c.d["args"][0], cname, *_cols(cname, kcol))
                sig = (repr(sorted(hvals.items(), key=lambda kv: kv[0])), repr(lab), repr(x), repr(p_.d["base"]))
                if sig in seen:
                    continue
                seen.add(sig)
                if lab is None or isinstance(lab, (int, str)):
                    v.unknown({"column card": repr(c.d["args"][0])[:200], "field searched by the reader": kcol}, c.node)
                    continue
                head = next((f for f in E.events(("for", "while")) if f.d["loop"] == c.loops[-1]), None)
                r = _worlds(E, head, hvals, lab, p_, hdr, key, x)
                if r is True:
                    decided += 1
                elif isinstance(r, tuple) and r[:1] == ("opaque",):
                    opaque.append(r[1])
                elif isinstance(r, dict):
                    v.bad(r, h.node)
                else:
                    v.unknown({"not followed": str(r)}, h.node)
    if v.v is True and not decided and opaque:
        # the header field reaches the column index only through a call this rule does not follow (a callback handed in from outside): nothing is
        # concluded about this reader - neither a violation nor an analysis error (the obligation is a necessary condition only where it can be read)
        ctx.ok(inst + f" [the reader's column index is built behind `{opaque[0]}`: not followed, nothing concluded]", rd, nontrivial=False)
        return
    if v.v is True and not decided and headless:
        ctx.ok(inst + " [the header line starts with a computed card name: its columns are not counted, nothing concluded]", wd, nontrivial=False)
        return
    if v.v is True and not decided:
        v.unknown("no form-9 header line / column card pair of wtdmig was evaluated")
    v.report(ctx, inst, wd)


def _worlds(E, head, hvals, lab, p_, hdr, key, x):
    """True, a witness dict, or a string (why the code was not followed)"""
    # the object the labels are taken from: what the label on the column card is an element of
    srcs = [s for s in _sub(lab) if s[:1] == ("attr",) and len(s) == 3 and s[2] == "columns"]
    srcs = [s for i, s in enumerate(srcs) if s not in srcs[:i]]
    if len(srcs) != 1:
        return f"the column label written ({show(lab)[:120]}) is not taken from the `.columns` of one frame"
    labels_of, frame = srcs[0], srcs[0][1]
    it = head.d.get("iter") if head is not None else None
    tgt = head.d.get("target") if head is not None else None
    lid = head.d.get("loop") if head is not None else None
    is_range = isinstance(it, tuple) and it[:1] == ("range",)
    over = it
    if isinstance(it, tuple) and it[:2] == ("op", "enumerate") and len(it[2]) == 1 and len(it) <= 3:
        over = it[2][0]
    # the variables of this loop the label depends on: the range variable, or the engine's pass counter <k>@L<id> (0, 1, ...) of any other loop
    lsyms = [s_ for s_ in _sub(lab) if s_[:1] == ("sym",) and isinstance(s_[1], str) and s_[1].endswith(f"@L{lid}")]
    lsyms = [s_ for i_, s_ in enumerate(lsyms) if s_ not in lsyms[:i_]]
    if is_range:
        if any(lin(s_) != lin(tgt) for s_ in lsyms):
            return f"the column label written ({show(lab)[:120]})"
    elif not lsyms or any(not s_[1].startswith("<k>") for s_ in lsyms):
        return f"the loop that writes the column cards ({show(it)[:120]})"
    for L in WORLDS:
        def whook(v_, L=L, i=None):
            if v_ == labels_of:
                return tuple(L)
            if v_ == frame or v_ == ("attr", frame, "values"):
                return ("array2", None, len(L))
            return None
        try:
            env = {"hook": whook}
            H = {k: (hv if isinstance(hv, int) else cval(hv, env)) for k, hv in hvals.items() if hv != ""}
            if len(H) != len(hvals) or not all(isinstance(h_, int) for h_ in H.values()):
                return "a header field the reader takes is blank / not an integer"
            if is_range:
                passes = cval(it, env)
            else:
                o_ = cval(over, env)
                if isinstance(o_, tuple) and o_[:1] == ("array2",) and isinstance(o_[1], int):
                    passes = tuple(range(o_[1]))
                elif isinstance(o_, tuple) and o_[:1] != ("array2",):
                    passes = tuple(range(len(o_)))
                else:
                    return f"the loop that writes the column cards ({show(it)[:120]})"
            written = []
            for i in passes:
                def lhook(v_, i=i, whook=whook):
                    if v_ in lsyms:
                        return i
                    return whook(v_)
                written.append(cval(lab, {"hook": lhook}))
            if sorted(written) != sorted(L):
                return f"labels written {written} for the columns {list(L)}"
            for label in written:
                def rhook(v_, label=label):
                    if v_ == key:
                        return label
                    if v_[:1] == ("elem",) and len(v_) == 3 and v_[1] == hdr and M.is_int_const(lin(v_[2])) and M.ival(lin(v_[2])) in H:
                        return H[M.ival(lin(v_[2]))]
                    return None
                renv = {"hook": rhook}
                arr = x[2][0] if x[:2] == ("op", "np.searchsorted") and len(x[2]) >= 2 else None
                if arr is None:
                    return f"column position {show(x)[:120]}"
                try:
                    index = cval(arr, renv)
                    pos = cval(x, renv)
                except _Unk as ex:
                    if str(ex).startswith("call "):
                        return ("opaque", str(ex))
                    raise
                try:
                    mat = cval(p_.d["base"], renv)
                except _Unk:
                    mat = None          # allocated where this rule does not see it: membership in the column index is decided alone
                if not (isinstance(mat, tuple) and mat[:1] == ("array2",)):
                    mat = ("array2", None, len(index))
                if not isinstance(pos, int):
                    return f"column position {show(x)[:120]}"
                if not (0 <= pos < mat[2]) or pos >= len(index) or index[pos] != label:
                    return {"column labels": list(L), "header fields written (reader numbering)": {str(k): h_ for k, h_ in sorted(H.items())},
                            "column label on the card": label, "column index the reader builds from the header": list(index)[:12],
                            "columns allocated": mat[2], "position found": pos,
                            "consequence": "IndexError, or the entry lands in the column of another label" if pos >= mat[2] or pos >= len(index)
                            else "the entry lands in the column of another label (silently)"}
        except _Unk as ex:
            return str(ex)
    return True
