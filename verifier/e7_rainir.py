"""E7 -- two front ends, one IR, for the rainflow counters (and their entry points).

C side:   clang-14 -fsyntax-only -Xclang -ast-dump=json (the preprocessed AST the build sees, so
          USE_FASTER_RAINFLOW_ROUTINE is honoured)
Py side:  ast of py_rain.py

Both are lowered to ONE structured IR in which every loop form (C `for` with any init / condition / increment, `while`,
`for(;;)` with `break`, `do`; Python `for .. in range(..)`, `while`, `while True`) is the single statement
    ('loop', cond | None, body, step)            # while cond: body; step        -- `continue` jumps to `step`
and every side effect of an expression (`pts[++j]`, `*rf++ = e`, `n++`) is an explicit assignment.  Nothing is recognised
by name: helper functions are lowered on demand and inlined by the symbolic executor (e7_sym), allocation / reference
counting / slicing calls are ordinary calls the executor has a model for.

IR (nested tuples)
  stmt : ('set', lvalue, expr)                    lvalue = ('var', name) | ('idx', base expr, index expr) | ('idx2', base, row, col)
         ('unpack', [lvalue, ...], expr)          tuple assignment from a tuple-valued expression
         ('if', cond, then, else)
         ('loop', cond | None, body, step)
         ('break',) ('continue',) ('return', expr | None) ('raise', expr) ('goto', label) ('label', name)
         ('expr', expr)                           a call evaluated for its effect
         ('havoc', name)                          the variable no longer has a defined value (Python loop variable after its loop)
  expr : ('num', Fraction) ('str', s) ('null',) ('bool', b) ('var', name) ('sym', dotted name)
         ('idx', base, i) ('idx2', base, row, col) ('upto', base, stop)          # a[i]  a[r, c]  a[:stop]
         ('bin', op, a, b) ('neg', a) ('abs', a) ('cmp', op, a, b) ('not', a) ('and', a, b) ('or', a, b) ('cond', c, a, b)
         ('call', name, [args], {kw: expr}) ('callv', callee expr, [args], {kw}) ('tuple', [exprs]) ('attr', obj, name)
         ('addr', lvalue) ('sizeof', type text)
"""
from __future__ import annotations

import ast
import json
import os
import re
import subprocess
from fractions import Fraction

from .core import AnchorError, Unsupported

CLANG = "clang-14"
ONE = ("num", Fraction(1))
ZERO = ("num", Fraction(0))


# ---------------------------------------------------------------------------
_INC = {}


def include_dirs():
    """configuration query (separate process; the checker itself never imports numpy/pyyeti)"""
    if "dirs" in _INC:
        return _INC["dirs"]
    code = "import sysconfig, numpy; print(sysconfig.get_paths()['include']); print(numpy.get_include())"
    for py in ("/venv/bin/python",):
        try:
            r = subprocess.run([py, "-c", code], capture_output=True, text=True, timeout=60)
        except Exception:  # noqa
            continue
        if r.returncode == 0:
            _INC["dirs"] = [l.strip() for l in r.stdout.splitlines() if l.strip()]
            return _INC["dirs"]
    raise Unsupported("cannot determine Python/numpy include directories for clang")


def numpy_api_names():
    """{index: name} of the numpy C-API table (`#define PyArray_New (*(...) PyArray_API[93])` in __multiarray_api.h): the macros of
    arrayobject.h expand to calls through this table, so the clang AST shows only the index"""
    if "api" in _INC:
        return _INC["api"]
    out = {}
    for d in include_dirs():
        for root, _, files in os.walk(d):
            for f in files:
                if f == "__multiarray_api.h":
                    txt = open(os.path.join(root, f), errors="replace").read()
                    for m in re.finditer(r"#define\s+(\w+)\s*\\?\s*\n?\s*\(\*\([^#]*?PyArray_API\[(\d+)\]\)", txt):
                        out.setdefault(int(m.group(2)), m.group(1))
    if not out:
        raise Unsupported("numpy C-API table (__multiarray_api.h) not found")
    _INC["api"] = out
    return out


# numpy's array-flag bits (ndarraytypes.h; fixed by the numpy ABI, the values below are only used when the header cannot be read)
_FLAG_BITS_ABI = {"NPY_ARRAY_C_CONTIGUOUS": 0x0001, "NPY_ARRAY_F_CONTIGUOUS": 0x0002, "NPY_ARRAY_ENSURECOPY": 0x0020}


def numpy_flag_bits():
    """{macro name: value} of the layout bits of numpy's array flags, read from the `#define`s of the installed ndarraytypes.h: a requirement
    word handed to PyArray_FromAny (which clang shows as a number, every convenience macro expanded) is decoded with these"""
    if "flagbits" in _INC:
        return _INC["flagbits"]
    out = {}
    try:
        for d in include_dirs():
            for root, _, files in os.walk(d):
                if "ndarraytypes.h" in files:
                    txt = open(os.path.join(root, "ndarraytypes.h"), errors="replace").read()
                    for nm in _FLAG_BITS_ABI:
                        m = re.search(r"^[ \t]*#[ \t]*define[ \t]+%s[ \t]+\(?[ \t]*(0[xX][0-9a-fA-F]+|\d+)[uUlL]*[ \t]*\)?[ \t]*(?:/\*.*|//.*)?$" % nm, txt, re.M)
                        if m:
                            out.setdefault(nm, int(m.group(1), 0))
    except Unsupported:
        pass
    for nm, v in _FLAG_BITS_ABI.items():
        out.setdefault(nm, v)
    _INC["flagbits"] = out
    return out


_CLANG_CACHE = {}


def clang_function(cfile, name, required=True):
    """FunctionDecl (definition) of `name` in cfile as the build's preprocessor sees it"""
    key = (cfile, name)
    if key in _CLANG_CACHE:
        best = _CLANG_CACHE[key]
    else:
        if not os.path.exists(cfile):
            raise AnchorError(f"{cfile} not found")
        incs = include_dirs()
        cmd = [CLANG, "-fsyntax-only"] + [f"-I{i}" for i in incs] + \
              ["-Xclang", "-ast-dump=json", "-Xclang", f"-ast-dump-filter={name}", cfile]
        try:
            r = subprocess.run(cmd, capture_output=True, text=True, timeout=120)
        except FileNotFoundError:
            raise Unsupported("clang-14 not available")
        if r.returncode != 0:
            raise Unsupported(f"clang failed: {r.stderr[:400]}")
        dec = json.JSONDecoder()
        s = r.stdout
        i = 0
        best = None
        while i < len(s):
            while i < len(s) and s[i].isspace():
                i += 1
            if i >= len(s):
                break
            o, i = dec.raw_decode(s, i)
            if o.get("kind") == "FunctionDecl":
                if any(c.get("kind") == "CompoundStmt" for c in o.get("inner", [])):
                    _CLANG_CACHE[(cfile, o.get("name"))] = o
                    if o.get("name") == name:
                        best = o
        _CLANG_CACHE[key] = best
    if best is None and required:
        raise AnchorError(f"C function {name} (definition) not found in {cfile}")
    return best


def c_line(n):
    """source line of a clang node (best effort: clang omits repeated fields)"""
    for k in ("loc", "range"):
        d = n.get(k) or {}
        if k == "range":
            d = d.get("begin") or {}
        for kk in ("line",):
            if kk in d:
                return d[kk]
        for sub in ("expansionLoc", "spellingLoc"):
            if sub in d and "line" in d[sub]:
                return d[sub]["line"]
    return None


INT_CTYPES = ("npy_intp", "int", "long", "Py_ssize_t", "ssize_t", "size_t", "unsigned long", "unsigned int", "unsigned", "npy_int64",
              "long long", "short", "char", "intptr_t", "npy_int", "npy_long", "_Bool", "bool", "unsigned char", "npy_bool")
FLOAT_CTYPES = ("double", "float", "npy_double", "npy_float64", "long double")


def ctype_class(t):
    """'int' | 'float' | 'ptr' | 'arr' | None from a clang qualType"""
    t = re.sub(r"\b(const|volatile|static|register)\b", "", t or "").strip()
    if t.endswith("]"):
        return "arr"
    if t.endswith("*"):
        return "ptr"
    if t in INT_CTYPES or t.startswith("enum "):
        return "int"
    if t in FLOAT_CTYPES:
        return "float"
    return None


# ---------------------------------------------------------------------------
# C lowering
class CFunc:
    """one C function lowered: params [(name, class, qualType)], body IR, declared types {name: class}"""

    def __init__(self, fdecl):
        self.f = fdecl
        self.name = fdecl.get("name")
        self.params = []
        self.ctypes = {}
        self.qual = {}
        for c in fdecl.get("inner", []):
            if c.get("kind") == "ParmVarDecl":
                q = (c.get("type") or {}).get("qualType", "")
                self.params.append((c.get("name"), ctype_class(q), q))
                self.ctypes[c.get("name")] = ctype_class(q)
                self.qual[c.get("name")] = q
        self.labels = {}
        self._collect_labels(fdecl)
        self.enums = {}            # id of an enumerator declared inside this function -> its value
        self._collect_enums(fdecl)
        body = [c for c in fdecl["inner"] if c.get("kind") == "CompoundStmt"][0]
        self.body = self.block(body)

    # ---- helpers
    def _collect_labels(self, n):
        if isinstance(n, dict):
            if n.get("kind") == "LabelStmt":
                self.labels[n.get("declId")] = n.get("name")
            for c in n.get("inner", []) or []:
                self._collect_labels(c)

    def _collect_enums(self, n):
        """`enum { READ_NEXT, HALF_CYCLE, FULL_CYCLE } action;` inside the function: the enumerators are the integers 0, 1, 2 (explicit values
        when they are literals)"""
        if not isinstance(n, dict):
            return
        if n.get("kind") == "EnumDecl":
            nxt = 0
            for c in n.get("inner", []) or []:
                if c.get("kind") != "EnumConstantDecl":
                    continue
                val = None
                for x in c.get("inner", []) or []:
                    y = x
                    while isinstance(y, dict) and y.get("kind") in ("ConstantExpr", "ImplicitCastExpr", "ParenExpr") and y.get("inner"):
                        if "value" in y:
                            break
                        y = y["inner"][0]
                    if isinstance(y, dict) and "value" in y:
                        try:
                            val = int(y["value"])
                        except (TypeError, ValueError):
                            val = None
                if val is None and any(True for _ in (c.get("inner") or [])):
                    return          # an explicit value this reader cannot evaluate: leave the whole enumeration symbolic
                if val is None:
                    val = nxt
                self.enums[c.get("id")] = val
                nxt = val + 1
        for c in n.get("inner", []) or []:
            self._collect_enums(c)

    @staticmethod
    def _strip(n):
        while n.get("kind") in ("ImplicitCastExpr", "ParenExpr", "CStyleCastExpr", "ConstantExpr") and n.get("castKind") != "NullToPointer":
            n = n["inner"][0]
        return n

    def _api_index(self, callee):
        """callee = (*(T)PyArray_API[i]) -> i"""
        n = self._strip(callee)
        if n.get("kind") == "UnaryOperator" and n.get("opcode") == "*":
            n = self._strip(n["inner"][0])
        if n.get("kind") == "ArraySubscriptExpr":
            b = self._strip(n["inner"][0])
            i = self._strip(n["inner"][1])
            if b.get("kind") == "DeclRefExpr" and (b.get("referencedDecl") or {}).get("name") == "PyArray_API" and i.get("kind") == "IntegerLiteral":
                return int(i["value"])
        return None

    # ---- expressions
    def expr(self, n, pre, post):
        n = self._strip(n)
        k = n.get("kind")
        if n.get("castKind") == "NullToPointer":
            return ("null",)
        if k == "IntegerLiteral":
            return ("num", Fraction(int(n["value"])))
        if k == "FloatingLiteral":
            return ("num", Fraction(n["value"]))
        if k == "CharacterLiteral":
            return ("num", Fraction(int(n["value"])))
        if k == "StringLiteral":
            v = n.get("value", "")
            try:
                v = json.loads(v)
            except Exception:  # noqa
                v = v.strip('"')
            return ("str", v)
        if k == "DeclRefExpr":
            rd = n.get("referencedDecl") or {}
            if rd.get("kind") in ("EnumConstantDecl",):
                if rd.get("id") in self.enums:
                    return ("num", Fraction(self.enums[rd.get("id")]))
                return ("sym", rd.get("name"))
            if rd.get("kind") == "FunctionDecl":
                return ("sym", rd.get("name"))
            return ("var", rd.get("name"))
        if k == "ArraySubscriptExpr":
            return self._subscript(n, pre, post)
        if k == "BinaryOperator":
            op = n["opcode"]
            if op in ("&&", "||"):
                p2, q2 = [], []
                a = self.expr(n["inner"][0], pre, post)
                b = self.expr(n["inner"][1], p2, q2)
                if p2 or q2:
                    raise Unsupported("side effect in the right operand of && / ||")
                return ("and" if op == "&&" else "or", a, b)
            if op == ",":
                # `(a, b)` as a value: the statements of a, then the value of b (read where an assignment or a return takes the value apart:
                # _assign / _return; any other place reports the expression kind as unsupported)
                p2, q2 = [], []
                b = self.expr(n["inner"][1], p2, q2)
                if p2 or q2:
                    raise Unsupported("side effect in the right operand of the C operator `,`")
                return ("seq", self._exprstmt(n["inner"][0]), b)
            if op == "=":
                raise Unsupported(f"C operator `{op}` inside an expression")
            a = self.expr(n["inner"][0], pre, post)
            b = self.expr(n["inner"][1], pre, post)
            if op in ("+", "-", "*", "/"):
                return ("bin", op, a, b)
            if op in ("<", ">", "<=", ">=", "==", "!="):
                return ("cmp", op, a, b)
            return ("call", f"op:{op}", [a, b], {})
        if k == "UnaryOperator":
            op = n["opcode"]
            if op == "-":
                a = self.expr(n["inner"][0], pre, post)
                return ("num", -a[1]) if a[0] == "num" else ("neg", a)
            if op == "+":
                return self.expr(n["inner"][0], pre, post)
            if op == "!":
                return ("not", self.expr(n["inner"][0], pre, post))
            if op in ("++", "--"):
                lv = self.lvalue(n["inner"][0], pre, post)
                if lv[0] != "var" and not (lv[0] == "idx" and lv[1][0] == "var" and lv[2] == ZERO):
                    raise Unsupported("++/-- on something that is neither a variable nor `*p`")      # (*p)++ : a counter passed by reference
                upd = ("set", lv, ("bin", "+" if op == "++" else "-", lv, ONE))
                if n.get("isPostfix"):
                    if any(s[1] == lv for s in post if s[0] == "set"):
                        raise Unsupported("two post-increments of one variable in one statement")
                    post.append(upd)
                else:
                    pre.append(upd)
                return lv
            if op == "*":
                return ("idx", self.expr(n["inner"][0], pre, post), ZERO)
            if op == "&":
                return ("addr", self.lvalue(n["inner"][0], pre, post))
            raise Unsupported(f"C unary operator {op}")
        if k == "CallExpr":
            callee = self._strip(n["inner"][0])
            args = [self.expr(a, pre, post) for a in n["inner"][1:]]
            if callee.get("kind") == "DeclRefExpr":
                nm = (callee.get("referencedDecl") or {}).get("name")
                return ("call", nm, args, {})
            ix = self._api_index(n["inner"][0])
            if ix is not None:
                return ("call", numpy_api_names().get(ix, f"PyArray_API[{ix}]"), args, {})
            raise Unsupported("call through an expression that is not a function name")
        if k == "ConditionalOperator":
            c = self.expr(n["inner"][0], pre, post)
            p2, q2 = [], []
            a = self.expr(n["inner"][1], p2, q2)
            b = self.expr(n["inner"][2], p2, q2)
            if p2 or q2:
                raise Unsupported("side effect in an arm of ?:")
            return ("cond", c, a, b)
        if k == "UnaryExprOrTypeTraitExpr":
            t = (n.get("argType") or {}).get("qualType")
            if t is None and n.get("inner"):
                t = (self._strip(n["inner"][0]).get("type") or {}).get("qualType")
            return ("sizeof", t or "?")
        raise Unsupported(f"C expression kind {k}")

    def lvalue(self, n, pre, post):
        n = self._strip(n)
        k = n.get("kind")
        if k == "DeclRefExpr":
            return ("var", n["referencedDecl"]["name"])
        if k == "ArraySubscriptExpr":
            return self._subscript(n, pre, post)
        if k == "UnaryOperator" and n.get("opcode") == "*":
            return ("idx", self.expr(n["inner"][0], pre, post), ZERO)
        raise Unsupported(f"C lvalue {k}")

    def _subscript(self, n, pre, post):
        """a[i]; and a[r][c] through a pointer to rows of N elements (`double (*rf)[3]`): the element N*r + c of the flat data, as C defines it"""
        base = self._strip(n["inner"][0])
        if base.get("kind") == "ArraySubscriptExpr":
            m = re.search(r"\[(\d+)\]$", ((base.get("type") or {}).get("qualType") or "").strip())
            if m:
                arr = self.expr(base["inner"][0], pre, post)
                row = self.expr(base["inner"][1], pre, post)
                col = self.expr(n["inner"][1], pre, post)
                return ("idx", arr, ("bin", "+", ("bin", "*", ("num", Fraction(int(m.group(1)))), row), col))
        return ("idx", self.expr(n["inner"][0], pre, post), self.expr(n["inner"][1], pre, post))

    # ---- statements
    def block(self, n):
        if n.get("kind") == "CompoundStmt":
            out = []
            for c in n.get("inner", []) or []:
                out.extend(self.stmt(c))
            return out
        return self.stmt(n)

    def _assign(self, lv, rhs):
        """`lv = c ? a : b` -> if c: lv = a else: lv = b;  `lv = (s, b)` -> s; lv = b"""
        if rhs[0] == "cond":
            return [("if", rhs[1], self._assign(lv, rhs[2]), self._assign(lv, rhs[3]))]
        if rhs[0] == "seq":
            return list(rhs[1]) + self._assign(lv, rhs[2])
        return [("set", lv, rhs)]

    def _return(self, e):
        if e is not None and e[0] == "cond":
            return [("if", e[1], self._return(e[2]), self._return(e[3]))]
        if e is not None and e[0] == "seq":
            return list(e[1]) + self._return(e[2])
        return [("return", e)]

    def stmt(self, n):
        k = n.get("kind")
        if k == "CompoundStmt":
            return self.block(n)
        if k == "NullStmt":
            return []
        if k == "BreakStmt":
            return [("break",)]
        if k == "ContinueStmt":
            return [("continue",)]
        if k == "DeclStmt":
            out = []
            for d in n.get("inner", []):
                if d.get("kind") != "VarDecl":
                    continue
                q = (d.get("type") or {}).get("qualType", "")
                self.ctypes[d["name"]] = ctype_class(q)
                self.qual[d["name"]] = q
                if not d.get("init"):
                    continue
                init = d["inner"][-1]
                v = ("var", d["name"])
                if self._strip(init).get("kind") == "InitListExpr":
                    for i, el in enumerate(self._strip(init).get("inner", []) or []):
                        pre, post = [], []
                        e = self.expr(el, pre, post)
                        out.extend(pre + self._assign(("idx", v, ("num", Fraction(i))), e) + post)
                    continue
                pre, post = [], []
                e = self.expr(init, pre, post)
                out.extend(pre + self._assign(v, e) + post)
            return out
        if k == "BinaryOperator" and n.get("opcode") == "=":
            pre, post = [], []
            rhs = self.expr(n["inner"][1], pre, post)
            lhs = self.lvalue(n["inner"][0], pre, post)
            return pre + self._assign(lhs, rhs) + post
        if k == "CompoundAssignOperator":
            pre, post = [], []
            lhs = self.lvalue(n["inner"][0], pre, post)
            rhs = self.expr(n["inner"][1], pre, post)
            op = n["opcode"][:-1]
            if op in ("|", "&", "^", "<<", ">>"):
                return pre + [("set", lhs, ("call", f"op:{op}", [lhs, rhs], {}))] + post       # as the binary operator is lowered
            if op not in ("+", "-", "*", "/"):
                raise Unsupported(f"C compound assignment {n['opcode']}")
            return pre + [("set", lhs, ("bin", op, lhs, rhs))] + post
        if k == "UnaryOperator" and n.get("opcode") in ("++", "--"):
            pre, post = [], []
            lv = self.lvalue(n["inner"][0], pre, post)
            return pre + [("set", lv, ("bin", "+" if n["opcode"] == "++" else "-", lv, ONE))] + post
        if k == "ForStmt":
            init, _cv, cond, inc, body = n["inner"]
            out = self.stmt(init) if init.get("kind") else []
            c, test = None, []
            if cond.get("kind"):
                c, test = self._loop_test(cond)
            step = self._exprstmt(inc) if inc.get("kind") else []
            return out + [("loop", c, test + self.block(body), step)]
        if k == "WhileStmt":
            cond, body = n["inner"][-2], n["inner"][-1]
            c, test = self._loop_test(cond)
            return [("loop", c, test + self.block(body), [])]
        if k == "DoStmt":
            body, cond = n["inner"][0], n["inner"][1]
            c, test = self._loop_test(cond)
            if c is not None:
                test = [("if", c, [], [("break",)])]
            return [("loop", None, self.block(body), test)]
        if k == "IfStmt":
            inner = n["inner"]
            pre, post = [], []
            c = self.expr(inner[0], pre, post)
            if post:
                raise Unsupported("post-increment in an if condition")
            then = self.block(inner[1])
            els = self.block(inner[2]) if len(inner) > 2 else []
            return pre + [("if", c, then, els)]
        if k == "ReturnStmt":
            if not n.get("inner"):
                return [("return", None)]
            pre, post = [], []
            e = self.expr(n["inner"][0], pre, post)
            if post:
                raise Unsupported("post-increment in a return expression")
            return pre + self._return(e)
        if k == "GotoStmt":
            return [("goto", self.labels.get(n.get("targetLabelDeclId"), "?"))]
        if k == "LabelStmt":
            out = [("label", n.get("name"))]
            for c in n.get("inner", []) or []:
                out.extend(self.stmt(c))
            return out
        if k in ("CallExpr", "ParenExpr", "CStyleCastExpr", "ImplicitCastExpr") or (k == "BinaryOperator" and n.get("opcode") == ","):
            return self._exprstmt(n)
        raise Unsupported(f"C statement kind {k}")

    def _loop_test(self, cond):
        """loop condition -> (pure condition | None, statements that open the loop body).  A condition with side effects (`while (++p != end)`,
        `while (n-- > 0)`) is evaluated at the top of an unconditional loop: pre-effects, the test, post-effects on both outcomes, `break` when
        it fails -- `continue` still reaches it through the loop's step, exactly as in C"""
        pre, post = [], []
        c = self.expr(cond, pre, post)
        if not pre and not post:
            return c, []
        return None, pre + [("if", c, list(post), list(post) + [("break",)])]

    def _exprstmt(self, n):
        s = self._strip(n)
        k = s.get("kind")
        if k in ("BinaryOperator", "CompoundAssignOperator", "UnaryOperator") and (s.get("opcode") in ("=", "++", "--") or k == "CompoundAssignOperator"):
            return self.stmt(s)
        if k == "BinaryOperator" and s.get("opcode") == ",":
            return self._exprstmt(s["inner"][0]) + self._exprstmt(s["inner"][1])
        pre, post = [], []
        e = self.expr(s, pre, post)
        return pre + [("expr", e)] + post


class CUnit:
    """the C translation unit: functions lowered on demand (helpers are found by the executor when it meets a call)"""

    def __init__(self, cfile):
        self.cfile = cfile
        self.funcs = {}
        self._defined = None

    def func(self, name, required=True):
        if name not in self.funcs:
            fd = clang_function(self.cfile, name, required=required)
            self.funcs[name] = CFunc(fd) if fd is not None else None
        return self.funcs[name]

    def helper(self, name):
        """a function *defined* in this file, else None (library / API function)"""
        if not re.fullmatch(r"[A-Za-z_]\w*", name or ""):
            return None
        if self._defined is None:
            txt = open(self.cfile, errors="replace").read()
            # candidates only (a cheap pre-filter so that clang is not asked about every library function): identifiers followed by `(`
            # on a line that does not end the statement
            self._defined = set(re.findall(r"^(?:[A-Za-z_][\w \t\*]*?\b)?([A-Za-z_]\w*)[ \t]*\([^;]*$", txt, re.M))
        if name not in self._defined:
            return None
        try:
            return self.func(name, required=False)
        except AnchorError:
            return None


# ---------------------------------------------------------------------------
# Python lowering
def _dotted(n):
    if isinstance(n, ast.Name):
        return n.id
    if isinstance(n, ast.Attribute):
        b = _dotted(n.value)
        return None if b is None else b + "." + n.attr
    return None


class PyFunc:
    def __init__(self, fn):
        self.fn = fn
        self.name = fn.name
        self.params = [(a.arg, None, "") for a in fn.args.args]
        self.defaults = {}
        nd = len(fn.args.defaults)
        for a, d in zip(fn.args.args[len(fn.args.args) - nd:], fn.args.defaults):
            self.defaults[a.arg] = d
        self.ctypes = {}
        self._tmp = 0
        self.locals = {a.arg for a in fn.args.args}
        for x in ast.walk(fn):
            if isinstance(x, ast.Name) and isinstance(x.ctx, ast.Store):
                self.locals.add(x.id)
        self.body = self.block(fn.body)

    def expr(self, n):
        if isinstance(n, ast.Constant):
            v = n.value
            if isinstance(v, bool):
                return ("bool", v)
            if v is None:
                return ("null",)
            if isinstance(v, int):
                return ("num", Fraction(v))
            if isinstance(v, float):
                return ("num", Fraction(repr(v)))
            if isinstance(v, str):
                return ("str", v)
            raise Unsupported(f"py constant {v!r}")
        if isinstance(n, ast.Name):
            return ("var", n.id)
        if isinstance(n, ast.UnaryOp):
            if isinstance(n.op, ast.USub):
                a = self.expr(n.operand)
                return ("num", -a[1]) if a[0] == "num" else ("neg", a)
            if isinstance(n.op, ast.UAdd):
                return self.expr(n.operand)
            if isinstance(n.op, ast.Not):
                return ("not", self.expr(n.operand))
            raise Unsupported(f"py unary operator {type(n.op).__name__}")
        if isinstance(n, ast.BinOp):
            ops = {ast.Add: "+", ast.Sub: "-", ast.Mult: "*", ast.Div: "/"}
            if type(n.op) not in ops:
                return ("call", f"op:{type(n.op).__name__}", [self.expr(n.left), self.expr(n.right)], {})
            return ("bin", ops[type(n.op)], self.expr(n.left), self.expr(n.right))
        if isinstance(n, ast.BoolOp):
            vals = [self.expr(v) for v in n.values]
            out = vals[-1]
            for v in reversed(vals[:-1]):
                out = ("and" if isinstance(n.op, ast.And) else "or", v, out)
            return out
        if isinstance(n, ast.Compare):
            ops = {ast.Lt: "<", ast.Gt: ">", ast.LtE: "<=", ast.GtE: ">=", ast.Eq: "==", ast.NotEq: "!=", ast.Is: "==", ast.IsNot: "!="}
            parts = []
            left = n.left
            for op, right in zip(n.ops, n.comparators):
                if type(op) not in ops:
                    raise Unsupported(f"py comparison {type(op).__name__}")
                parts.append(("cmp", ops[type(op)], self.expr(left), self.expr(right)))
                left = right
            out = parts[-1]
            for p in reversed(parts[:-1]):
                out = ("and", p, out)
            return out
        if isinstance(n, ast.IfExp):
            return ("cond", self.expr(n.test), self.expr(n.body), self.expr(n.orelse))
        if isinstance(n, ast.Tuple) or isinstance(n, ast.List):
            return ("tuple", [self.expr(e) for e in n.elts])
        if isinstance(n, ast.Subscript):
            base = self.expr(n.value)
            sl = n.slice
            if isinstance(sl, ast.Tuple):
                if len(sl.elts) != 2 or any(isinstance(e, ast.Slice) for e in sl.elts):
                    raise Unsupported(f"py subscript {ast.unparse(n)}")
                return ("idx2", base, self.expr(sl.elts[0]), self.expr(sl.elts[1]))
            if isinstance(sl, ast.Slice):
                if sl.lower is not None or sl.step is not None or sl.upper is None:
                    raise Unsupported(f"py slice {ast.unparse(n)} (only a[:stop] is modelled)")
                return ("upto", base, self.expr(sl.upper))
            return ("idx", base, self.expr(sl))
        if isinstance(n, ast.Call):
            if any(isinstance(a, ast.Starred) for a in n.args) or any(k.arg is None for k in n.keywords):
                raise Unsupported("py call with * / **")
            args = [self.expr(a) for a in n.args]
            kw = {k.arg: self.expr(k.value) for k in n.keywords}
            d = _dotted(n.func)
            if d is not None:
                if d == "abs" and len(args) == 1 and not kw:
                    return ("abs", args[0])
                if isinstance(n.func, ast.Attribute) and d.split(".")[0] in self.locals:
                    # a method of a local value (`peaks.astype(float)`): the object is the first argument
                    return ("call", "method:" + n.func.attr, [self.expr(n.func.value)] + args, kw)
                return ("call", d, args, kw)
            if isinstance(n.func, ast.Attribute):
                return ("call", "method:" + n.func.attr, [self.expr(n.func.value)] + args, kw)       # method of a computed value: `f(x).astype(float)`
            return ("callv", self.expr(n.func), args, kw)
        if isinstance(n, ast.Attribute):
            d = _dotted(n)
            if d is not None and d.split(".")[0] not in self.locals:
                return ("sym", d)          # np.int64, numba.types.bool_: a name of another module, not a value computed here
            return ("attr", self.expr(n.value), n.attr)
        raise Unsupported(f"py expression {ast.unparse(n)[:60]}")

    def lvalue(self, t):
        if isinstance(t, ast.Name):
            return ("var", t.id)
        if isinstance(t, ast.Subscript):
            e = self.expr(t)
            if e[0] in ("idx", "idx2"):
                return e
        raise Unsupported(f"py assignment target {ast.unparse(t)}")

    def block(self, stmts):
        out = []
        for s in stmts:
            out.extend(self.stmt(s))
        return out

    def _assign(self, lv, rhs):
        if rhs[0] == "cond":
            return [("if", rhs[1], self._assign(lv, rhs[2]), self._assign(lv, rhs[3]))]
        return [("set", lv, rhs)]

    def _return(self, e):
        if e is not None and e[0] == "cond":
            return [("if", e[1], self._return(e[2]), self._return(e[3]))]
        return [("return", e)]

    @staticmethod
    def _const_slice(sl):
        """(lo, hi) of a slice with literal non-negative bounds and no step, else None"""
        if not isinstance(sl, ast.Slice) or sl.step is not None or sl.upper is None:
            return None
        lo = 0 if sl.lower is None else sl.lower.value if isinstance(sl.lower, ast.Constant) and isinstance(sl.lower.value, int) else None
        hi = sl.upper.value if isinstance(sl.upper, ast.Constant) and isinstance(sl.upper.value, int) else None
        if lo is None or hi is None or isinstance(lo, bool) or isinstance(hi, bool) or not 0 <= lo < hi <= lo + 16:
            return None
        return lo, hi

    def _block_store(self, tg, val):
        """`a[1:3]` style block moves and whole-row stores, element by element with every right-hand side read first (numpy's semantics, also
        when the two blocks overlap):  a[l:h] = b[l2:h2]  (literal bounds, equal lengths);  t[r] = (x, y, z)  /  t[r, :] = (x, y, z)"""
        if not isinstance(tg, ast.Subscript):
            return None
        ts_ = self._const_slice(tg.slice)
        if ts_ is not None and isinstance(val, ast.Subscript) and self._const_slice(val.slice) is not None:
            vs = self._const_slice(val.slice)
            if ts_[1] - ts_[0] != vs[1] - vs[0]:
                raise Unsupported(f"block move between slices of different lengths: {ast.unparse(tg)} = {ast.unparse(val)}")
            dst, src = self.expr(tg.value), self.expr(val.value)
            tmps = []
            out = []
            for i in range(vs[0], vs[1]):
                t = self._fresh()
                out.append(("set", t, ("idx", src, ("num", Fraction(i)))))
                tmps.append(t)
            for i, t in zip(range(ts_[0], ts_[1]), tmps):
                out.append(("set", ("idx", dst, ("num", Fraction(i))), t))
            return out
        if isinstance(val, (ast.Tuple, ast.List)) and len(val.elts) >= 2:
            sl = tg.slice
            row = None
            if isinstance(sl, ast.Tuple) and len(sl.elts) == 2 and isinstance(sl.elts[1], ast.Slice) \
                    and sl.elts[1].lower is None and sl.elts[1].upper is None and sl.elts[1].step is None and not isinstance(sl.elts[0], ast.Slice):
                row = sl.elts[0]
            elif not isinstance(sl, (ast.Tuple, ast.Slice)):
                row = sl
            if row is None:
                return None
            base, r = self.expr(tg.value), self.expr(row)
            out, tmps = [], []
            for e in val.elts:
                t = self._fresh()
                out.append(("set", t, self.expr(e)))
                tmps.append(t)
            for c, t in enumerate(tmps):
                out.append(("set", ("idx2", base, r, ("num", Fraction(c))), t))
            return out
        return None

    def _seq_iter(self, s):
        """(sequence expr, enumerate start | None, index var | None, element var) of `for x in name` / `for i, x in enumerate(name[, start])`"""
        it, tg = s.iter, s.target
        if isinstance(it, ast.Name) and isinstance(tg, ast.Name):
            return ("var", it.id), None, None, ("var", tg.id)
        if isinstance(it, ast.Call) and isinstance(it.func, ast.Name) and it.func.id == "enumerate" and "enumerate" not in self.locals \
                and 1 <= len(it.args) <= 2 and isinstance(it.args[0], ast.Name) and isinstance(tg, (ast.Tuple, ast.List)) and len(tg.elts) == 2 \
                and all(isinstance(e, ast.Name) for e in tg.elts) and all(k.arg == "start" for k in it.keywords) and len(it.args) + len(it.keywords) <= 2:
            st = it.args[1] if len(it.args) == 2 else (it.keywords[0].value if it.keywords else None)
            return ("var", it.args[0].id), (self.expr(st) if st is not None else None), ("var", tg.elts[0].id), ("var", tg.elts[1].id)
        return None

    def _fresh(self):
        self._tmp += 1
        return ("var", f"%t{self._tmp}")

    def stmt(self, s):
        if isinstance(s, ast.Expr):
            if isinstance(s.value, ast.Constant):
                return []
            if isinstance(s.value, ast.Call):
                return [("expr", self.expr(s.value))]
            raise Unsupported(f"py expression statement {ast.unparse(s)[:60]}")
        if isinstance(s, ast.Pass):
            return []
        if isinstance(s, ast.Break):
            return [("break",)]
        if isinstance(s, ast.Continue):
            return [("continue",)]
        if isinstance(s, ast.Return):
            return self._return(self.expr(s.value) if s.value is not None else None)
        if isinstance(s, ast.Raise):
            return [("raise", self.expr(s.exc) if s.exc is not None else None)]
        if isinstance(s, ast.AnnAssign):
            if s.value is None:
                return []
            return self._assign(self.lvalue(s.target), self.expr(s.value))
        if isinstance(s, ast.Assign) and len(s.targets) == 1 and self._block_store(s.targets[0], s.value) is not None:
            return self._block_store(s.targets[0], s.value)
        if isinstance(s, ast.Assign):
            out = []
            val = self.expr(s.value)
            if len(s.targets) > 1:
                t = self._fresh()
                out.extend(self._assign(t, val))
                val = t
            for tg in s.targets:
                if isinstance(tg, (ast.Tuple, ast.List)):
                    lvs = [self.lvalue(e) for e in tg.elts]
                    if val[0] == "tuple" and len(val[1]) == len(lvs):
                        # right-hand sides first, then the stores, left to right (Python's order)
                        tmps = []
                        for e in val[1]:
                            t = self._fresh()
                            out.append(("set", t, e))
                            tmps.append(t)
                        for lv, t in zip(lvs, tmps):
                            out.append(("set", lv, t))
                    else:
                        out.append(("unpack", lvs, val))
                else:
                    out.extend(self._assign(self.lvalue(tg), val))
            return out
        if isinstance(s, ast.AugAssign):
            ops = {ast.Add: "+", ast.Sub: "-", ast.Mult: "*", ast.Div: "/"}
            if type(s.op) not in ops:
                raise Unsupported("py augmented operator")
            lv = self.lvalue(s.target)
            return [("set", lv, ("bin", ops[type(s.op)], lv, self.expr(s.value)))]
        if isinstance(s, ast.For) and not s.orelse and self._seq_iter(s) is not None:
            # `for x in seq` / `for i, x in enumerate(seq[, start])` over a local sequence: a hidden position counter walks 0 .. len(seq) - 1
            seq, start, ivar, xvar = self._seq_iter(s)
            pos = self._fresh()
            n = ("call", "len", [seq], {})
            head = [("set", xvar, ("idx", seq, pos))]
            if ivar is not None:
                head.insert(0, ("set", ivar, pos if start is None else ("bin", "+", pos, start)))
            body = self.block(s.body)
            assigned = assigned_vars(body)
            if pos[1] in assigned or (expr_vars(seq) & assigned) or (start is not None and expr_vars(start) & assigned):
                raise Unsupported("py for loop whose body assigns the sequence it iterates over")
            out = [("set", pos, ZERO), ("loop", ("cmp", "<", pos, n), head + body, [("set", pos, ("bin", "+", pos, ONE))]), ("havoc", xvar[1])]
            if ivar is not None:
                out.append(("havoc", ivar[1]))
            return out
        if isinstance(s, ast.For):
            it = s.iter
            if not (isinstance(it, ast.Call) and isinstance(it.func, ast.Name) and it.func.id == "range" and not it.keywords
                    and isinstance(s.target, ast.Name) and not s.orelse):
                raise Unsupported("py for loop is not `for v in range(...)`")
            if len(it.args) == 1:
                lo, hi = ZERO, self.expr(it.args[0])
            elif len(it.args) == 2 or (len(it.args) == 3 and isinstance(it.args[2], ast.Constant) and it.args[2].value == 1):
                lo, hi = self.expr(it.args[0]), self.expr(it.args[1])
            else:
                raise Unsupported("range with a step")
            v = ("var", s.target.id)
            body = self.block(s.body)
            # `for v in range(lo, hi)` == `v = lo; while v < hi: body; v += 1` when the body leaves v and the variables of hi alone
            # (checked); after the loop Python's v differs from C's, so it is marked undefined
            assigned = assigned_vars(body)
            if s.target.id in assigned or (expr_vars(hi) & assigned):
                raise Unsupported("py for loop whose body assigns the loop variable or its bound")
            return [("set", v, lo), ("loop", ("cmp", "<", v, hi), body, [("set", v, ("bin", "+", v, ONE))]), ("havoc", s.target.id)]
        if isinstance(s, ast.While):
            if s.orelse:
                raise Unsupported("while ... else")
            c = self.expr(s.test)
            if c == ("bool", True) or (c[0] == "num" and c[1] != 0):
                c = None
            return [("loop", c, self.block(s.body), [])]
        if isinstance(s, ast.If):
            return [("if", self.expr(s.test), self.block(s.body), self.block(s.orelse))]
        raise Unsupported(f"py statement {type(s).__name__}: {ast.unparse(s)[:60]}")


class PyUnit:
    """a Python module: module-level functions lowered on demand; module constants bound once to a literal are visible to the executor"""

    def __init__(self, tree):
        self.tree = tree
        self.defs = {}
        for st in tree.body:
            if isinstance(st, ast.FunctionDef):
                self.defs[st.name] = st
        self.funcs = {}
        count = {}
        val = {}
        for st in ast.walk(tree):
            if isinstance(st, (ast.Assign, ast.AnnAssign, ast.AugAssign)):
                tgs = st.targets if isinstance(st, ast.Assign) else [st.target]
                for t in tgs:
                    for x in ast.walk(t):
                        if isinstance(x, ast.Name) and isinstance(x.ctx, ast.Store):
                            count[x.id] = count.get(x.id, 0) + 1
        for st in tree.body:
            if isinstance(st, ast.Assign) and len(st.targets) == 1 and isinstance(st.targets[0], ast.Name):
                if isinstance(st.value, ast.Constant) or (isinstance(st.value, (ast.Tuple, ast.List)) and all(isinstance(e, ast.Constant) for e in st.value.elts)):
                    val[st.targets[0].id] = st.value
        self.consts = {k: v for k, v in val.items() if count.get(k) == 1 and k not in self.defs}
        # every name the module binds at any level outside its functions, plus the builtins: what a global lookup can find
        import builtins
        self.module_names = set(dir(builtins)) | set(self.defs)

        def bound(stmts):
            for st in stmts:
                if isinstance(st, (ast.FunctionDef, ast.AsyncFunctionDef, ast.ClassDef)):
                    self.module_names.add(st.name)
                    continue
                for x in ast.walk(st):
                    if isinstance(x, (ast.Import, ast.ImportFrom)):
                        self.module_names.update((al.asname or al.name).split(".")[0] for al in x.names)
                    elif isinstance(x, ast.Name) and isinstance(x.ctx, ast.Store):
                        self.module_names.add(x.id)
        bound(tree.body)

    def func(self, name, required=True):
        if name not in self.funcs:
            if name not in self.defs:
                if required:
                    raise AnchorError(f"python function {name} not found")
                return None
            self.funcs[name] = PyFunc(self.defs[name])
        return self.funcs[name]

    def helper(self, name):
        return self.func(name, required=False) if name in self.defs else None

    def const(self, name):
        if name in self.consts:
            return _literal(self.consts[name])
        return None


def _literal(n):
    if isinstance(n, ast.Constant):
        v = n.value
        if isinstance(v, bool):
            return ("bool", v)
        if v is None:
            return ("null",)
        if isinstance(v, int):
            return ("num", Fraction(v))
        if isinstance(v, float):
            return ("num", Fraction(repr(v)))
        if isinstance(v, str):
            return ("str", v)
    if isinstance(n, (ast.Tuple, ast.List)):
        return ("obj", "tuple") + tuple(_literal(e) for e in n.elts)
    raise Unsupported("module constant")


# ---------------------------------------------------------------------------
# utilities on the IR
def walk_ir(stmts):
    for s in stmts:
        yield s
        if s[0] == "loop":
            yield from walk_ir(s[2])
            yield from walk_ir(s[3])
        elif s[0] == "if":
            yield from walk_ir(s[2])
            yield from walk_ir(s[3])


def assigned_vars(stmts):
    out = set()

    def addr_taken(e):
        # `&v` handed to a call: the callee may assign v (a counter or cursor passed by reference)
        if isinstance(e, tuple):
            if len(e) == 2 and e[0] == "addr" and isinstance(e[1], tuple) and e[1][:1] == ("var",):
                out.add(e[1][1])
            for x in e:
                addr_taken(x)
        elif isinstance(e, list):
            for x in e:
                addr_taken(x)
        elif isinstance(e, dict):
            for x in e.values():
                addr_taken(x)
    for s in walk_ir(stmts):
        if s[0] == "set" and s[1][0] == "var":
            out.add(s[1][1])
        elif s[0] == "unpack":
            out |= {lv[1] for lv in s[1] if lv[0] == "var"}
        elif s[0] == "havoc":
            out.add(s[1])
        if s[0] in ("set", "expr", "return", "unpack"):
            addr_taken(s[1:])
        elif s[0] in ("if", "loop") and s[1] is not None:
            addr_taken(s[1])
    return out


def expr_vars(e, acc=None):
    acc = set() if acc is None else acc
    if isinstance(e, tuple):
        if e and e[0] == "var":
            acc.add(e[1])
        else:
            for x in e:
                expr_vars(x, acc)
    elif isinstance(e, list):
        for x in e:
            expr_vars(x, acc)
    elif isinstance(e, dict):
        for x in e.values():
            expr_vars(x, acc)
    return acc


def loops_of(stmts):
    """the loop statements of a body in source order with their nesting depth: [(loop stmt, depth, parent loop | None)]"""
    out = []

    def go(ss, depth, parent):
        for s in ss:
            if s[0] == "loop":
                out.append((s, depth, parent))
                go(s[2], depth + 1, s)
                go(s[3], depth + 1, s)
            elif s[0] == "if":
                go(s[2], depth, parent)
                go(s[3], depth, parent)
    go(stmts, 0, None)
    return out


def fmt_expr(e):
    if not isinstance(e, tuple) or not e:
        return str(e)
    k = e[0]
    if k == "num":
        return str(float(e[1])) if e[1].denominator != 1 else str(e[1].numerator)
    if k in ("var", "sym"):
        return e[1]
    if k == "str":
        return repr(e[1])
    if k == "null":
        return "NULL"
    if k == "bool":
        return str(e[1])
    if k == "idx":
        return f"{fmt_expr(e[1])}[{fmt_expr(e[2])}]"
    if k == "idx2":
        return f"{fmt_expr(e[1])}[{fmt_expr(e[2])}, {fmt_expr(e[3])}]"
    if k == "upto":
        return f"{fmt_expr(e[1])}[:{fmt_expr(e[2])}]"
    if k in ("bin", "cmp"):
        return f"({fmt_expr(e[2])} {e[1]} {fmt_expr(e[3])})"
    if k == "neg":
        return f"-{fmt_expr(e[1])}"
    if k == "not":
        return f"!{fmt_expr(e[1])}"
    if k == "abs":
        return f"|{fmt_expr(e[1])}|"
    if k in ("and", "or"):
        return f"({fmt_expr(e[1])} {k} {fmt_expr(e[2])})"
    if k == "cond":
        return f"({fmt_expr(e[1])} ? {fmt_expr(e[2])} : {fmt_expr(e[3])})"
    if k == "call":
        return f"{e[1]}({', '.join([fmt_expr(a) for a in e[2]] + [f'{n}={fmt_expr(v)}' for n, v in e[3].items()])})"
    if k == "tuple":
        return "(" + ", ".join(fmt_expr(x) for x in e[1]) + ")"
    if k == "attr":
        return f"{fmt_expr(e[1])}.{e[2]}"
    return str(e)


def fmt(stmts, ind=0):
    out = []
    p = "  " * ind
    for s in stmts:
        k = s[0]
        if k == "set":
            out.append(f"{p}{fmt_expr(s[1])} = {fmt_expr(s[2])}")
        elif k == "unpack":
            out.append(f"{p}{', '.join(fmt_expr(x) for x in s[1])} = {fmt_expr(s[2])}")
        elif k == "loop":
            out.append(f"{p}loop {fmt_expr(s[1]) if s[1] is not None else 'forever'}:")
            out.extend(fmt(s[2], ind + 1))
            if s[3]:
                out.append(f"{p}step:")
                out.extend(fmt(s[3], ind + 1))
        elif k == "if":
            out.append(f"{p}if {fmt_expr(s[1])}:")
            out.extend(fmt(s[2], ind + 1))
            if s[3]:
                out.append(f"{p}else:")
                out.extend(fmt(s[3], ind + 1))
        elif k in ("return", "raise", "expr"):
            out.append(f"{p}{k} {fmt_expr(s[1]) if s[1] is not None else ''}")
        elif k in ("goto", "label", "havoc"):
            out.append(f"{p}{k} {s[1]}")
        else:
            out.append(f"{p}{k}")
    return out
