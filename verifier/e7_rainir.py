"""E7 -- two front ends, one IR, for the rainflow counters.

C side:   clang-14 -fsyntax-only -Xclang -ast-dump=json (the preprocessed AST the
          build sees, so USE_FASTER_RAINFLOW_ROUTINE is honoured)
Py side:  ast of py_rain.py

IR (nested tuples):
  stmts : list of
     ('set', lvalue, expr)           lvalue = ('var', name) | ('idx', array, expr)
     ('emit', array, (expr, ...))    one output row  (C: n consecutive `*p++ = e`;  Py: n += 1; a[n, c] = e ...)
     ('for', var, lo, hi, body)      for var in lo..hi-1
     ('while', cond, body)
     ('if', cond, then, else)
     ('break',)
  expr  : ('num', Fraction) | ('var', name) | ('idx', array, expr) | ('bin', op, a, b) | ('neg', a)
          | ('abs', a) | ('cmp', op, a, b)
"""
from __future__ import annotations

import ast
import json
import os
import subprocess
from fractions import Fraction

from .core import AnchorError, Unsupported

CLANG = "clang-14"


# ---------------------------------------------------------------------------
def include_dirs():
    """configuration query (separate process; the checker itself never imports numpy/pyyeti)"""
    code = "import sysconfig, numpy; print(sysconfig.get_paths()['include']); print(numpy.get_include())"
    for py in ("/venv/bin/python",):
        try:
            r = subprocess.run([py, "-c", code], capture_output=True, text=True, timeout=60)
        except Exception as e:  # noqa
            continue
        if r.returncode == 0:
            return [l.strip() for l in r.stdout.splitlines() if l.strip()]
    raise Unsupported("cannot determine Python/numpy include directories for clang")


def clang_function(cfile, name):
    if not os.path.exists(cfile):
        raise AnchorError(f"{cfile} not found")
    incs = include_dirs()
    cmd = [CLANG, "-fsyntax-only"] + [f"-I{i}" for i in incs] + \
          ["-Xclang", "-ast-dump=json", "-Xclang", f"-ast-dump-filter={name}", cfile]
    try:
        r = subprocess.run(cmd, capture_output=True, text=True, timeout=120)
    except FileNotFoundError:
        raise Unsupported("clang-14 not available")
    if r.returncode != 0:
        raise Unsupported(f"clang failed: {r.stderr[:400]}")
    dec = json.JSONDecoder()
    s = r.stdout
    i = 0
    best = None
    while i < len(s):
        while i < len(s) and s[i].isspace():
            i += 1
        if i >= len(s):
            break
        o, i = dec.raw_decode(s, i)
        if o.get("kind") == "FunctionDecl" and o.get("name") == name:
            if any(c.get("kind") == "CompoundStmt" for c in o.get("inner", [])):
                best = o
    if best is None:
        raise AnchorError(f"C function {name} (definition) not found in {cfile}")
    return best


# ---------------------------------------------------------------------------
# C lowering
class CLower:
    def __init__(self, fdecl):
        self.f = fdecl
        self.house = []      # housekeeping statements kept out of the IR (for the pairing check)
        self.line = None

    def body(self):
        return [c for c in self.f["inner"] if c.get("kind") == "CompoundStmt"][0]

    def _strip(self, n):
        while n.get("kind") in ("ImplicitCastExpr", "ParenExpr", "CStyleCastExpr", "ConstantExpr"):
            n = n["inner"][0]
        return n

    def expr(self, n, pre):
        """returns IR expr; side effects (++j) are appended to `pre` as statements"""
        n = self._strip(n)
        k = n.get("kind")
        if k == "IntegerLiteral":
            return ("num", Fraction(int(n["value"])))
        if k == "FloatingLiteral":
            return ("num", Fraction(n["value"]))
        if k == "DeclRefExpr":
            return ("var", n["referencedDecl"]["name"])
        if k == "ArraySubscriptExpr":
            base = self._strip(n["inner"][0])
            if base.get("kind") != "DeclRefExpr":
                raise Unsupported("array base")
            idx = self.expr(n["inner"][1], pre)
            return ("idx", base["referencedDecl"]["name"], idx)
        if k == "BinaryOperator":
            op = n["opcode"]
            a = self.expr(n["inner"][0], pre)
            b = self.expr(n["inner"][1], pre)
            if op in ("+", "-", "*", "/"):
                return ("bin", op, a, b)
            if op in ("<", ">", "<=", ">=", "==", "!="):
                return ("cmp", op, a, b)
            raise Unsupported(f"C operator {op}")
        if k == "UnaryOperator":
            op = n["opcode"]
            if op == "-":
                a = self.expr(n["inner"][0], pre)
                if a[0] == "num":
                    return ("num", -a[1])
                return ("neg", a)
            if op == "++" and not n.get("isPostfix"):
                tgt = self._strip(n["inner"][0])
                if tgt.get("kind") != "DeclRefExpr":
                    raise Unsupported("++ target")
                v = ("var", tgt["referencedDecl"]["name"])
                pre.append(("set", v, ("bin", "+", v, ("num", Fraction(1)))))
                return v
            raise Unsupported(f"C unary {op}{' postfix' if n.get('isPostfix') else ''} in expression")
        if k == "CallExpr":
            callee = self._strip(n["inner"][0])
            nm = (callee.get("referencedDecl") or {}).get("name")
            if nm == "fabs" and len(n["inner"]) == 2:
                return ("abs", self.expr(n["inner"][1], pre))
            raise Unsupported(f"C call {nm}")
        raise Unsupported(f"C expression kind {k}")

    def _is_push(self, n):
        """*p++ = e  -> (p, e_node)"""
        if n.get("kind") == "BinaryOperator" and n.get("opcode") == "=":
            lhs = self._strip(n["inner"][0])
            if lhs.get("kind") == "UnaryOperator" and lhs.get("opcode") == "*":
                inner = self._strip(lhs["inner"][0])
                if inner.get("kind") == "UnaryOperator" and inner.get("opcode") == "++" and inner.get("isPostfix"):
                    t = self._strip(inner["inner"][0])
                    if t.get("kind") == "DeclRefExpr":
                        return t["referencedDecl"]["name"], n["inner"][1]
        return None

    def stmts(self, nodes):
        out = []
        for n in nodes:
            out.extend(self.stmt(n))
        return group_pushes(out)

    def block(self, n):
        if n.get("kind") == "CompoundStmt":
            return self.stmts(n.get("inner", []))
        return self.stmts([n])

    def stmt(self, n):
        k = n.get("kind")
        if k == "CompoundStmt":
            return self.stmts(n.get("inner", []))
        if k == "NullStmt":
            return []
        if k == "BreakStmt":
            return [("break",)]
        if k == "DeclStmt":
            out = []
            for d in n.get("inner", []):
                if d.get("kind") == "VarDecl" and d.get("init"):
                    init = d["inner"][-1]
                    try:
                        pre = []
                        e = self.expr(init, pre)
                        out.extend(pre)
                        out.append(("set", ("var", d["name"]), e))
                    except Unsupported:
                        self.house.append(("decl", d["name"], n))
            return out
        if k == "BinaryOperator" and n.get("opcode") == "=":
            p = self._is_push(n)
            if p:
                pre = []
                e = self.expr(p[1], pre)
                return pre + [("push", p[0], e)]
            pre = []
            try:
                lhs = self.lvalue(n["inner"][0], pre)
                rhs = self.expr(n["inner"][1], pre)
            except Unsupported:
                self.house.append(("assign", None, n))
                return []
            return pre + [("set", lhs, rhs)]
        if k == "CompoundAssignOperator":
            pre = []
            lhs = self.lvalue(n["inner"][0], pre)
            rhs = self.expr(n["inner"][1], pre)
            op = n["opcode"][:-1]
            rd = ("var", lhs[1]) if lhs[0] == "var" else lhs
            return pre + [("set", lhs, ("bin", op, rd, rhs))]
        if k == "UnaryOperator" and n.get("opcode") in ("++", "--"):
            t = self._strip(n["inner"][0])
            if t.get("kind") != "DeclRefExpr":
                raise Unsupported("++ target")
            v = ("var", t["referencedDecl"]["name"])
            return [("set", v, ("bin", "+" if n["opcode"] == "++" else "-", v, ("num", Fraction(1))))]
        if k == "ForStmt":
            init, _, cond, inc, body = n["inner"]
            pre = []
            if not (init.get("kind") == "BinaryOperator" and init.get("opcode") == "="):
                raise Unsupported("for-init")
            var = self.lvalue(init["inner"][0], pre)
            lo = self.expr(init["inner"][1], pre)
            c = self.expr(cond, pre)
            inc_s = self.stmt(inc)
            if pre or var[0] != "var" or c[0] != "cmp" or c[1] != "<" or c[2] != var \
                    or inc_s != [("set", var, ("bin", "+", var, ("num", Fraction(1))))]:
                raise Unsupported("for loop is not `for (v=lo; v<hi; ++v)`")
            return [("for", var[1], lo, c[3], self.block(body))]
        if k == "WhileStmt":
            cond, body = n["inner"][-2], n["inner"][-1]
            pre = []
            c = self.expr(cond, pre)
            if pre:
                raise Unsupported("side effect in while condition")
            return [("while", c, self.block(body))]
        if k == "IfStmt":
            inner = n["inner"]
            cond = inner[0]
            # housekeeping: `if (...) goto fail;` and error returns
            if any(x.get("kind") == "GotoStmt" for x in inner[1:]) or _contains(inner[1], ("GotoStmt", "ReturnStmt")):
                self.house.append(("guard", None, n))
                return []
            pre = []
            c = self.expr(cond, pre)
            if pre:
                raise Unsupported("side effect in if condition")
            then = self.block(inner[1])
            els = self.block(inner[2]) if len(inner) > 2 else []
            return [("if", c, then, els)]
        if k in ("CallExpr", "ReturnStmt", "LabelStmt", "GotoStmt"):
            self.house.append((k, None, n))
            return []
        raise Unsupported(f"C statement kind {k}")

    def lvalue(self, n, pre):
        n = self._strip(n)
        if n.get("kind") == "DeclRefExpr":
            return ("var", n["referencedDecl"]["name"])
        if n.get("kind") == "ArraySubscriptExpr":
            base = self._strip(n["inner"][0])
            if base.get("kind") != "DeclRefExpr":
                raise Unsupported("array base")
            return ("idx", base["referencedDecl"]["name"], self.expr(n["inner"][1], pre))
        raise Unsupported(f"C lvalue {n.get('kind')}")


def _contains(n, kinds):
    if n.get("kind") in kinds:
        return True
    return any(_contains(c, kinds) for c in n.get("inner", []) if isinstance(c, dict))


def group_pushes(stmts):
    out = []
    i = 0
    while i < len(stmts):
        s = stmts[i]
        if s[0] == "push":
            arr = s[1]
            row = []
            while i < len(stmts) and stmts[i][0] == "push" and stmts[i][1] == arr:
                row.append(stmts[i][2])
                i += 1
            out.append(("emit", arr, tuple(row)))
        else:
            out.append(s)
            i += 1
    return out


# ---------------------------------------------------------------------------
# Python lowering
class PyLower:
    def __init__(self, fn, rowvar="n", group=True):
        self.fn = fn
        self.rowvar = rowvar
        self.group = group      # False: keep the individual ('cell', array, row, col, value) stores and the row counter

    def expr(self, n):
        if isinstance(n, ast.Constant) and isinstance(n.value, (int, float)) and not isinstance(n.value, bool):
            return ("num", Fraction(repr(n.value)) if isinstance(n.value, float) else Fraction(n.value))
        if isinstance(n, ast.Name):
            return ("var", n.id)
        if isinstance(n, ast.UnaryOp) and isinstance(n.op, ast.USub):
            a = self.expr(n.operand)
            return ("num", -a[1]) if a[0] == "num" else ("neg", a)
        if isinstance(n, ast.BinOp):
            ops = {ast.Add: "+", ast.Sub: "-", ast.Mult: "*", ast.Div: "/"}
            if type(n.op) not in ops:
                raise Unsupported(f"py operator {type(n.op).__name__}")
            return ("bin", ops[type(n.op)], self.expr(n.left), self.expr(n.right))
        if isinstance(n, ast.Compare) and len(n.ops) == 1:
            ops = {ast.Lt: "<", ast.Gt: ">", ast.LtE: "<=", ast.GtE: ">=", ast.Eq: "==", ast.NotEq: "!="}
            return ("cmp", ops[type(n.ops[0])], self.expr(n.left), self.expr(n.comparators[0]))
        if isinstance(n, ast.Subscript) and isinstance(n.value, ast.Name):
            if isinstance(n.slice, ast.Tuple):
                raise Unsupported("2-d read")
            return ("idx", n.value.id, self.expr(n.slice))
        if isinstance(n, ast.Call) and isinstance(n.func, ast.Name) and n.func.id == "abs" and len(n.args) == 1:
            return ("abs", self.expr(n.args[0]))
        raise Unsupported(f"py expression {ast.unparse(n)}")

    def block(self, stmts):
        out = []
        for s in stmts:
            out.extend(self.stmt(s))
        return self.group_rows(out) if self.group else out

    def stmt(self, s):
        if isinstance(s, ast.Expr) and isinstance(s.value, ast.Constant):
            return []
        if isinstance(s, ast.Break):
            return [("break",)]
        if isinstance(s, ast.Assign) and len(s.targets) == 1:
            t = s.targets[0]
            if isinstance(t, ast.Name):
                return [("set", ("var", t.id), self.expr(s.value))]
            if isinstance(t, ast.Subscript) and isinstance(t.value, ast.Name):
                if isinstance(t.slice, ast.Tuple) and len(t.slice.elts) == 2:
                    r, c = t.slice.elts
                    if not (isinstance(c, ast.Constant) and isinstance(c.value, int)):
                        raise Unsupported("output column")
                    return [("cell", t.value.id, self.expr(r), c.value, self.expr(s.value))]
                return [("set", ("idx", t.value.id, self.expr(t.slice)), self.expr(s.value))]
            raise Unsupported(f"py assignment {ast.unparse(s)}")
        if isinstance(s, ast.AugAssign) and isinstance(s.target, ast.Name):
            ops = {ast.Add: "+", ast.Sub: "-"}
            if type(s.op) not in ops:
                raise Unsupported("py augmented op")
            v = ("var", s.target.id)
            return [("set", v, ("bin", ops[type(s.op)], v, self.expr(s.value)))]
        if isinstance(s, ast.For):
            it = s.iter
            if not (isinstance(it, ast.Call) and isinstance(it.func, ast.Name) and it.func.id == "range"
                    and isinstance(s.target, ast.Name) and not s.orelse):
                raise Unsupported("py for loop is not range()")
            if len(it.args) == 1:
                lo, hi = ("num", Fraction(0)), self.expr(it.args[0])
            elif len(it.args) == 2:
                lo, hi = self.expr(it.args[0]), self.expr(it.args[1])
            else:
                raise Unsupported("range with step")
            return [("for", s.target.id, lo, hi, self.block(s.body))]
        if isinstance(s, ast.While) and not s.orelse:
            return [("while", self.expr(s.test), self.block(s.body))]
        if isinstance(s, ast.If):
            return [("if", self.expr(s.test), self.block(s.body), self.block(s.orelse))]
        raise Unsupported(f"py statement {type(s).__name__}: {ast.unparse(s)[:60]}")

    def group_rows(self, stmts):
        """n += 1 ; a[n,0]=..; a[n,1]=.. ; b[n,0]=..  ->  emit a (...), emit b (...)"""
        out = []
        i = 0
        rv = ("var", self.rowvar)
        inc = ("set", rv, ("bin", "+", rv, ("num", Fraction(1))))
        while i < len(stmts):
            s = stmts[i]
            if s == inc:
                i += 1
                rows = {}
                order = []
                while i < len(stmts) and stmts[i][0] == "cell":
                    _, arr, r, c, e = stmts[i]
                    if r != rv:
                        raise Unsupported("output row is not the row counter")
                    if arr not in rows:
                        rows[arr] = []
                        order.append(arr)
                    if c != len(rows[arr]):
                        raise Unsupported("output columns not written in order 0,1,2..")
                    if order[-1] != arr:
                        raise Unsupported("interleaved output arrays")
                    rows[arr].append(e)
                    i += 1
                if not rows:
                    raise Unsupported("row counter incremented without an output row")
                for arr in order:
                    out.append(("emit", arr, tuple(rows[arr])))
            elif s[0] == "cell":
                raise Unsupported("output store without a preceding row-counter increment")
            else:
                out.append(s)
                i += 1
        return out


# ---------------------------------------------------------------------------
# utilities on the IR
def walk_ir(stmts):
    for s in stmts:
        yield s
        if s[0] == "for":
            yield from walk_ir(s[4])
        elif s[0] == "while":
            yield from walk_ir(s[2])
        elif s[0] == "if":
            yield from walk_ir(s[2])
            yield from walk_ir(s[3])


def expr_vars(e, acc=None):
    acc = set() if acc is None else acc
    if e[0] == "var":
        acc.add(e[1])
    elif e[0] == "idx":
        acc.add(e[1])
        expr_vars(e[2], acc)
    elif e[0] in ("bin", "cmp"):
        expr_vars(e[2], acc)
        expr_vars(e[3], acc)
    elif e[0] in ("neg", "abs"):
        expr_vars(e[1], acc)
    return acc


def canon_expr(e):
    """commutativity of + only (as stated in DESIGN C05-R1); everything else exact"""
    if e[0] == "bin":
        a, b = canon_expr(e[2]), canon_expr(e[3])
        if e[1] == "+" and repr(b) < repr(a):
            a, b = b, a
        return ("bin", e[1], a, b)
    if e[0] == "cmp":
        return ("cmp", e[1], canon_expr(e[2]), canon_expr(e[3]))
    if e[0] in ("neg", "abs"):
        return (e[0], canon_expr(e[1]))
    if e[0] == "idx":
        return ("idx", e[1], canon_expr(e[2]))
    return e


def canon(stmts):
    out = []
    for s in stmts:
        if s[0] == "set":
            lv = s[1] if s[1][0] == "var" else ("idx", s[1][1], canon_expr(s[1][2]))
            out.append(("set", lv, canon_expr(s[2])))
        elif s[0] == "emit":
            out.append(("emit", s[1], tuple(canon_expr(e) for e in s[2])))
        elif s[0] == "for":
            out.append(("for", s[1], canon_expr(s[2]), canon_expr(s[3]), canon(s[4])))
        elif s[0] == "while":
            out.append(("while", canon_expr(s[1]), canon(s[2])))
        elif s[0] == "if":
            out.append(("if", canon_expr(s[1]), canon(s[2]), canon(s[3])))
        else:
            out.append(s)
    return out


def rename(stmts, mp):
    def rx(e):
        if e[0] == "var":
            return ("var", mp.get(e[1], e[1]))
        if e[0] == "idx":
            return ("idx", mp.get(e[1], e[1]), rx(e[2]))
        if e[0] in ("bin", "cmp"):
            return (e[0], e[1], rx(e[2]), rx(e[3]))
        if e[0] in ("neg", "abs"):
            return (e[0], rx(e[1]))
        return e

    out = []
    for s in stmts:
        if s[0] == "set":
            out.append(("set", rx(s[1]), rx(s[2])))
        elif s[0] == "emit":
            out.append(("emit", mp.get(s[1], s[1]), tuple(rx(e) for e in s[2])))
        elif s[0] == "for":
            out.append(("for", mp.get(s[1], s[1]), rx(s[2]), rx(s[3]), rename(s[4], mp)))
        elif s[0] == "while":
            out.append(("while", rx(s[1]), rename(s[2], mp)))
        elif s[0] == "if":
            out.append(("if", rx(s[1]), rename(s[2], mp), rename(s[3], mp)))
        else:
            out.append(s)
    return out


def alpha(stmts):
    """rename identifiers by order of first occurrence -> comparison up to renaming"""
    mp = {}

    def see(nm):
        if nm not in mp:
            mp[nm] = f"v{len(mp)}"

    def sx(e):
        if e[0] == "var":
            see(e[1])
        elif e[0] == "idx":
            see(e[1])
            sx(e[2])
        elif e[0] in ("bin", "cmp"):
            sx(e[2])
            sx(e[3])
        elif e[0] in ("neg", "abs"):
            sx(e[1])

    def ss(stmts):
        for s in stmts:
            if s[0] == "set":
                sx(s[2])
                sx(s[1])
            elif s[0] == "emit":
                see(s[1])
                for e in s[2]:
                    sx(e)
            elif s[0] == "for":
                see(s[1])
                sx(s[2])
                sx(s[3])
                ss(s[4])
            elif s[0] == "while":
                sx(s[1])
                ss(s[2])
            elif s[0] == "if":
                sx(s[1])
                ss(s[2])
                ss(s[3])

    ss(stmts)
    return rename(stmts, mp), mp


def fmt_expr(e):
    if e[0] == "num":
        return str(float(e[1])) if e[1].denominator != 1 else str(e[1].numerator)
    if e[0] == "var":
        return e[1]
    if e[0] == "idx":
        return f"{e[1]}[{fmt_expr(e[2])}]"
    if e[0] in ("bin", "cmp"):
        return f"({fmt_expr(e[2])} {e[1]} {fmt_expr(e[3])})"
    if e[0] == "neg":
        return f"-{fmt_expr(e[1])}"
    if e[0] == "abs":
        return f"|{fmt_expr(e[1])}|"
    return str(e)


def fmt(stmts, ind=0):
    out = []
    p = "  " * ind
    for s in stmts:
        if s[0] == "set":
            out.append(f"{p}{fmt_expr(s[1])} = {fmt_expr(s[2])}")
        elif s[0] == "emit":
            out.append(f"{p}emit {s[1]} <- ({', '.join(fmt_expr(e) for e in s[2])})")
        elif s[0] == "for":
            out.append(f"{p}for {s[1]} in {fmt_expr(s[2])}..{fmt_expr(s[3])}:")
            out.extend(fmt(s[4], ind + 1))
        elif s[0] == "while":
            out.append(f"{p}while {fmt_expr(s[1])}:")
            out.extend(fmt(s[2], ind + 1))
        elif s[0] == "if":
            out.append(f"{p}if {fmt_expr(s[1])}:")
            out.extend(fmt(s[2], ind + 1))
            if s[3]:
                out.append(f"{p}else:")
                out.extend(fmt(s[3], ind + 1))
        else:
            out.append(f"{p}{s[0]}")
    return out


def first_diff(a, b):
    fa, fb = fmt(a), fmt(b)
    for i in range(max(len(fa), len(fb))):
        x = fa[i] if i < len(fa) else "<end>"
        y = fb[i] if i < len(fb) else "<end>"
        if x != y:
            return {"position": i, "left": x.strip(), "right": y.strip()}
    return None
