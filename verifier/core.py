"""Harness shared by every property checker.

A *rule* is a function ``rule(ctx)`` that records obligations through
``ctx.ok / ctx.fail / ctx.error``.  ``run_property`` runs the rules of one
property, matches failed obligations against ``known_findings.json``, writes the
evidence file and the replay report and turns the outcome into the exit codes of
DESIGN.md section 0:

    0  all obligations discharged (or only listed known findings remain)
    1  VIOLATION property=<id> replay=<path>
    2  ANALYSIS-ERROR (anchor vanished, construct outside the lowered subset,
       instance count below floor, internal exception) -- never a silent pass
"""
from __future__ import annotations

import hashlib
import json
import os
import sys
import time
import traceback

VERIF = os.path.dirname(os.path.dirname(os.path.abspath(__file__)))
REPO = os.environ.get("VERIF_REPO", "/repo")


class AnchorError(Exception):
    """A function / construct a rule is bound to cannot be found."""


class Unsupported(Exception):
    """A construct is outside the subset an engine lowers."""


class Obligation:
    __slots__ = ("rule", "instance", "where", "status", "detail", "key", "nontrivial")

    def __init__(self, rule, instance, where, status, detail=None, key=None, nontrivial=True):
        self.rule = rule
        self.instance = instance
        self.where = where
        self.status = status  # ok | fail | error
        self.detail = detail
        self.key = key or f"{rule}|{instance}"
        self.nontrivial = nontrivial

    def as_dict(self):
        d = {
            "rule": self.rule,
            "instance": self.instance,
            "where": self.where,
            "status": self.status,
            "key": self.key,
        }
        if self.detail is not None:
            d["detail"] = self.detail
        return d


def _mentions_unknown(detail):
    if detail is None:
        return False
    try:
        t = detail if isinstance(detail, str) else json.dumps(detail, default=repr)
    except Exception:  # noqa
        t = repr(detail)
    return "Unknown(" in t


class Ctx:
    def __init__(self, prop, tier, seed, repo=None):
        from . import e1_srcmodel

        self.prop = prop
        self.tier = tier
        self.seed = seed
        self.repo = repo or REPO
        self.src = e1_srcmodel.SrcModel(self.repo)
        self.obls = []
        self.rule = None
        self.notes = []
        self.assumptions = []
        self.floors = {}

    # -- recording -------------------------------------------------------
    def _where(self, node_or_where):
        if node_or_where is None:
            return ""
        if isinstance(node_or_where, str):
            return node_or_where
        return self.src.where(node_or_where)

    def ok(self, instance, where=None, detail=None, nontrivial=True):
        self.obls.append(Obligation(self.rule, instance, self._where(where), "ok", detail, None, nontrivial))

    def fail(self, instance, where=None, detail=None, key=None):
        # framework-wide safety net: a comparison that failed on a value the evaluator could not determine is "not decided", never a violation
        # (the detail carries the values compared; every evaluator prints an undetermined value as `Unknown(<reason>)`)
        if key is None and _mentions_unknown(detail):
            self.obls.append(Obligation(self.rule, instance + " [not decided: a value reaching this comparison is unknown]", self._where(where), "error", detail))
            return
        self.obls.append(Obligation(self.rule, instance, self._where(where), "fail", detail, key))

    def error(self, instance, where=None, detail=None):
        self.obls.append(Obligation(self.rule, instance, self._where(where), "error", detail))

    def check(self, cond, instance, where=None, detail=None, key=None, nontrivial=True):
        if cond:
            self.ok(instance, where, detail, nontrivial)
        else:
            self.fail(instance, where, detail, key)
        return cond

    def assume(self, text):
        if text not in self.assumptions:
            self.assumptions.append(text)

    def note(self, text):
        self.notes.append(text)


def load_known():
    p = os.path.join(VERIF, "known_findings.json")
    if not os.path.exists(p):
        return []
    with open(p) as f:
        return json.load(f)["findings"]


def run_rules(prop, rules, tier, seed, repo=None, only=None):
    """Run rules; return ctx. ``rules`` is a list of (name, func, floor)."""
    ctx = Ctx(prop, tier, seed, repo)
    for name, func, floor in rules:
        if only and name not in only:
            continue
        ctx.rule = name
        ctx.floors[name] = floor
        n0 = len(ctx.obls)
        try:
            func(ctx)
        except AnchorError as e:
            ctx.error("anchor", None, f"anchor not found: {e}")
        except Unsupported as e:
            ctx.error("lowering", None, f"unsupported construct: {e}")
        except Exception:  # noqa
            ctx.error("internal", None, traceback.format_exc(limit=8))
        n = len(ctx.obls) - n0
        if n < floor and not any(o.status != "ok" for o in ctx.obls[n0:]):
            ctx.error(
                "floor",
                None,
                f"rule bound to {n} instances, below the floor {floor} confirmed by hand "
                "(a rule must not decay into vacuity)",
            )
    return ctx


def summarize(ctx, known=None):
    """Split obligations into ok / known / violations / errors."""
    known = load_known() if known is None else known
    kn = {}
    for k in known:
        if k.get("property") == ctx.prop and k.get("status") == "known":
            kn[k["key"]] = k
    oks, knowns, viols, errs = [], [], [], []
    for o in ctx.obls:
        if o.status == "ok":
            oks.append(o)
        elif o.status == "error":
            errs.append(o)
        elif o.key in kn:
            knowns.append((o, kn[o.key]))
        else:
            viols.append(o)
    return oks, knowns, viols, errs


def run_property(prop, rules, level, explanation, trusted_base=None, argv=None, extra_cov=None, thorough=None):
    import argparse

    ap = argparse.ArgumentParser()
    ap.add_argument("--tier", default=os.environ.get("VERIF_TIER", "quick"))
    ap.add_argument("--rule", action="append")
    ap.add_argument("--replay")
    ap.add_argument("--repo", default=None)
    ap.add_argument("--no-evidence", action="store_true")
    args = ap.parse_args(argv)
    tier = args.tier if args.tier in ("quick", "thorough") else "quick"
    try:
        seed = int(os.environ.get("VERIF_SEED", "0"))
    except ValueError:
        seed = 0
    t0 = time.time()
    only = set(args.rule) if args.rule else None
    if args.replay:
        try:
            with open(args.replay) as f:
                rp = json.load(f)
            only = {v["rule"] for v in rp.get("violations", [])} or only
        except Exception as e:  # noqa
            print(f"ANALYSIS-ERROR property={prop} cannot read replay {args.replay}: {e}")
            return 2
    # watchdog: a rule that does not terminate (a defect of the checker, e.g. a fixed-point loop that never converges on an unusual tree) must
    # not hang the registered command - after VERIF_BUDGET_S seconds (default 900) the run ends as "not decided" (exit 2)
    import signal

    class AnalysisTimeout(BaseException):
        pass

    def _alarm(signum, frame):
        raise AnalysisTimeout()

    try:
        budget = float(os.environ.get("VERIF_BUDGET_S", "900"))
    except ValueError:
        budget = 900.0
    armed = False
    try:
        signal.signal(signal.SIGALRM, _alarm)
        signal.setitimer(signal.ITIMER_REAL, budget, 20.0)      # re-fires every 20 s should a broad handler swallow the first one
        armed = True
    except Exception:  # noqa  (no SIGALRM on this platform / not the main thread)
        pass
    try:
        ctx = run_rules(prop, rules, tier, seed, args.repo, only)
    except AnalysisTimeout:
        print(f"ANALYSIS-ERROR property={prop} the analysis did not finish within {budget:.0f} s (VERIF_BUDGET_S)")
        return 2
    except Exception:  # noqa
        print(f"ANALYSIS-ERROR property={prop} harness failure")
        traceback.print_exc()
        return 2
    finally:
        if armed:
            signal.setitimer(signal.ITIMER_REAL, 0)
    st_info = None
    if tier == "thorough" and thorough is not None and not only:
        try:
            st_info = thorough(ctx)
        except Exception:  # noqa
            ctx.rule = "selftest"
            ctx.error("selftest", None, traceback.format_exc(limit=8))
    oks, knowns, viols, errs = summarize(ctx)
    wall = time.time() - t0

    print(f"[{prop}] tier={tier} repo={ctx.repo} rules={len([r for r in rules if not only or r[0] in only])} "
          f"obligations={len(ctx.obls)} ok={len(oks)} known={len(knowns)} violations={len(viols)} errors={len(errs)} "
          f"files={len(ctx.src.consulted())} wall={wall:.2f}s")
    per = {}
    for o in ctx.obls:
        a = per.setdefault(o.rule, [0, 0])
        a[0] += 1
        a[1] += o.status == "ok"
    for r, (n, k) in per.items():
        print(f"  rule {r}: {k}/{n} discharged (floor {ctx.floors.get(r, 0)})")
    if st_info:
        print(f"  selftest: {st_info.get('summary', '')}")
    for o, k in knowns:
        print(f"KNOWN-FINDING: property={prop} {k.get('id', '')} {o.rule} {o.instance} at {o.where}: {k.get('what', '')}")
    rc = 0
    replay_path = None
    if viols:
        os.makedirs(os.path.join(VERIF, "out"), exist_ok=True)
        replay_path = os.path.join(VERIF, "out", f"{prop}.replay.json")
        with open(replay_path, "w") as f:
            json.dump(
                {
                    "property": prop,
                    "repo": ctx.repo,
                    "rerun": f"/venv/bin/python -I -S verifier/run.py {prop} --replay {replay_path}",
                    "violations": [o.as_dict() for o in viols],
                },
                f,
                indent=1,
            )
        for o in viols:
            print(f"  FAIL {o.rule} {o.instance} at {o.where}: {_short(o.detail)}")
        print(f"VIOLATION property={prop} replay={replay_path}")
        rc = 1
    if errs:
        for o in errs:
            print(f"  ERROR {o.rule} {o.instance} at {o.where}: {_short(o.detail, 2000)}")
        print(f"ANALYSIS-ERROR property={prop} {len(errs)} obligation(s) could not be bound or lowered")
        if rc == 0:
            rc = 2

    if not args.no_evidence and not only:
        nontrivial = {o.key for o in oks if o.nontrivial}
        samples = [o.as_dict() for o in _pick(oks, 12)]
        cov = {
            "explanation": explanation,
            "evaluations": len(ctx.obls),
            "distinct_nontrivial": len(nontrivial),
            "rule": "one obligation = one instance of one repo-specific static rule bound to a construct of the "
                    "current /repo source; non-trivial = the two sides compared are distinct constructs "
                    "(not a self-comparison or a presence check)",
            "obligations": len(ctx.obls),
            "discharged": len(oks) ,
            "known_findings": [dict(o.as_dict(), finding=k.get("id")) for o, k in knowns],
            "checker_cmd": f"/venv/bin/python -I -S verifier/run.py {prop} --tier {tier}",
            "trusted_base": trusted_base or ["CPython ast module (parser of the interpreter that builds the repo)",
                                             "verifier/*.py engines"],
            "samples": samples,
            "per_rule": {r: {"obligations": n, "discharged": k, "floor": ctx.floors.get(r, 0)} for r, (n, k) in per.items()},
            "files_consulted": ctx.src.consulted(),
            "functions_consulted": sorted(ctx.src.funcs_consulted),
            "notes": ctx.notes,
            "exhaustive": True,
        }
        if st_info:
            cov["selftest"] = st_info
        if extra_cov:
            cov.update(extra_cov(ctx))
        lvl = level
        if lvl == "proof" and (len(oks) != len(ctx.obls)):
            lvl = "other"
        ev = {
            "property_id": prop,
            "tier": tier,
            "seed": seed,
            "level": lvl,
            "coverage": cov,
            "assumptions": ctx.assumptions,
            "wall_s": round(wall, 3),
            "violations": len(viols),
        }
        os.makedirs(os.path.join(VERIF, "evidence"), exist_ok=True)
        with open(os.path.join(VERIF, "evidence", f"{prop}.json"), "w") as f:
            json.dump(ev, f, indent=1, sort_keys=True)
            f.write("\n")
    for m in ("pyyeti", "numpy", "scipy"):
        if m in sys.modules:
            print(f"ANALYSIS-ERROR property={prop} module {m} was imported: the checker must not execute repo code")
            rc = rc or 2
    return rc


def _short(x, n=600):
    s = x if isinstance(x, str) else json.dumps(x, default=str)
    return s if len(s) <= n else s[:n] + "..."


def _pick(obls, n):
    """A deterministic spread over rules."""
    by = {}
    for o in obls:
        by.setdefault(o.rule, []).append(o)
    out = []
    i = 0
    while len(out) < n and by:
        for r in list(by):
            lst = by[r]
            if i < len(lst):
                out.append(lst[i])
                if len(out) >= n:
                    break
            else:
                del by[r]
        i += 1
    return out


def digest(path):
    with open(path, "rb") as f:
        return hashlib.sha256(f.read()).hexdigest()[:16]
